#!/bin/bash
# Runs the thorough tier of every claimed check in sequence (budget per stage from VERIF_BUDGET_S, default 240 s),
# with the batch seed given as $1 (default 1). Output: one summary line per check.
cd "$(dirname "$0")/.."
SEED=${1:-1}
export VERIF_BUDGET_S=${VERIF_BUDGET_S:-240}
for p in C01 C02 C03 C04 C05 C06 C07 C08 C09 C11 C12 C13 C14 C15 C17 C18 C19 C20; do
  ./check $p --tier thorough --seed $SEED ${NOEV:+--no-evidence} > /tmp/thorough-$p-$SEED.out 2>&1
  echo "$p seed=$SEED exit=$? $(grep -E "^$p thorough:" /tmp/thorough-$p-$SEED.out | cut -c1-120) $(grep -cE '^VIOLATION' /tmp/thorough-$p-$SEED.out) violations $(grep -cE '^INFRA' /tmp/thorough-$p-$SEED.out) infra"
  grep -E "^VIOLATION|^INFRA|^KNOWN-FINDING|^NOTE|oracle=" /tmp/thorough-$p-$SEED.out | cut -c1-300 | sort | uniq -c | head -8
done
