#!/bin/bash
# Runs the repository's pinned test suite (guard off: there are no source hooks) and
# compares the passing set with /root/.vp/BASELINE.json stable_pass.
# usage: tools/baseline.sh [repo-dir]   exit 0 iff every stable_pass test passed.
REPO=${1:-/repo}
OUT=$(mktemp /dev/shm/baseline.XXXXXX.json)
cd "$REPO" && GOFLAGS=-mod=mod go test -json -vet=off -count=1 -timeout 25m ./... > "$OUT" 2>/dev/null
python3 - "$OUT" <<'PY'
import json,sys
base=set(json.load(open('/root/.vp/BASELINE.json'))['stable_pass'])
passed=set()
for l in open(sys.argv[1]):
    try: e=json.loads(l)
    except Exception: continue
    if e.get('Action')=='pass' and e.get('Test'):
        passed.add(e['Package']+'::'+e['Test'])
missing=sorted(base-passed)
print("baseline stable_pass=%d passed_now=%d missing=%d"%(len(base),len(passed&base),len(missing)))
for m in missing[:40]: print("  MISSING",m)
sys.exit(1 if missing else 0)
PY
rc=$?
rm -f "$OUT"
exit $rc
