#!/usr/bin/env python3
"""Prints the markdown table of DESIGN.md section 8.2 from seeded/*/meta.json (after tools/seed_regress.py)."""
import json, os
S = os.path.join(os.path.dirname(os.path.dirname(os.path.abspath(__file__))), "seeded")
print("| id | property | change (files) | needs | checks run -> outcome (oracle) | machinery change it led to |")
print("|---|---|---|---|---|---|")
for i in sorted(os.listdir(S)):
    p = os.path.join(S, i, "meta.json")
    if not os.path.exists(p):
        continue
    m = json.load(open(p))
    lr = m.get("last_run", {})
    outs = []
    for c, r in (lr.get("checks") or {}).items():
        o = ", ".join(list(r.get("oracles", {}))[:2])
        outs.append("%s: %s%s" % (c, "caught (%d/16 workers; %s)" % (r.get("workers_reporting", 0), o) if r.get("caught") else "missed", ""))
    if not lr.get("patch_applied", True):
        outs = ["patch does not apply to the current tree"]
    need = (m.get("needs_to_manifest") or "").replace("\n", " ")
    if len(need) > 230:
        need = need[:227] + "..."
    title = (m.get("title") or "").replace("|", "/")
    if len(title) > 200:
        title = title[:197] + "..."
    st = (m.get("strengthening") or "").replace("|", "/")
    print("| %s | %s | %s (%s) | %s | %s | %s |" % (i, m.get("property"), title, ", ".join(m.get("files_changed") or []), need.replace("|", "/"), "; ".join(outs) or "not run yet", st))
