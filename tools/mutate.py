#!/usr/bin/env python3
"""Sensitivity harness (development aid, not a registered check): applies each deliberate
breaking edit from a JSON list to a scratch copy of /repo and runs the named checks against it.
usage: tools/mutate.py tools/mutations/<file>.json [name-filter]
Each entry: {"name":..., "file":..., "old":..., "new":..., "checks":["C03",...], "env":{...}}"""
import json, os, subprocess, sys, shutil, time
V = os.path.dirname(os.path.dirname(os.path.abspath(__file__)))
lst = json.load(open(sys.argv[1]))
flt = sys.argv[2] if len(sys.argv) > 2 else ""
scratch = "/tmp/mut-%d" % os.getpid()
results = []
for m in lst:
    if flt and flt not in m["name"]:
        continue
    shutil.rmtree(scratch, ignore_errors=True)
    subprocess.run(["rsync", "-a", "--exclude", ".git", "/repo/", scratch + "/"], check=True)
    p = os.path.join(scratch, m["file"])
    s = open(p).read()
    if m["old"] not in s:
        print("SKIP %s: anchor not found" % m["name"]); results.append((m["name"], "anchor-missing")); continue
    open(p, "w").write(s.replace(m["old"], m["new"], 1))
    b = subprocess.run("cd %s && GOFLAGS=-mod=mod go build ./%s/..." % (scratch, os.path.dirname(m["file"])), shell=True, capture_output=True, text=True)
    if b.returncode != 0:
        print("SKIP %s: does not compile\n%s" % (m["name"], b.stderr[-500:])); results.append((m["name"], "no-compile")); continue
    for chk in m["checks"]:
        env = dict(os.environ); env["VERIF_REPO"] = scratch; env.update(m.get("env", {}))
        t0 = time.time()
        r = subprocess.run([os.path.join(V, "check"), chk, "--tier", "quick", "--no-evidence"], env=env, capture_output=True, text=True)
        viol = [l for l in r.stdout.splitlines() if l.startswith("VIOLATION")]
        sigs = sorted(set(l.strip() for l in r.stderr.splitlines() if "oracle=" in l))
        verdict = "CAUGHT" if r.returncode == 1 and viol else ("INFRA" if r.returncode == 2 else "MISSED")
        print("%s %-45s %s  (%ds) %s" % (verdict, m["name"], chk, time.time() - t0, "; ".join(s[:140] for s in sigs[:2])), flush=True)
        results.append((m["name"], chk, verdict))
shutil.rmtree(scratch, ignore_errors=True)
shutil.rmtree(os.path.join(V, ".build", "alt-" + __import__("hashlib").sha1(scratch.encode()).hexdigest()[:10]), ignore_errors=True)
