#!/bin/bash
# run_indices.sh <prop> <seed> <first> <last> <outdir>: runs each run index of the netsim engine on its own,
# verbosely (the binary has to be built already: ./check <prop> builds it), one log per index under <outdir>.
# A debugging aid: to look at the trace of the runs in which a given director plan or fault fired.
prop=$1; seed=$2; first=$3; last=$4; out=$5
mkdir -p "$out"
one() {
	i=$1; d="$out/w$i"; mkdir -p "$d"; cd "$d" || exit 2
	VERIF_PROP=$prop VERIF_TIER=quick VERIF_SEED=$seed VERIF_WORKER=$i VERIF_WORKERS=100000 VERIF_RUNS=$((i+1)) \
	VERIF_VERBOSE=1 VERIF_SHRINK_S=0 VERIF_OUT=out.json VERIF_SCRATCH=$d VERIF_KNOWN=/verif/known_findings.json TMPDIR=$d \
	/verif/.build/netsim.test -test.run '^TestSim$' -test.timeout 300s > log.txt 2>&1
}
export -f one; export prop seed out
seq "$first" "$last" | xargs -P 16 -I{} bash -c 'one {}'
