#!/bin/bash
# Runs the quick tier of every claimed check for each batch seed given (default: 1). One line per check and seed.
cd "$(dirname "$0")/.."
SEEDS=${@:-1}
for sd in $SEEDS; do
for p in C01 C02 C03 C04 C05 C06 C07 C08 C09 C11 C12 C13 C14 C15 C17 C18 C19 C20; do
  ./check $p --tier quick --seed $sd ${NOEV:+--no-evidence} > /tmp/quick-$p-$sd.out 2>&1
  echo "$p seed=$sd exit=$? $(grep -E "^$p quick:" /tmp/quick-$p-$sd.out | cut -c1-110) $(grep -cE '^VIOLATION' /tmp/quick-$p-$sd.out) violations $(grep -cE '^INFRA' /tmp/quick-$p-$sd.out) infra"
  grep -E "^VIOLATION|^INFRA|^NOTE|oracle=" /tmp/quick-$p-$sd.out | cut -c1-300 | sort | uniq -c | head -6
done
done
