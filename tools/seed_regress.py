#!/usr/bin/env python3
"""Run the registered checks against every independently seeded breaking change.

For each /verif/seeded/<id>/ (patch.diff + meta.json) a scratch copy of /repo's current working
tree is made outside /repo and /verif, the patch is applied there, the checks named in
meta.json["checks"] are run with VERIF_REPO pointing at the copy, and the outcome is written back
to meta.json["last_run"].  /repo is never touched.  Usage: tools/seed_regress.py [id ...]
"""
import json, os, subprocess, sys, shutil, re, time

VERIF = os.path.dirname(os.path.dirname(os.path.abspath(__file__)))
SEEDED = os.path.join(VERIF, "seeded")
ids = sys.argv[1:] or sorted(d for d in os.listdir(SEEDED) if os.path.isdir(os.path.join(SEEDED, d)))
env = dict(os.environ, GOFLAGS="-mod=mod", GOPROXY="off", GOSUMDB="off", GOTOOLCHAIN="local")
head = subprocess.run(["git", "-C", "/repo", "rev-parse", "--short", "HEAD"], capture_output=True, text=True).stdout.strip()
for i in ids:
    d = os.path.join(SEEDED, i)
    meta = json.load(open(os.path.join(d, "meta.json")))
    scratch = "/tmp/seedrun-%s" % i
    shutil.rmtree(scratch, ignore_errors=True)
    subprocess.run(["rsync", "-a", "--exclude", ".git", "/repo/", scratch + "/"], check=True)
    r = subprocess.run(["patch", "-p1", "--no-backup-if-mismatch", "-i", os.path.join(d, "patch.diff")], cwd=scratch, capture_output=True, text=True)
    res = {"repo_head": head, "date": time.strftime("%Y-%m-%d %H:%M UTC", time.gmtime()), "patch_applied": r.returncode == 0, "checks": {}}
    if r.returncode != 0:
        res["patch_output"] = r.stdout[-500:]
    else:
        e = dict(env, VERIF_REPO=scratch)
        for c in meta.get("checks", [meta["property"]]):
            t0 = time.time()
            p = subprocess.run([os.path.join(VERIF, "check"), c, "--tier", "quick", "--no-evidence"], cwd=VERIF, env=e, capture_output=True, text=True)
            out = p.stdout + p.stderr
            oracles = {}
            for m in re.finditer(r"oracle=(\S+) signature=(.*)", out):
                oracles.setdefault(m.group(1), m.group(2)[:200])
            nviol = len(set(re.findall(r"VIOLATION property=%s replay=\S+" % c, out)))
            res["checks"][c] = {"exit": p.returncode, "caught": p.returncode == 1 and nviol > 0, "workers_reporting": nviol,
                                "oracles": oracles, "infra": re.findall(r"INFRA: (.{0,160})", out)[:2], "wall_s": round(time.time() - t0)}
            print(i, c, "exit", p.returncode, "caught" if res["checks"][c]["caught"] else "MISSED", list(oracles)[:3], flush=True)
    meta["last_run"] = res
    json.dump(meta, open(os.path.join(d, "meta.json"), "w"), indent=1)
    shutil.rmtree(scratch, ignore_errors=True)
    alt = os.path.join(VERIF, ".build", "alt-" + __import__("hashlib").sha1(scratch.encode()).hexdigest()[:10])
    shutil.rmtree(alt, ignore_errors=True)
