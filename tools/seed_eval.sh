#!/bin/bash
# usage: [WT=<worktree>] tools/seed_eval.sh <ID> <go test package path(s) of the demo, quoted> <check> [<check>...]
# Verifies a seeded change delivered in /tmp/wt-<ID> (demo fails with it, passes without it),
# stores it under /verif/seeded/<ID>/ and runs the named checks against the changed tree.
ID=$1; PKG=$2; shift 2
WT=${WT:-/tmp/wt-$ID}
export GOFLAGS=-mod=mod GOPROXY=off GOSUMDB=off
cd $WT || exit 2
mkdir -p /verif/seeded/$ID
cp seed/patch.diff /verif/seeded/$ID/patch.diff
rm -rf /verif/seeded/$ID/demo; cp -r seed/demo /verif/seeded/$ID/demo
cp seed/meta.json /verif/seeded/$ID/meta.agent.json
# only the product change in the tree?
echo "--- worktree status"; git status --short | grep -v "^??" 
git diff > /tmp/seed-$ID-current.diff
if ! diff -q <(grep '^[+-]' /tmp/seed-$ID-current.diff) <(grep '^[+-]' seed/patch.diff) >/dev/null; then echo "WARNING: working tree diff differs from seed/patch.diff"; fi
echo "--- demo WITH change"; go test -vet=off -count=1 -timeout 300s -run 'Seed' $PKG 2>&1 | grep -E "^(--- |ok|FAIL|panic)" | head -8; WITH=${PIPESTATUS[0]}
git apply -R seed/patch.diff
echo "--- demo WITHOUT change"; go test -vet=off -count=1 -timeout 300s -run 'Seed' $PKG 2>&1 | grep -E "^(--- |ok|FAIL|panic)" | head -8
git apply seed/patch.diff
echo "--- existing tests of touched package(s) with change"
for d in $(git diff --name-only | xargs -n1 dirname | sort -u); do go test -vet=off -count=1 -timeout 600s ./$d/ 2>&1 | grep -E "^(ok|FAIL|---)" | head -5; done
cd /verif
for c in "$@"; do
  echo "=== check $c against seeded $ID"
  VERIF_REPO=$WT ./check $c --tier quick --no-evidence 2>&1 | grep -v "^built" | grep -E "VIOLATION|oracle=|INFRA|quick:|KNOWN" | sed 's/^ *//' | sort | uniq -c | sort -rn | head -6 | cut -c1-330
done
