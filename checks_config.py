"""Property -> stages, assembled from sim/engines/*/stage.json (one file per engine)."""
import json, os, glob

_here = os.path.dirname(os.path.abspath(__file__))
ENGINE_PKGS = {}
ENGINE_CFG = {}
CHECKS = {}

for _p in sorted(glob.glob(os.path.join(_here, "sim", "engines", "*", "stage.json"))):
    _c = json.load(open(_p))
    ENGINE_PKGS[_c["engine"]] = _c["pkg"]
    ENGINE_CFG[_c["engine"]] = _c
    for _prop, _pc in _c.get("properties", {}).items():
        if _prop not in CHECKS:
            CHECKS[_prop] = {"level": _pc.get("level", "exploration"), "rule": "", "real": [], "stubbed": [],
                             "assumptions": [], "stages": []}
        _d = CHECKS[_prop]
        # the strongest level named by any contributing engine wins only if all agree; else exploration
        if _d["stages"] and _d["level"] != _pc.get("level", "exploration"):
            _d["level"] = "exploration"
        _d["rule"] = (_d["rule"] + " || " if _d["rule"] else "") + _pc.get("rule", "")
        for _k in ("real", "stubbed", "assumptions"):
            for _x in _pc.get(_k, []):
                if _x not in _d[_k]:
                    _d[_k].append(_x)
        _d["stages"] += _pc.get("stages", [])
for _d in CHECKS.values():
    _d["stages"].sort(key=lambda s: s.get("order", 50))
