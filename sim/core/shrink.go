package core

import "time"

// Shrink minimises a failing tape. fails re-runs a candidate and says whether
// the *same oracle* still fails. Passes: truncate suffix, delete blocks, zero
// blocks (0 = FIFO / no fault / simplest strategy), lower single values.
func Shrink(tape []uint32, res *RunResult, fails func([]uint32) (*RunResult, bool), budget time.Duration) ([]uint32, *RunResult) {
	deadline := time.Now().Add(budget)
	best := append([]uint32(nil), tape...)
	bestRes := res
	try := func(c []uint32) bool {
		if time.Now().After(deadline) {
			return false
		}
		if r, ok := fails(c); ok {
			best = append([]uint32(nil), c...)
			bestRes = r
			return true
		}
		return false
	}
	// drop trailing zeros: exhausted tape already yields zeros
	trim := func() {
		n := len(best)
		for n > 0 && best[n-1] == 0 {
			n--
		}
		best = best[:n]
	}
	trim()
	improved := true
	for improved && time.Now().Before(deadline) {
		improved = false
		// 1. truncate suffix (binary search style)
		for cut := len(best) / 2; cut >= 1; cut /= 2 {
			for len(best) > cut && try(best[:len(best)-cut]) {
				improved = true
				trim()
			}
		}
		// 2. delete blocks
		for bs := len(best) / 2; bs >= 1; bs /= 2 {
			for i := 0; i+bs <= len(best); {
				c := append(append([]uint32(nil), best[:i]...), best[i+bs:]...)
				if try(c) {
					improved = true
				} else {
					i += bs
				}
				if time.Now().After(deadline) {
					break
				}
			}
			if bs > 64 && time.Now().After(deadline) {
				break
			}
		}
		trim()
		// 3. zero blocks
		for bs := len(best) / 2; bs >= 1; bs /= 2 {
			for i := 0; i+bs <= len(best); i += bs {
				allZero := true
				for _, v := range best[i : i+bs] {
					if v != 0 {
						allZero = false
						break
					}
				}
				if allZero {
					continue
				}
				c := append([]uint32(nil), best...)
				for j := i; j < i+bs; j++ {
					c[j] = 0
				}
				if try(c) {
					improved = true
				}
				if time.Now().After(deadline) {
					break
				}
			}
		}
		trim()
		// 4. lower single values
		for i := 0; i < len(best) && time.Now().Before(deadline); i++ {
			for best[i] > 0 {
				c := append([]uint32(nil), best...)
				c[i] = best[i] / 2
				if !try(c) {
					c[i] = best[i] - 1
					if !try(c) {
						break
					}
				}
				improved = true
			}
		}
		trim()
	}
	return best, bestRes
}
