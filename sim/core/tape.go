// Package core holds the simulator pieces shared by every engine: the choice
// tape (the single source of every random decision), the shrinker, the result
// and evidence types and the worker main loop.
package core

import (
	"encoding/binary"
	"hash/fnv"
)

// SplitMix64 is the only PRNG in the harness. One VERIF_SEED and a run index
// give one tape seed, which gives one execution.
func SplitMix64(x uint64) uint64 {
	x += 0x9E3779B97F4A7C15
	z := x
	z = (z ^ (z >> 30)) * 0xBF58476D1CE4E5B9
	z = (z ^ (z >> 27)) * 0x94D049BB133111EB
	return z ^ (z >> 31)
}

// RunSeed derives the tape seed of run i of a batch started with seed.
func RunSeed(seed uint64, i uint64) uint64 {
	return SplitMix64(SplitMix64(seed) ^ (i * 0xD1342543DE82EF95))
}

// Tape is the choice tape. In generate mode every Draw takes the next PRNG
// value and records it; in replay mode Draw returns the recorded values and,
// once they are exhausted, 0 ("the simplest choice": FIFO, no fault).
// All values are stored already reduced modulo their bound, so lowering a
// stored value is always meaningful for the shrinker.
type Tape struct {
	state    uint64
	replay   []uint32
	replayed bool
	pos      int
	rec      []uint32
	// Limit caps the number of draws (0 = none); beyond it Draw returns 0.
	Limit int
}

// NewTape returns a generating tape.
func NewTape(seed uint64) *Tape { return &Tape{state: seed} }

// ReplayTape returns a tape that replays vals.
func ReplayTape(vals []uint32) *Tape {
	return &Tape{replay: vals, replayed: true}
}

func (t *Tape) next() uint64 {
	t.state += 0x9E3779B97F4A7C15
	z := t.state
	z = (z ^ (z >> 30)) * 0xBF58476D1CE4E5B9
	z = (z ^ (z >> 27)) * 0x94D049BB133111EB
	return z ^ (z >> 31)
}

// Draw returns a value in [0,n). n<=1 returns 0 without consuming the tape.
func (t *Tape) Draw(n int) int {
	if n <= 1 {
		return 0
	}
	var v uint32
	if t.replayed {
		if t.pos < len(t.replay) {
			v = t.replay[t.pos] % uint32(n)
		}
		t.pos++
	} else {
		if t.Limit > 0 && len(t.rec) >= t.Limit {
			v = 0
		} else {
			v = uint32(t.next() % uint64(n))
		}
	}
	t.rec = append(t.rec, v)
	return int(v)
}

// Chance is true with probability num/den; the value 0 (simplest) is false.
func (t *Tape) Chance(num, den int) bool {
	if num <= 0 {
		return false
	}
	return t.Draw(den) >= den-num
}

// Range returns a value in [lo,hi].
func (t *Tape) Range(lo, hi int) int {
	if hi <= lo {
		return lo
	}
	return lo + t.Draw(hi-lo+1)
}

// Weighted picks an index with the given integer weights; index 0 is the
// simplest choice.
func (t *Tape) Weighted(w ...int) int {
	tot := 0
	for _, x := range w {
		tot += x
	}
	if tot <= 0 {
		return 0
	}
	v := t.Draw(tot)
	for i, x := range w {
		if v < x {
			return i
		}
		v -= x
	}
	return len(w) - 1
}

// Bytes returns n tape-chosen bytes.
func (t *Tape) Bytes(n int) []byte {
	b := make([]byte, n)
	for i := range b {
		b[i] = byte(t.Draw(256))
	}
	return b
}

// Uint64 returns 64 tape-chosen bits (four draws).
func (t *Tape) Uint64() uint64 {
	var x uint64
	for i := 0; i < 4; i++ {
		x = x<<16 | uint64(t.Draw(1<<16))
	}
	return x
}

// Perm returns a permutation of [0,n); all-zero draws give the identity.
func (t *Tape) Perm(n int) []int {
	p := make([]int, n)
	for i := range p {
		p[i] = i
	}
	for i := 0; i < n-1; i++ {
		j := i + t.Draw(n-i)
		p[i], p[j] = p[j], p[i]
	}
	return p
}

// Record returns the values drawn so far.
func (t *Tape) Record() []uint32 { return append([]uint32(nil), t.rec...) }

// Used is the number of draws made.
func (t *Tape) Used() int { return len(t.rec) }

// Hasher accumulates a trace hash. It never draws from the tape and never
// reads a clock.
type Hasher struct{ h uint64 }

func NewHasher() *Hasher { return &Hasher{h: 0xcbf29ce484222325} }

func (h *Hasher) Add(parts ...string) {
	f := fnv.New64a()
	var b [8]byte
	binary.LittleEndian.PutUint64(b[:], h.h)
	f.Write(b[:])
	for _, p := range parts {
		f.Write([]byte(p))
		f.Write([]byte{0})
	}
	h.h = f.Sum64()
}

func (h *Hasher) AddBytes(b []byte) {
	f := fnv.New64a()
	var x [8]byte
	binary.LittleEndian.PutUint64(x[:], h.h)
	f.Write(x[:])
	f.Write(b)
	h.h = f.Sum64()
}

func (h *Hasher) Sum() uint64 { return h.h }
