package core

import (
	"encoding/json"
	"fmt"
	"os"
	"path/filepath"
	"runtime/debug"
	"sort"
	"strconv"
	"strings"
	"testing"
	"time"
)

// Violation is one oracle failure. Signature is a structural description of
// the failing situation (never a seed); it is what known_findings.json keys on.
type Violation struct {
	Property  string `json:"property"`
	Oracle    string `json:"oracle"`
	Signature string `json:"signature"`
	Detail    string `json:"detail,omitempty"`
}

func (v Violation) Key() string { return v.Property + "|" + v.Oracle }

// RunResult is what one simulated run reports.
type RunResult struct {
	Violations   []Violation
	TraceHash    uint64         // determinism witness: hash of the full event log
	AbstractHash uint64         // hash of the abstract schedule (payloads erased)
	NonTrivial   bool           // by the engine's stated rule
	Faults       map[string]int // fault kind -> times it actually fired
	Probes       map[string]int // named rare conditions reached
	SimTimeS     float64
	Steps        int
	Sample       interface{} // JSON-able description of the case
	Inconclusive bool        // capped by step/time limits
	TraceTail    []string
	Infra        string // harness trouble (not a verdict)
}

func NewResult() *RunResult {
	return &RunResult{Faults: map[string]int{}, Probes: map[string]int{}}
}

func (r *RunResult) Violate(prop, oracle, sig, detail string) {
	r.Violations = append(r.Violations, Violation{prop, oracle, sig, detail})
}

func (r *RunResult) Fault(kind string)  { r.Faults[kind]++ }
func (r *RunResult) Probe(name string)  { r.Probes[name]++ }
func (r *RunResult) Failed() bool       { return len(r.Violations) > 0 }
func (r *RunResult) Tracef(f string, a ...interface{}) {
	r.TraceTail = append(r.TraceTail, fmt.Sprintf(f, a...))
	if len(r.TraceTail) > 400 {
		r.TraceTail = r.TraceTail[len(r.TraceTail)-300:]
	}
}

// Options are handed to the engine for every run.
type Options struct {
	Property string // property the check is deciding (drives swarm weights / mode)
	Tier     string // quick | thorough
	Mode     string // engine sub-mode (free text from the driver)
	Scratch  string // per-worker scratch directory (removed by the driver)
	RunIndex uint64
	Replay   bool
	Verbose  bool
	Params   map[string]string
	// IsKnown tells an engine whether a violation is listed in known_findings.json, so that
	// it can record it and keep exploring past it (the worker still counts it as known).
	IsKnown func(v Violation) bool
}

func (o Options) Int(name string, def int) int {
	if s, ok := o.Params[name]; ok {
		if v, err := strconv.Atoi(s); err == nil {
			return v
		}
	}
	return def
}

// Engine is one simulation engine.
type Engine interface {
	Name() string
	Run(t *testing.T, tape *Tape, opt Options) *RunResult
}

// ReplayFile is the on-disk form of a failing (minimised) execution.
type ReplayFile struct {
	Property  string            `json:"property"`
	Engine    string            `json:"engine"`
	Oracle    string            `json:"oracle"`
	Signature string            `json:"signature"`
	Detail    string            `json:"detail"`
	Seed      uint64            `json:"seed"`
	RunIndex  uint64            `json:"run_index"`
	Tier      string            `json:"tier"`
	Mode      string            `json:"mode"`
	Params    map[string]string `json:"params,omitempty"`
	Tape      []uint32          `json:"tape"`
	TapeOrig  int               `json:"tape_len_before_shrink"`
	TraceHash string            `json:"trace_hash"`
	TraceTail []string          `json:"trace_tail"`
	Sample    interface{}       `json:"sample,omitempty"`
	Tree      string            `json:"tree,omitempty"`
}

type KnownFinding struct {
	Property  string `json:"property"`
	Oracle    string `json:"oracle,omitempty"`
	Signature string `json:"signature"`
	Status    string `json:"status"` // known | fixed
	What      string `json:"what"`
	Commit    string `json:"commit,omitempty"`
}

type knownFile struct {
	Findings []KnownFinding `json:"findings"`
}

func loadKnown(path string) []KnownFinding {
	if path == "" {
		return nil
	}
	b, err := os.ReadFile(path)
	if err != nil {
		return nil
	}
	var kf knownFile
	if json.Unmarshal(b, &kf) != nil {
		return nil
	}
	var out []KnownFinding
	for _, k := range kf.Findings {
		if k.Status == "known" {
			out = append(out, k)
		}
	}
	return out
}

func isKnown(known []KnownFinding, v Violation) bool {
	for _, k := range known {
		if k.Property == v.Property && k.Signature == v.Signature {
			return true
		}
	}
	return false
}

// WorkerOutput is the JSON a worker process leaves for the driver.
type WorkerOutput struct {
	Property     string                 `json:"property"`
	Engine       string                 `json:"engine"`
	Worker       int                    `json:"worker"`
	Evaluations  int                    `json:"evaluations"`
	NonTrivial   []string               `json:"nontrivial_hashes"`
	TraceHashes  map[string]string      `json:"trace_hashes,omitempty"`
	Faults       map[string]int         `json:"faults"`
	Probes       map[string]int         `json:"probes"`
	SimTimeS     float64                `json:"sim_time_s"`
	Steps        int                    `json:"steps"`
	Samples      []interface{}          `json:"samples"`
	Violations   []map[string]string    `json:"violations"`
	Notes        []map[string]string    `json:"notes"`
	Known        map[string]int         `json:"known"`
	Inconclusive int                    `json:"inconclusive"`
	Infra        []string               `json:"infra"`
	WallS        float64                `json:"wall_s"`
	Extra        map[string]interface{} `json:"extra,omitempty"`
}

func envInt(name string, def int) int {
	if s := os.Getenv(name); s != "" {
		if v, err := strconv.Atoi(s); err == nil {
			return v
		}
	}
	return def
}

func envU64(name string, def uint64) uint64 {
	if s := os.Getenv(name); s != "" {
		if v, err := strconv.ParseUint(s, 10, 64); err == nil {
			return v
		}
		if v, err := strconv.ParseInt(s, 10, 64); err == nil {
			return uint64(v)
		}
	}
	return def
}

func parseParams(s string) map[string]string {
	m := map[string]string{}
	for _, kv := range strings.Split(s, ",") {
		if i := strings.IndexByte(kv, '='); i > 0 {
			m[kv[:i]] = kv[i+1:]
		}
	}
	return m
}

// safeRun runs the engine once and converts an escaped panic into Infra.
func safeRun(t *testing.T, e Engine, tape *Tape, opt Options) (res *RunResult) {
	defer func() {
		if r := recover(); r != nil {
			res = NewResult()
			res.Infra = fmt.Sprintf("harness panic: %v\n%s", r, debug.Stack())
		}
	}()
	res = e.Run(t, tape, opt)
	if res == nil {
		res = NewResult()
		res.Infra = "engine returned nil result"
	}
	return res
}

func firstMatching(res *RunResult, key string) *Violation {
	for i := range res.Violations {
		if res.Violations[i].Key() == key {
			return &res.Violations[i]
		}
	}
	return nil
}

// firstUnknown is firstMatching that skips violations listed as known findings (an engine
// that enumerates may record known findings before the one that matters).
func firstUnknown(res *RunResult, key string, known []KnownFinding) *Violation {
	for i := range res.Violations {
		if res.Violations[i].Key() == key && !isKnown(known, res.Violations[i]) {
			return &res.Violations[i]
		}
	}
	return nil
}

// Main is the body of every engine's TestSim. It is driven entirely by
// environment variables set by /verif/check.
func Main(t *testing.T, e Engine) {
	prop := os.Getenv("VERIF_PROP")
	if prop == "" {
		t.Skip("VERIF_PROP not set (run through /verif/check)")
	}
	opt := Options{
		Property: prop,
		Tier:     os.Getenv("VERIF_TIER"),
		Mode:     os.Getenv("VERIF_MODE"),
		Scratch:  os.Getenv("VERIF_SCRATCH"),
		Verbose:  os.Getenv("VERIF_VERBOSE") != "",
		Params:   parseParams(os.Getenv("VERIF_PARAMS")),
	}
	if opt.Tier == "" {
		opt.Tier = "quick"
	}
	if opt.Scratch == "" {
		d, err := os.MkdirTemp("/dev/shm", "verif-")
		if err != nil {
			d, _ = os.MkdirTemp("", "verif-")
		}
		opt.Scratch = d
		defer os.RemoveAll(d)
	}
	if rp := os.Getenv("VERIF_REPLAY"); rp != "" {
		replayMain(t, e, opt, rp)
		return
	}
	seed := envU64("VERIF_SEED", 1)
	worker := envInt("VERIF_WORKER", 0)
	workers := envInt("VERIF_WORKERS", 1)
	runs := envInt("VERIF_RUNS", 0)
	budget := time.Duration(envInt("VERIF_BUDGET_S", 0)) * time.Second
	replayDir := os.Getenv("VERIF_REPLAY_DIR")
	if replayDir == "" {
		replayDir = "/verif/replays"
	}
	known := loadKnown(os.Getenv("VERIF_KNOWN"))
	opt.IsKnown = func(v Violation) bool { return isKnown(known, v) }
	wantHashes := os.Getenv("VERIF_TRACE_HASHES") != ""
	shrinkBudget := time.Duration(envInt("VERIF_SHRINK_S", 60)) * time.Second

	out := &WorkerOutput{Property: prop, Engine: e.Name(), Worker: worker,
		Faults: map[string]int{}, Probes: map[string]int{}, Known: map[string]int{},
		TraceHashes: map[string]string{}}
	nt := map[string]bool{}
	start := time.Now()
	notesSeen := map[string]bool{}

	for i := uint64(worker); ; i += uint64(workers) {
		if runs > 0 && i >= uint64(runs) {
			break
		}
		if budget > 0 && time.Since(start) > budget {
			break
		}
		if runs == 0 && budget == 0 {
			break
		}
		opt.RunIndex = i
		rs := RunSeed(seed, i)
		tape := NewTape(rs)
		res := safeRun(t, e, tape, opt)
		out.Evaluations++
		if res.Infra != "" {
			out.Infra = append(out.Infra, fmt.Sprintf("run %d: %s", i, res.Infra))
			if len(out.Infra) >= 3 {
				break
			}
			continue
		}
		for k, v := range res.Faults {
			out.Faults[k] += v
		}
		for k, v := range res.Probes {
			out.Probes[k] += v
		}
		out.SimTimeS += res.SimTimeS
		out.Steps += res.Steps
		if res.Inconclusive {
			out.Inconclusive++
		}
		if res.NonTrivial {
			nt[fmt.Sprintf("%016x", res.AbstractHash)] = true
		}
		if wantHashes {
			out.TraceHashes[strconv.FormatUint(i, 10)] = fmt.Sprintf("%016x", res.TraceHash)
		}
		if len(out.Samples) < 2 && res.Sample != nil && (res.NonTrivial || i < uint64(workers)) {
			out.Samples = append(out.Samples, res.Sample)
		}
		if !res.Failed() {
			continue
		}
		// classify violations
		var own *Violation
		for j := range res.Violations {
			v := res.Violations[j]
			if isKnown(known, v) {
				out.Known[v.Property+" "+v.Signature]++
				continue
			}
			if v.Property == prop {
				if own == nil {
					own = &res.Violations[j]
				}
				continue
			}
			// another property's oracle tripped: note it, do not count it
			if !notesSeen[v.Key()] && len(out.Notes) < 5 {
				notesSeen[v.Key()] = true
				path := writeReplay(replayDir, e, opt, seed, i, tape.Record(), len(tape.Record()), res, v)
				out.Notes = append(out.Notes, map[string]string{"property": v.Property, "oracle": v.Oracle,
					"signature": v.Signature, "detail": v.Detail, "replay": path})
			}
		}
		if own == nil {
			continue
		}
		// shrink, then write the replay file
		orig := tape.Record()
		key := own.Key()
		fails := func(c []uint32) (*RunResult, bool) {
			r := safeRun(t, e, ReplayTape(c), withReplay(opt))
			if r.Infra != "" {
				return r, false
			}
			v := firstUnknown(r, key, known)
			return r, v != nil
		}
		best, bestRes := orig, res
		// the recorded tape must itself reproduce; otherwise report as infra
		if r, ok := fails(orig); !ok {
			out.Infra = append(out.Infra, fmt.Sprintf("run %d: violation %s did not reproduce from its own tape (nondeterminism); first: %s / replayed: %v",
				i, key, own.Detail, r.Violations))
			continue
		} else {
			bestRes = r
		}
		if shrinkBudget > 0 {
			best, bestRes = Shrink(orig, bestRes, fails, shrinkBudget)
		}
		v := firstUnknown(bestRes, key, known)
		path := writeReplay(replayDir, e, opt, seed, i, best, len(orig), bestRes, *v)
		out.Violations = append(out.Violations, map[string]string{"property": v.Property, "oracle": v.Oracle,
			"signature": v.Signature, "detail": v.Detail, "replay": path,
			"seed": strconv.FormatUint(seed, 10), "run": strconv.FormatUint(i, 10)})
		break // one violation per worker is enough
	}
	for h := range nt {
		out.NonTrivial = append(out.NonTrivial, h)
	}
	sort.Strings(out.NonTrivial)
	out.WallS = time.Since(start).Seconds()
	if !wantHashes {
		out.TraceHashes = nil
	}
	b, _ := json.Marshal(out)
	if p := os.Getenv("VERIF_OUT"); p != "" {
		if err := os.WriteFile(p, b, 0o644); err != nil {
			t.Fatalf("cannot write %s: %v", p, err)
		}
	} else {
		fmt.Println(string(b))
	}
}

func withReplay(o Options) Options { o.Replay = true; return o }

func writeReplay(dir string, e Engine, opt Options, seed, run uint64, tape []uint32, origLen int, res *RunResult, v Violation) string {
	os.MkdirAll(dir, 0o755)
	rf := ReplayFile{Property: v.Property, Engine: e.Name(), Oracle: v.Oracle, Signature: v.Signature,
		Detail: v.Detail, Seed: seed, RunIndex: run, Tier: opt.Tier, Mode: opt.Mode, Params: opt.Params,
		Tape: tape, TapeOrig: origLen, TraceHash: fmt.Sprintf("%016x", res.TraceHash),
		TraceTail: res.TraceTail, Sample: res.Sample, Tree: os.Getenv("VERIF_TREE")}
	name := fmt.Sprintf("%s-%s-%d-%d-%s.json", v.Property, e.Name(), seed, run, sanitize(v.Oracle))
	path := filepath.Join(dir, name)
	b, _ := json.MarshalIndent(rf, "", " ")
	os.WriteFile(path, b, 0o644)
	return path
}

func sanitize(s string) string {
	var b strings.Builder
	for _, c := range s {
		if c >= 'a' && c <= 'z' || c >= 'A' && c <= 'Z' || c >= '0' && c <= '9' || c == '-' || c == '_' {
			b.WriteRune(c)
		} else {
			b.WriteByte('_')
		}
	}
	return b.String()
}

// replayMain re-executes a replay file. Exit protocol (through the test
// result and stdout): prints "REPLAY-OK violation reproduced ..." and the
// VIOLATION line when the same oracle fails again with the same trace hash;
// prints "REPLAY-MISMATCH" otherwise.
func replayMain(t *testing.T, e Engine, opt Options, path string) {
	b, err := os.ReadFile(path)
	if err != nil {
		t.Fatalf("REPLAY-ERROR cannot read %s: %v", path, err)
	}
	var rf ReplayFile
	if err := json.Unmarshal(b, &rf); err != nil {
		t.Fatalf("REPLAY-ERROR cannot parse %s: %v", path, err)
	}
	knownR := loadKnown(os.Getenv("VERIF_KNOWN"))
	opt.IsKnown = func(v Violation) bool { return isKnown(knownR, v) }
	opt.Replay = true
	opt.Tier = rf.Tier
	opt.Mode = rf.Mode
	opt.Params = rf.Params
	opt.RunIndex = rf.RunIndex
	opt.Property = os.Getenv("VERIF_PROP")
	res := safeRun(t, e, ReplayTape(rf.Tape), opt)
	if res.Infra != "" {
		fmt.Printf("REPLAY-ERROR %s\n", res.Infra)
		return
	}
	if opt.Verbose {
		for _, l := range res.TraceTail {
			fmt.Println("  trace:", l)
		}
	}
	v := firstUnknown(res, rf.Property+"|"+rf.Oracle, knownR)
	if v == nil {
		v = firstMatching(res, rf.Property+"|"+rf.Oracle)
	}
	if v == nil {
		fmt.Printf("REPLAY-MISMATCH property=%s oracle=%s not reproduced (violations now: %v)\n", rf.Property, rf.Oracle, res.Violations)
		return
	}
	same := fmt.Sprintf("%016x", res.TraceHash) == rf.TraceHash
	fmt.Printf("REPLAY-OK property=%s oracle=%s signature=%q trace_hash_same=%v\n  detail: %s\n", v.Property, v.Oracle, v.Signature, same, v.Detail)
	fmt.Printf("VIOLATION property=%s replay=%s\n", v.Property, path)
}
