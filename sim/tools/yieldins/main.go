// yieldins inserts scheduler yield points into build-time copies of product files.
//
//	yieldins -repo <dir> -spec <yield_sites.json> -out <dir>
//
// It parses the *current* product file named by the spec, finds the anchors by
// function name and statement pattern (never by line number), and writes
// <out>/<file> (instrumented copy, mirrors the repo layout so that the driver maps
// it over the original in the -overlay) and <out>/<package>/zz_verif_yieldsites.go
// (registers the names of the inserted sites in VerifYieldSites). The inserted
// statement is `verifYield("<site>")`; the engine's shim in the same package defines
// verifYield, VerifYield and VerifYieldSites. Insertions are made in the source
// text on the line of the anchor, so line numbers of the product code do not move.
//
// Anchor kinds (one per entry of "sites"):
//
//	{"name": N, "func": F, "before_call": "x.y.Lock"}   before every statement `x.y.Lock()` in func F
//	{"name": N, "func": F, "after_call": "x.y.Unlock"}  after every statement `x.y.Unlock()` in func F
//	{"name": N, "func": F, "before_select": true}       before every select statement of func F
//	{"name": N, "func": F, "after_receive_cases": true} at the top of every select case of func F that
//	                                                    receives from a channel; site name N + ":" + channel expression
//
// A missing anchor is reported on stderr ("MISSING ...") and does not fail the tool.
package main

import (
	"encoding/json"
	"flag"
	"fmt"
	"go/ast"
	"go/parser"
	"go/printer"
	"go/token"
	"os"
	"path/filepath"
	"sort"
	"strings"
)

type site struct {
	Name              string `json:"name"`
	Func              string `json:"func"`
	BeforeCall        string `json:"before_call"`
	AfterReceiveCases bool   `json:"after_receive_cases"`
	AfterCall         string `json:"after_call"`
	BeforeSelect      bool   `json:"before_select"`
}

type spec struct {
	Package string `json:"package"`
	File    string `json:"file"`
	Sites   []site `json:"sites"`
}

type insertion struct {
	off  int
	text string
}

func exprString(fset *token.FileSet, e ast.Expr) string {
	var b strings.Builder
	printer.Fprint(&b, fset, e)
	return b.String()
}

// recvChan returns the channel expression if the comm statement of a select case is a receive.
func recvChan(s ast.Stmt) ast.Expr {
	var e ast.Expr
	switch x := s.(type) {
	case *ast.ExprStmt:
		e = x.X
	case *ast.AssignStmt:
		if len(x.Rhs) == 1 {
			e = x.Rhs[0]
		}
	}
	for {
		p, ok := e.(*ast.ParenExpr)
		if !ok {
			break
		}
		e = p.X
	}
	if u, ok := e.(*ast.UnaryExpr); ok && u.Op == token.ARROW {
		return u.X
	}
	return nil
}

func main() {
	repo := flag.String("repo", "/repo", "product tree")
	specPath := flag.String("spec", "", "yield_sites.json")
	out := flag.String("out", "", "output directory")
	flag.Parse()
	if *specPath == "" || *out == "" {
		fmt.Fprintln(os.Stderr, "usage: yieldins -repo <dir> -spec <yield_sites.json> -out <dir>")
		os.Exit(2)
	}
	raw, err := os.ReadFile(*specPath)
	if err != nil {
		fmt.Fprintln(os.Stderr, "yieldins:", err)
		os.Exit(1)
	}
	// a spec file holds one object or a list of objects (one per product file)
	var specs []spec
	if err := json.Unmarshal(raw, &specs); err != nil {
		var one spec
		if err2 := json.Unmarshal(raw, &one); err2 != nil {
			fmt.Fprintln(os.Stderr, "yieldins: bad spec:", err2)
			os.Exit(1)
		}
		specs = []spec{one}
	}
	for _, sp := range specs {
		if err := instrument(*repo, *out, sp); err != nil {
			fmt.Fprintf(os.Stderr, "yieldins: %s: %v (file left uninstrumented)\n", sp.File, err)
		}
	}
}

func instrument(repo, out string, sp spec) error {
	srcPath := filepath.Join(repo, sp.File)
	src, err := os.ReadFile(srcPath)
	if err != nil {
		return err
	}
	fset := token.NewFileSet()
	f, err := parser.ParseFile(fset, srcPath, src, parser.ParseComments)
	if err != nil {
		return err
	}
	funcs := map[string]*ast.FuncDecl{}
	for _, d := range f.Decls {
		if fd, ok := d.(*ast.FuncDecl); ok && fd.Body != nil {
			funcs[fd.Name.Name] = fd
		}
	}
	var ins []insertion
	var names []string
	offset := func(p token.Pos) int { return fset.Position(p).Offset }
	for _, st := range sp.Sites {
		fd := funcs[st.Func]
		if fd == nil {
			fmt.Fprintf(os.Stderr, "MISSING %s: func %s not found in %s\n", st.Name, st.Func, sp.File)
			continue
		}
		found := 0
		ast.Inspect(fd.Body, func(n ast.Node) bool {
			if _, isLit := n.(*ast.FuncLit); isLit {
				return false // closures run on other goroutines or deferred: not an anchor
			}
			switch x := n.(type) {
			case *ast.ExprStmt:
				if st.BeforeCall == "" && st.AfterCall == "" {
					return true
				}
				if c, ok := x.X.(*ast.CallExpr); ok && len(c.Args) == 0 {
					name := st.Name
					if found > 0 {
						name = fmt.Sprintf("%s#%d", st.Name, found+1)
					}
					switch fn := exprString(fset, c.Fun); {
					case st.BeforeCall != "" && fn == st.BeforeCall:
						ins = append(ins, insertion{offset(x.Pos()), fmt.Sprintf("verifYield(%q); ", name)})
					case st.AfterCall != "" && fn == st.AfterCall:
						ins = append(ins, insertion{offset(x.End()), fmt.Sprintf("; verifYield(%q)", name)})
					default:
						return true
					}
					names = append(names, name)
					found++
				}
			case *ast.SelectStmt:
				if st.BeforeSelect {
					name := st.Name
					if found > 0 {
						name = fmt.Sprintf("%s#%d", st.Name, found+1)
					}
					ins = append(ins, insertion{offset(x.Pos()), fmt.Sprintf("verifYield(%q); ", name)})
					names = append(names, name)
					found++
				}
				if !st.AfterReceiveCases {
					return true
				}
				for _, cl := range x.Body.List {
					cc := cl.(*ast.CommClause)
					if cc.Comm == nil {
						continue
					}
					ch := recvChan(cc.Comm)
					if ch == nil {
						continue
					}
					name := st.Name + ":" + exprString(fset, ch)
					text := fmt.Sprintf("verifYield(%q); ", name)
					if len(cc.Body) > 0 {
						ins = append(ins, insertion{offset(cc.Body[0].Pos()), text})
					} else {
						ins = append(ins, insertion{offset(cc.Colon) + 1, " " + strings.TrimSuffix(text, "; ")})
					}
					names = append(names, name)
					found++
				}
			}
			return true
		})
		if found == 0 {
			fmt.Fprintf(os.Stderr, "MISSING %s: no anchor matched in func %s of %s\n", st.Name, st.Func, sp.File)
		}
	}
	pkgDir := filepath.Join(out, filepath.Dir(sp.File))
	if err := os.MkdirAll(pkgDir, 0o755); err != nil {
		return err
	}
	if len(ins) > 0 {
		sort.Slice(ins, func(i, j int) bool { return ins[i].off > ins[j].off })
		b := append([]byte(nil), src...)
		for _, in := range ins {
			b = append(b[:in.off], append([]byte(in.text), b[in.off:]...)...)
		}
		// the result must still parse
		if _, err := parser.ParseFile(token.NewFileSet(), srcPath, b, 0); err != nil {
			return fmt.Errorf("instrumented copy does not parse: %v", err)
		}
		if err := os.WriteFile(filepath.Join(out, sp.File), b, 0o644); err != nil {
			return err
		}
	}
	sort.Strings(names)
	var sb strings.Builder
	fmt.Fprintf(&sb, "// Code generated by /verif/sim/tools/yieldins. DO NOT EDIT.\npackage %s\n\nfunc init() {\n\tVerifYieldSites = append(VerifYieldSites", f.Name.Name)
	for _, n := range names {
		fmt.Fprintf(&sb, ", %q", n)
	}
	sb.WriteString(")\n}\n")
	base := "zz_verif_yieldsites_" + strings.TrimSuffix(filepath.Base(sp.File), ".go") + ".go"
	if err := os.WriteFile(filepath.Join(pkgDir, base), []byte(sb.String()), 0o644); err != nil {
		return err
	}
	fmt.Printf("yieldins: %s: %d sites: %s\n", sp.File, len(names), strings.Join(names, ", "))
	return nil
}
