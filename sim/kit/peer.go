package kit

import (
	"fmt"
	"net"
	"sync"

	"github.com/kardiachain/go-kardia/lib/p2p"
	"github.com/kardiachain/go-kardia/lib/p2p/conn"
	"github.com/kardiachain/go-kardia/lib/service"
)

// SimPeer is how node Owner sees remote node Remote. Send/TrySend hand the
// real wire bytes to the simulator's network; nothing else leaves a node.
type SimPeer struct {
	*service.BaseService
	Owner, Remote int
	id            p2p.ID
	mu            sync.Mutex
	kv            map[string]interface{}
	Out           func(owner, remote int, ch byte, msg []byte) bool
}

func PeerID(i int) p2p.ID { return p2p.ID(fmt.Sprintf("%040x", 0xabc000+i)) }

func NewSimPeer(owner, remote int, out func(owner, remote int, ch byte, msg []byte) bool) *SimPeer {
	p := &SimPeer{Owner: owner, Remote: remote, id: PeerID(remote), kv: map[string]interface{}{}, Out: out}
	p.BaseService = service.NewBaseService(nil, "SimPeer", p)
	_ = p.Start()
	return p
}

func (p *SimPeer) FlushStop()           { _ = p.Stop() }
func (p *SimPeer) ID() p2p.ID           { return p.id }
func (p *SimPeer) RemoteIP() net.IP     { return net.IPv4(10, 0, 0, byte(p.Remote+1)) }
func (p *SimPeer) RemoteAddr() net.Addr { return &net.TCPAddr{IP: p.RemoteIP(), Port: 3000} }
func (p *SimPeer) IsOutbound() bool     { return p.Owner < p.Remote }
func (p *SimPeer) IsPersistent() bool   { return false }
func (p *SimPeer) CloseConn() error     { return nil }
func (p *SimPeer) NodeInfo() p2p.NodeInfo {
	return p2p.DefaultNodeInfo{DefaultNodeID: p.id, ListenAddr: fmt.Sprintf("10.0.0.%d:3000", p.Remote+1)}
}
func (p *SimPeer) Status() conn.ConnectionStatus { return conn.ConnectionStatus{} }
func (p *SimPeer) SocketAddr() *p2p.NetAddress {
	return p2p.NewNetAddressIPPort(p.RemoteIP(), 3000)
}
func (p *SimPeer) Send(ch byte, msg []byte) bool {
	if !p.IsRunning() {
		return false
	}
	return p.Out(p.Owner, p.Remote, ch, append([]byte(nil), msg...))
}
func (p *SimPeer) TrySend(ch byte, msg []byte) bool { return p.Send(ch, msg) }
func (p *SimPeer) Set(k string, v interface{}) {
	p.mu.Lock()
	p.kv[k] = v
	p.mu.Unlock()
}
func (p *SimPeer) Get(k string) interface{} {
	p.mu.Lock()
	defer p.mu.Unlock()
	return p.kv[k]
}
