package kit

import (
	"crypto/ecdsa"
	"fmt"
	"runtime/debug"
	"os"
	"path/filepath"
	"strings"
	"sync"
	"time"

	bcreactor "github.com/kardiachain/go-kardia/blockchain"
	"github.com/kardiachain/go-kardia/configs"
	"github.com/kardiachain/go-kardia/consensus"
	"github.com/kardiachain/go-kardia/kai/state/cstate"
	"github.com/kardiachain/go-kardia/lib/common"
	"github.com/kardiachain/go-kardia/lib/log"
	"github.com/kardiachain/go-kardia/lib/p2p"
	"github.com/kardiachain/go-kardia/mainchain/blockchain"
	"github.com/kardiachain/go-kardia/mainchain/genesis"
	"github.com/kardiachain/go-kardia/mainchain/staking"
	"github.com/kardiachain/go-kardia/mainchain/tx_pool"
	"github.com/kardiachain/go-kardia/types"
	"github.com/kardiachain/go-kardia/types/evidence"
)

// NodeCfg is everything that distinguishes one node instance.
type NodeCfg struct {
	ID       int
	Key      *ecdsa.PrivateKey // nil = non-validator full node
	Genesis  *genesis.Genesis  // each node gets its own copy (MakeGenesisState mutates it)
	Cache    *blockchain.CacheConfig
	Cons     *configs.ConsensusConfig
	Disk     *Disk
	WalDir   string // directory holding cs.wal/ (real files); "" = nil WAL
	Registry *Registry
	Epoch    int
	FastSync bool
	Out      func(owner, remote int, ch byte, msg []byte) bool
	TxPool   tx_pool.TxPoolConfig
	// TxGossip registers peers with the real tx-pool reactor. Off by default: its broadcast
	// picks a random subset of peers (map order) and the pool hands pending transactions to
	// the proposer in map order over senders, which no seed controls.
	TxGossip bool
	// EvGossip starts the evidence reactor's real per-peer broadcast routine. Off by default
	// (same reason); the simulator's gossip model offers pending evidence instead.
	EvGossip bool
}

// SavedBlock is what a node handed to its block store.
type SavedBlock struct {
	Height uint64
	Hash   common.Hash
	Block  *types.Block
	Commit *types.Commit
	Epoch  int
}

// Node is one real go-kardia node (consensus + stores + reactors) on simulated I/O.
type Node struct {
	Cfg      NodeCfg
	ID       int
	Addr     common.Address
	Logger   log.Logger
	BC       *blockchain.BlockChain
	Store    cstate.Store
	EvPool   *evidence.Pool
	TxPool   *tx_pool.TxPool
	BOper    *BlockOpsRec
	Exec     *cstate.BlockExecutor
	CS       *consensus.ConsensusState
	Mgr      *consensus.ConsensusManager
	EvR      *evidence.Reactor
	TxR      *tx_pool.Reactor
	BcR      *bcreactor.BlockchainReactor
	Bus      *types.EventBus
	Switch   *p2p.Switch
	Signer   *RecSigner
	WAL      consensus.WAL
	Peers    map[int]*SimPeer
	Stopped  bool
	Failure  string // CONSENSUS FAILURE / Crit text, set by the log trap
	failMu   sync.Mutex
	InitialS cstate.LatestBlockState
	// LoadedHeight is the height of the consensus state as loaded from disk (before a
	// stored-but-unapplied block is applied at start-up).
	LoadedHeight uint64
}

// BlockOpsRec wraps the real BlockOperations to record what is saved/applied
// (observation only; everything is delegated).
type BlockOpsRec struct {
	*blockchain.BlockOperations
	mu      sync.Mutex
	Saved   []SavedBlock
	Applied []uint64
	epoch   int
	// BeforeSave, if set, runs before delegating SaveBlock (crash injection point).
	OnSave func(b *types.Block)
}

func (b *BlockOpsRec) SaveBlock(block *types.Block, parts *types.PartSet, seen *types.Commit) {
	if b.OnSave != nil {
		b.OnSave(block)
	}
	b.BlockOperations.SaveBlock(block, parts, seen)
	b.mu.Lock()
	b.Saved = append(b.Saved, SavedBlock{block.Height(), block.Hash(), block, seen, b.epoch})
	b.mu.Unlock()
}

func (b *BlockOpsRec) SavedCopy() []SavedBlock {
	b.mu.Lock()
	defer b.mu.Unlock()
	return append([]SavedBlock(nil), b.Saved...)
}

// FinishInterruptedCommit mirrors whether mainchain/backend.go New() applies a stored but
// unapplied block before starting consensus. It is detected from the product source at
// build time by the engine (see netsim's TestMain) so that the kit always does what
// backend.go does.
var FinishInterruptedCommit bool

// CritPanic is the sentinel the log trap panics with in place of os.Exit(1).
type CritPanic struct{ Msg string }

func (c CritPanic) Error() string { return "log.Crit: " + c.Msg }

var (
	trapOnce  sync.Once
	trapMu    sync.Mutex
	trapNodes = map[string]*Node{} // logger tag -> node
	// LogSink, if set, receives error-level records (debugging aid).
	LogSink func(lvl log.Lvl, msg string, ctx []interface{})
)

// InstallLogTrap replaces the root log handler: a Crit record panics with
// CritPanic (fail-stop of the calling goroutine) instead of exiting the process,
// and "CONSENSUS FAILURE!!!" records are attributed to their node.
func InstallLogTrap() {
	trapOnce.Do(func() {
		log.Root().SetHandler(log.FuncHandler(func(r *log.Record) error {
			if r.Lvl > log.LvlError {
				return nil
			}
			if LogSink != nil {
				LogSink(r.Lvl, r.Msg, r.Ctx)
			}
			if r.Lvl == log.LvlCrit {
				panic(CritPanic{Msg: r.Msg + " " + fmt.Sprint(r.Ctx...)})
			}
			if strings.HasPrefix(r.Msg, "CONSENSUS FAILURE") {
				var errText, stack string
				for i := 0; i+1 < len(r.Ctx); i += 2 {
					k, _ := r.Ctx[i].(string)
					switch k {
					case "err":
						errText = fmt.Sprint(r.Ctx[i+1])
					case "stack":
						stack = fmt.Sprint(r.Ctx[i+1])
					}
				}
				trapMu.Lock()
				Failures = append(Failures, errText+"\n"+stack)
				trapMu.Unlock()
			}
			return nil
		}))
	})
}

// Failures collects the texts of CONSENSUS FAILURE records (the product's logger
// loses its per-node context, so attribution is by ConsensusDead()).
var Failures []string

// TakeFailures returns and clears the collected failure texts.
func TakeFailures() []string {
	trapMu.Lock()
	defer trapMu.Unlock()
	f := Failures
	Failures = nil
	return f
}

// ConsensusDead reports whether the node's receive routine has exited.
func (n *Node) ConsensusDead() bool {
	select {
	case <-n.CS.VerifDone():
		return true
	default:
		return false
	}
}

func cloneGenesis(g *genesis.Genesis) *genesis.Genesis {
	c := *g
	c.Alloc = genesis.GenesisAlloc{}
	for k, v := range g.Alloc {
		c.Alloc[k] = v
	}
	cp := *g.ConsensusParams
	c.ConsensusParams = &cp
	cc := *g.Config
	c.Config = &cc
	c.Validators = append([]*genesis.GenesisValidator(nil), g.Validators...)
	return &c
}

// NewNode builds a node from the contents of cfg.Disk exactly in the order of
// mainchain/backend.go New(). It does not start anything. Must be called inside
// the synctest bubble (timers are created here).
func NewNode(cfg NodeCfg) (n *Node, err error) {
	InstallLogTrap()
	defer func() {
		if r := recover(); r != nil {
			err = fmt.Errorf("panic while building node: %v\n%s", r, debug.Stack())
		}
	}()
	tag := fmt.Sprintf("n%d.%d", cfg.ID, cfg.Epoch)
	logger := log.New("vnode", tag)
	n = &Node{Cfg: cfg, ID: cfg.ID, Logger: logger, Peers: map[int]*SimPeer{}}
	trapMu.Lock()
	trapNodes[tag] = n
	trapMu.Unlock()
	gen := cloneGenesis(cfg.Genesis)

	n.Bus = types.NewEventBus()
	n.Bus.SetLogger(logger)
	if err := n.Bus.Start(); err != nil {
		return nil, err
	}
	stakingUtil, err := staking.NewSmcStakingUtil()
	if err != nil {
		return nil, err
	}
	n.BC, err = blockchain.NewBlockChain(cfg.Disk, cfg.Cache, gen)
	if err != nil {
		return nil, fmt.Errorf("NewBlockChain: %w", err)
	}
	n.Store = cstate.NewStore(cfg.Disk)
	n.EvPool, err = evidence.NewPool(n.Store, cfg.Disk, n.BC)
	if err != nil {
		return nil, fmt.Errorf("evidence.NewPool: %w", err)
	}
	n.TxPool = tx_pool.NewTxPool(cfg.TxPool, n.BC.Config(), n.BC)
	n.TxR = tx_pool.NewReactor(cfg.TxPool, n.TxPool)
	n.TxR.SetLogger(logger)
	realOps := blockchain.NewBlockOperations(logger, n.BC, n.TxPool, n.EvPool, stakingUtil)
	n.BOper = &BlockOpsRec{BlockOperations: realOps, epoch: cfg.Epoch}
	n.EvR = evidence.NewReactor(n.EvPool)
	n.EvR.SetLogger(logger)
	n.Exec = cstate.NewBlockExecutor(n.Store, logger, n.EvPool, n.BOper)
	state, err := n.Store.LoadStateFromDBOrGenesisDoc(gen)
	if err != nil {
		return nil, fmt.Errorf("LoadStateFromDBOrGenesisDoc: %w", err)
	}
	// mirror of backend.go: finish a commit that a crash interrupted (present in the product
	// since the fix for the saved-but-unapplied block; guarded so the kit also builds against trees without it)
	n.LoadedHeight = state.LastBlockHeight
	if os.Getenv("VERIF_DEBUG_KIT") != "" {
		fmt.Printf("      KIT node %d: finish=%v state=%d meta(next)=%v bo.height=%d\n", cfg.ID, FinishInterruptedCommit, state.LastBlockHeight, n.BOper.LoadBlockMeta(state.LastBlockHeight+1) != nil, n.BOper.Height())
	}
	if FinishInterruptedCommit {
		next := state.LastBlockHeight + 1
		if state.LastBlockHeight == 0 && state.InitialHeight > 0 {
			next = state.InitialHeight
		}
		if meta := n.BOper.LoadBlockMeta(next); meta != nil {
			n.Exec.SetEventBus(n.Bus)
			block := n.BOper.LoadBlock(meta.Header.Height)
			if n.BOper.Height() < block.Height() {
				n.BOper.SaveBlock(block, block.MakePartSet(types.BlockPartSizeBytes), n.BOper.LoadSeenCommit(block.Height()))
			}
			if state, _, err = n.Exec.ApplyBlock(state, meta.BlockID, block); err != nil {
				return nil, fmt.Errorf("finishing interrupted commit: %w", err)
			}
		}
	}
	n.InitialS = state
	fs := &configs.FastSyncConfig{Enable: cfg.FastSync, MaxPeers: 10, TargetPending: 10, PeerTimeout: 15 * time.Second, MinRecvRate: 0}
	if cfg.Key != nil {
		n.Signer = NewRecSigner(cfg.Key, cfg.Registry)
		n.Signer.Epoch = cfg.Epoch
		n.Addr = n.Signer.GetAddress()
	}
	n.BcR = bcreactor.NewBlockchainReactor(state, n.Exec, n.BOper, fs)
	n.BcR.SetLogger(logger)
	cons := *cfg.Cons
	if cfg.WalDir != "" {
		cons.RootDir = cfg.WalDir
		if err := os.MkdirAll(filepath.Join(cfg.WalDir, "cs.wal"), 0o755); err != nil {
			return nil, err
		}
	}
	n.CS = consensus.NewConsensusState(logger, &cons, state, n.BOper, n.Exec, n.EvPool)
	n.Mgr = consensus.NewConsensusManager(n.CS, fs)
	n.Mgr.SetLogger(logger)
	if n.Signer != nil {
		n.Mgr.SetPrivValidator(n.Signer)
	} else {
		// backend.go always installs a priv validator (the node key); a full node's key is simply not in the set
		n.Signer = NewRecSigner(Key(fmt.Sprintf("fullnode-%d", cfg.ID)), cfg.Registry)
		n.Signer.Epoch = cfg.Epoch
		n.Addr = n.Signer.GetAddress()
		n.Mgr.SetPrivValidator(n.Signer)
	}
	n.Mgr.SetEventBus(n.Bus)

	p2pCfg := configs.DefaultP2PConfig()
	n.Switch = p2p.NewSwitch(p2pCfg, p2p.VerifNopTransport())
	n.Switch.SetLogger(logger)
	n.Switch.AddReactor("BLOCKCHAIN", n.BcR)
	n.Switch.AddReactor("CONSENSUS", n.Mgr)
	n.Switch.AddReactor("TXPOOL", n.TxR)
	n.Switch.AddReactor("EVIDENCE", n.EvR)
	return n, nil
}

// Connect creates the peer object through which this node sees remote, runs the
// reactors' InitPeer (PeerState etc.) and registers it for Broadcast. The
// reactors' AddPeer (which would start the free-running gossip goroutines) is
// deliberately not called: the simulator's gossip model takes their place.
func (n *Node) Connect(remote int) *SimPeer {
	if p, ok := n.Peers[remote]; ok && p.IsRunning() {
		return p
	}
	p := NewSimPeer(n.ID, remote, n.Cfg.Out)
	var pp p2p.Peer = p
	pp = n.Mgr.InitPeer(pp)
	n.Peers[remote] = p
	_ = n.Switch.VerifAddPeer(p)
	// The tx-pool and evidence reactors can run their real per-peer routines (they talk only
	// through peer.Send, i.e. through the simulated network); both are off by default because
	// their select statements choose among simultaneously ready cases (new item / timer /
	// peer quit) with the runtime's own coin, which no seed controls.
	if n.TxR.IsRunning() && n.Cfg.TxGossip {
		n.TxR.AddPeer(p)
	}
	if n.EvR.IsRunning() && n.Cfg.EvGossip {
		n.EvR.AddPeer(p)
	}
	return p
}

func (n *Node) Disconnect(remote int) {
	if p, ok := n.Peers[remote]; ok {
		if p.IsRunning() {
			_ = p.Stop()
		}
		n.Switch.VerifRemovePeer(p)
		delete(n.Peers, remote)
	}
}

// KillCount counts SIGTERMs the process sent to itself (cmn.Kill()).
var KillCount atomicCounter

type atomicCounter struct {
	mu sync.Mutex
	n  int
}

func (a *atomicCounter) Add(d int) { a.mu.Lock(); a.n += d; a.mu.Unlock() }
func (a *atomicCounter) Load() int { a.mu.Lock(); defer a.mu.Unlock(); return a.n }
