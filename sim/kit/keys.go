package kit

import (
	"crypto/ecdsa"
	"fmt"

	"github.com/kardiachain/go-kardia/lib/common"
	"github.com/kardiachain/go-kardia/lib/crypto"
)

// Key derives a deterministic secp256k1 key from a label (never GenerateKey).
func Key(label string) *ecdsa.PrivateKey {
	for i := 0; ; i++ {
		h := crypto.Keccak256([]byte(fmt.Sprintf("verif-key:%s:%d", label, i)))
		k, err := crypto.ToECDSA(h)
		if err == nil {
			return k
		}
	}
}

func AddrOf(k *ecdsa.PrivateKey) common.Address { return crypto.PubkeyToAddress(k.PublicKey) }
