package kit

import (
	"bytes"
	"crypto/ecdsa"
	"sort"
	"sync"
	"time"

	"github.com/kardiachain/go-kardia/lib/common"
	kproto "github.com/kardiachain/go-kardia/proto/kardiachain/types"
	"github.com/kardiachain/go-kardia/types"
)

// SigRecord is one signature request, recorded independently of the product's
// sign-bytes code: the simulator knows exactly which tuples were ever signed.
type SigRecord struct {
	Signer    common.Address
	ChainID   string
	Kind      string // "prevote" | "precommit" | "proposal"
	Height    uint64
	Round     uint32
	POLRound  uint32
	BlockHash common.Hash
	PartsHash common.Hash
	PartsTot  uint32
	Timestamp time.Time
	Sig       []byte
	Seq       int  // global order of signing
	Epoch     int  // incarnation of the node that signed (restarts bump it)
	Forged    bool // signed by the adversary with this key (Byzantine validator)
}

// Registry is the global signature registry of one run.
type Registry struct {
	mu    sync.Mutex
	Recs  []*SigRecord
	canon int // records before this index are in their final, canonical position
	// OnSign, if set, is called (outside the lock) for every new record of a correct node.
	OnSign func(r *SigRecord)
}

func (g *Registry) add(r *SigRecord) {
	g.mu.Lock()
	r.Seq = len(g.Recs)
	g.Recs = append(g.Recs, r)
	cb := g.OnSign
	g.mu.Unlock()
	if cb != nil && !r.Forged {
		cb(r)
	}
}

// All returns the records in a canonical order. Nodes sign concurrently (several validators
// time out at one simulated instant), so the order of arrival between two quiescent points is
// the Go scheduler's choice, not the simulator's: the batch that arrived since the previous
// call is sorted by content before anybody looks at it. Records returned by an earlier call
// keep their positions. Call it at quiescent points only.
func (g *Registry) All() []*SigRecord {
	g.mu.Lock()
	defer g.mu.Unlock()
	if g.canon < len(g.Recs) {
		batch := g.Recs[g.canon:]
		sort.SliceStable(batch, func(i, j int) bool {
			a, b := batch[i], batch[j]
			if a.Height != b.Height {
				return a.Height < b.Height
			}
			if a.Round != b.Round {
				return a.Round < b.Round
			}
			if a.Kind != b.Kind {
				return kindRank(a.Kind) < kindRank(b.Kind) // protocol order: proposal, prevote, precommit
			}
			if c := bytes.Compare(a.Signer[:], b.Signer[:]); c != 0 {
				return c < 0
			}
			if c := bytes.Compare(a.BlockHash[:], b.BlockHash[:]); c != 0 {
				return c < 0
			}
			return bytes.Compare(a.Sig, b.Sig) < 0
		})
		for i, r := range batch {
			r.Seq = g.canon + i
		}
		g.canon = len(g.Recs)
	}
	return append([]*SigRecord(nil), g.Recs...)
}

// RecSigner wraps the real DefaultPrivValidator and records every request.
type RecSigner struct {
	*types.DefaultPrivValidator
	Reg    *Registry
	Epoch  int
	Forged bool
	// Refuse, if set, makes the signer fail (used to model a stopped node).
	Refuse func() bool
}

func NewRecSigner(k *ecdsa.PrivateKey, reg *Registry) *RecSigner {
	return &RecSigner{DefaultPrivValidator: types.NewDefaultPrivValidator(k), Reg: reg}
}

func kindRank(k string) int {
	switch k {
	case "proposal":
		return 0
	case "prevote":
		return 1
	}
	return 2
}

func kindOf(t kproto.SignedMsgType) string {
	switch t {
	case kproto.PrevoteType:
		return "prevote"
	case kproto.PrecommitType:
		return "precommit"
	case kproto.ProposalType:
		return "proposal"
	}
	return "unknown"
}

func (s *RecSigner) SignVote(chainID string, vote *kproto.Vote) error {
	if err := s.DefaultPrivValidator.SignVote(chainID, vote); err != nil {
		return err
	}
	r := &SigRecord{Signer: s.GetAddress(), ChainID: chainID, Kind: kindOf(vote.Type), Height: vote.Height, Round: vote.Round,
		Timestamp: vote.Timestamp, Sig: append([]byte(nil), vote.Signature...), Epoch: s.Epoch, Forged: s.Forged}
	r.BlockHash = common.BytesToHash(vote.BlockID.Hash)
	r.PartsHash = common.BytesToHash(vote.BlockID.PartSetHeader.Hash)
	r.PartsTot = vote.BlockID.PartSetHeader.Total
	s.Reg.add(r)
	return nil
}

func (s *RecSigner) SignProposal(chainID string, p *kproto.Proposal) error {
	if err := s.DefaultPrivValidator.SignProposal(chainID, p); err != nil {
		return err
	}
	r := &SigRecord{Signer: s.GetAddress(), ChainID: chainID, Kind: "proposal", Height: p.Height, Round: p.Round, POLRound: p.PolRound,
		Timestamp: p.Timestamp, Sig: append([]byte(nil), p.Signature...), Epoch: s.Epoch, Forged: s.Forged}
	r.BlockHash = common.BytesToHash(p.BlockID.Hash)
	r.PartsHash = common.BytesToHash(p.BlockID.PartSetHeader.Hash)
	r.PartsTot = p.BlockID.PartSetHeader.Total
	s.Reg.add(r)
	return nil
}
