// Package kit assembles real go-kardia nodes over simulated storage, network
// peers and signers. It mirrors mainchain/backend.go New() minus RPC, accounts,
// bloom indexer and the blacklist fetch.
package kit

import (
	"bytes"
	"errors"
	"sort"
	"sync"

	"github.com/kardiachain/go-kardia/kai/kaidb"
)

// Op is one key/value mutation.
type Op struct {
	Del bool
	Key string
	Val []byte
}

// Entry is one atomic element of the totally ordered write log: a single
// Put/Delete or a whole batch (atomic, as in LevelDB). Marks are zero-op
// entries other recorders (the WAL wrapper) interleave into the same order.
type Entry struct {
	Ops  []Op
	Mark string // non-empty for foreign marks (wal-append, wal-fsync, ...)
	Aux  int64
}

var ErrInjected = errors.New("simdisk: injected I/O error")

// WriteLog is shared by everything that writes durably for one node.
type WriteLog struct {
	mu      sync.Mutex
	Entries []Entry
	On      bool
	// BeforeAdd, if set, is called with the index the next entry will get (the WAL recorder
	// notes how much of its files is on disk at that moment).
	BeforeAdd func(idx int)
}

func (l *WriteLog) add(e Entry) int {
	l.mu.Lock()
	defer l.mu.Unlock()
	if !l.On {
		return -1
	}
	if l.BeforeAdd != nil {
		l.BeforeAdd(len(l.Entries))
	}
	l.Entries = append(l.Entries, e)
	return len(l.Entries)
}

// MarkEvent appends a foreign mark (used by the WAL recorder).
func (l *WriteLog) MarkEvent(mark string, aux int64) int {
	return l.add(Entry{Mark: mark, Aux: aux})
}

func (l *WriteLog) Len() int {
	l.mu.Lock()
	defer l.mu.Unlock()
	return len(l.Entries)
}

// Disk is the simulated key-value store behind kaidb.Database.
type Disk struct {
	mu   sync.RWMutex
	data map[string][]byte
	Log  *WriteLog

	// fault knobs (owned by the simulator; nil/zero = no fault)
	FailWrites  func(nth int) bool // consulted for every write entry; true => ErrInjected, nothing applied
	FailReads   func(key []byte) bool
	CorruptRead func(key, val []byte) []byte
	writes      int
	Reads       int
}

func NewDisk() *Disk {
	return &Disk{data: map[string][]byte{}, Log: &WriteLog{}}
}

// Fork returns an independent copy of the current contents (values shared:
// they are never mutated in place). The copy has its own, empty write log.
func (d *Disk) Fork() *Disk {
	d.mu.RLock()
	defer d.mu.RUnlock()
	n := NewDisk()
	for k, v := range d.data {
		n.data[k] = v
	}
	return n
}

// Apply replays log entries [from,to) onto the disk (used to build crash images).
func (d *Disk) Apply(entries []Entry) {
	d.mu.Lock()
	defer d.mu.Unlock()
	for _, e := range entries {
		for _, op := range e.Ops {
			if op.Del {
				delete(d.data, op.Key)
			} else {
				d.data[op.Key] = op.Val
			}
		}
	}
}

func (d *Disk) Len() int {
	d.mu.RLock()
	defer d.mu.RUnlock()
	return len(d.data)
}

// Keys returns all keys, sorted (deterministic).
func (d *Disk) Keys() []string {
	d.mu.RLock()
	defer d.mu.RUnlock()
	ks := make([]string, 0, len(d.data))
	for k := range d.data {
		ks = append(ks, k)
	}
	sort.Strings(ks)
	return ks
}

func (d *Disk) RawGet(k string) ([]byte, bool) {
	d.mu.RLock()
	defer d.mu.RUnlock()
	v, ok := d.data[k]
	return v, ok
}

func (d *Disk) write(ops []Op) error {
	d.mu.Lock()
	d.writes++
	if d.FailWrites != nil && d.FailWrites(d.writes) {
		d.mu.Unlock()
		return ErrInjected
	}
	for _, op := range ops {
		if op.Del {
			delete(d.data, op.Key)
		} else {
			d.data[op.Key] = op.Val
		}
	}
	d.mu.Unlock()
	d.Log.add(Entry{Ops: ops})
	return nil
}

// --- kaidb.Database ---

func (d *Disk) Close() error { return nil }

func (d *Disk) Has(key []byte) (bool, error) {
	d.mu.RLock()
	defer d.mu.RUnlock()
	if d.FailReads != nil && d.FailReads(key) {
		return false, ErrInjected
	}
	_, ok := d.data[string(key)]
	return ok, nil
}

var errNotFound = errors.New("not found")

func (d *Disk) Get(key []byte) ([]byte, error) {
	d.mu.RLock()
	defer d.mu.RUnlock()
	d.Reads++
	if d.FailReads != nil && d.FailReads(key) {
		return nil, ErrInjected
	}
	v, ok := d.data[string(key)]
	if !ok {
		return nil, errNotFound
	}
	out := append([]byte(nil), v...)
	if d.CorruptRead != nil {
		out = d.CorruptRead(key, out)
	}
	return out, nil
}

func (d *Disk) Put(key []byte, value []byte) error {
	return d.write([]Op{{Key: string(key), Val: append([]byte{}, value...)}})
}

func (d *Disk) Delete(key []byte) error {
	return d.write([]Op{{Del: true, Key: string(key)}})
}

func (d *Disk) NewBatch() kaidb.Batch { return &batch{d: d} }

func (d *Disk) Stat(property string) (string, error) { return "", errors.New("unknown property") }
func (d *Disk) Compact(start []byte, limit []byte) error { return nil }

func (d *Disk) NewIterator(prefix []byte, start []byte) kaidb.Iterator {
	d.mu.RLock()
	defer d.mu.RUnlock()
	pr := string(prefix)
	st := string(append(append([]byte{}, prefix...), start...))
	var ks []string
	for k := range d.data {
		if len(k) >= len(pr) && k[:len(pr)] == pr && k >= st {
			ks = append(ks, k)
		}
	}
	sort.Strings(ks)
	vs := make([][]byte, len(ks))
	for i, k := range ks {
		vs[i] = d.data[k]
	}
	return &iter{keys: ks, vals: vs, i: -1}
}

type batch struct {
	d    *Disk
	ops  []Op
	size int
}

func (b *batch) Put(key, value []byte) error {
	b.ops = append(b.ops, Op{Key: string(key), Val: append([]byte{}, value...)})
	b.size += len(key) + len(value)
	return nil
}

func (b *batch) Delete(key []byte) error {
	b.ops = append(b.ops, Op{Del: true, Key: string(key)})
	b.size += len(key)
	return nil
}

func (b *batch) ValueSize() int { return b.size }

func (b *batch) Write() error {
	if len(b.ops) == 0 {
		return nil
	}
	ops := append([]Op(nil), b.ops...)
	return b.d.write(ops)
}

func (b *batch) Reset() { b.ops = b.ops[:0]; b.size = 0 }

func (b *batch) Replay(w kaidb.KeyValueWriter) error {
	for _, op := range b.ops {
		var err error
		if op.Del {
			err = w.Delete([]byte(op.Key))
		} else {
			err = w.Put([]byte(op.Key), op.Val)
		}
		if err != nil {
			return err
		}
	}
	return nil
}

type iter struct {
	keys []string
	vals [][]byte
	i    int
}

func (it *iter) Next() bool {
	if it.i+1 >= len(it.keys) {
		it.i = len(it.keys)
		return false
	}
	it.i++
	return true
}
func (it *iter) Error() error { return nil }
func (it *iter) Key() []byte {
	if it.i < 0 || it.i >= len(it.keys) {
		return nil
	}
	return []byte(it.keys[it.i])
}
func (it *iter) Value() []byte {
	if it.i < 0 || it.i >= len(it.keys) {
		return nil
	}
	return bytes.Clone(it.vals[it.i])
}
func (it *iter) Release() { it.keys, it.vals = nil, nil }
