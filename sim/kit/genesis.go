package kit

import (
	"crypto/ecdsa"
	"fmt"
	"math/big"
	"sync"
	"time"

	"github.com/kardiachain/go-kardia/configs"
	"github.com/kardiachain/go-kardia/lib/common"
	"github.com/kardiachain/go-kardia/mainchain/genesis"
	kproto "github.com/kardiachain/go-kardia/proto/kardiachain/types"
)

var contractsOnce sync.Once

// Spec describes one simulated chain.
type Spec struct {
	ChainID   string
	Time      time.Time
	ValKeys   []*ecdsa.PrivateKey
	StakeKAI  []int64 // self delegation of validator i in KAI (>= 12_500_000 to start)
	UserKeys  []*ecdsa.PrivateKey
	Galaxias  bool  // true: fork active from block 0
	EvMaxAge  int64 // evidence max age in blocks (0 = default)
	EvMaxDur  time.Duration
	NetworkID uint64
}

var kai = new(big.Int).Exp(big.NewInt(10), big.NewInt(18), nil)

func padName(i int) string {
	s := fmt.Sprintf("verif-validator-%02d", i)
	for len(s) < 32 {
		s += "_"
	}
	return s
}

// BuildGenesis returns the real genesis.Genesis with the real staking and
// validator contracts from configs.
func BuildGenesis(sp Spec) *genesis.Genesis {
	contractsOnce.Do(func() {
		configs.AddDefaultContract()
		for key, c := range configs.GetContracts() {
			configs.LoadGenesisContract(key, c.Address, c.ByteCode, c.ABI)
		}
	})
	alloc := genesis.GenesisAlloc{}
	rich := new(big.Int).Mul(big.NewInt(1_000_000_000), kai)
	for _, k := range sp.ValKeys {
		alloc[AddrOf(k)] = genesis.GenesisAccount{Balance: new(big.Int).Set(rich)}
	}
	for _, k := range sp.UserKeys {
		alloc[AddrOf(k)] = genesis.GenesisAccount{Balance: new(big.Int).Mul(big.NewInt(1000), kai)}
	}
	for key, c := range configs.GetContracts() {
		if key != configs.StakingContractKey {
			alloc[common.HexToAddress(c.Address)] = genesis.GenesisAccount{Code: common.Hex2Bytes(c.ByteCode), Balance: new(big.Int).Mul(big.NewInt(100), kai)}
		}
	}
	var vals []*genesis.GenesisValidator
	for i, k := range sp.ValKeys {
		stake := new(big.Int).Mul(big.NewInt(sp.StakeKAI[i]), kai)
		vals = append(vals, &genesis.GenesisValidator{
			Name:             padName(i),
			Address:          AddrOf(k).Hex(),
			CommissionRate:   "100000000000000000",
			MaxRate:          "250000000000000000",
			MaxChangeRate:    "50000000000000000",
			SelfDelegate:     stake.String(),
			StartWithGenesis: true,
		})
	}
	cc := &configs.ChainConfig{
		ChainID: big.NewInt(int64(sp.NetworkID)),
		Kaicon:  &configs.KaiconConfig{Period: 15, Epoch: 30000},
	}
	if sp.Galaxias {
		z := uint64(0)
		cc.GalaxiasBlock = &z
	}
	cp := configs.DefaultConsensusParams()
	if sp.EvMaxAge > 0 {
		cp.Evidence = kproto.EvidenceParams{MaxAgeNumBlocks: sp.EvMaxAge, MaxAgeDuration: sp.EvMaxDur, MaxBytes: 1048576}
	}
	return &genesis.Genesis{
		ChainID:         sp.ChainID,
		InitialHeight:   1,
		Config:          cc,
		Timestamp:       sp.Time,
		GasLimit:        configs.BlockGasLimit,
		Alloc:           alloc,
		Validators:      vals,
		ConsensusParams: cp,
		Consensus:       configs.DefaultConsensusConfig(),
	}
}
