package walsim

// Mode "group": a tape-generated history of writes, syncs, clock advances (the group's own
// ticker rotates the head on the fake clock), explicit head-size checks and restarts on the real
// BaseWAL; then the log is read back (whole, and from every end-height marker) fault-free and,
// in fault-injecting runs, after one sampled fault on the files.

import (
	"errors"
	"fmt"
	"io"
	"os"
	"os/signal"
	"path/filepath"
	"strings"
	"testing"
	"testing/synctest"
	"time"

	"verif/sim/core"

	"github.com/kardiachain/go-kardia/consensus"
	auto "github.com/kardiachain/go-kardia/lib/autofile"
	"github.com/kardiachain/go-kardia/lib/log"
)

var headLimits = []int64{64 << 10, 16 << 10, 4 << 10, 2 << 10, 1 << 10, 512}
var checkDurs = []time.Duration{4999 * time.Millisecond, 2003 * time.Millisecond, 997 * time.Millisecond}
var faultNames = []string{"none", "corrupt-bytes", "garbage-suffix", "zero-tail", "truncate-tail",
	"rotated-file-deleted", "rotated-file-emptied", "rotated-file-truncated"}

type gfile struct {
	idx   int
	path  string
	start int // offset of the file's first byte in the concatenated stream
	size  int
}

type gstate struct {
	tape *core.Tape
	opt  core.Options
	res  *core.RunResult
	h    *core.Hasher
	ah   *core.Hasher
	g    gen

	dir, path string
	headLimit int64
	checkDur  time.Duration
	wal       *consensus.BaseWAL
	started   bool

	W       []*wrec
	markers map[int64][]int // end-height -> indices in W
	heights []int64         // marker heights in written order (distinct)
	written int
	sim     time.Duration
	ops     []string
	failed  bool
}

func (s *gstate) violate(v verdict) {
	// stage parameter gap=probe turns the silent-gap finding into a probe (see stage.json)
	if v.oracle == "gap" && strings.Contains(v.sig, "rotated file") && s.opt.Params["gap"] == "probe" {
		s.res.Probe("rotated-file-gap-undetected")
		return
	}
	s.failed = true
	if v.oracle == "harness" {
		s.res.Infra = v.detail
		return
	}
	s.res.Violate(prop, v.oracle, v.sig, v.detail)
}

func (s *gstate) step(f string, a ...interface{}) {
	x := fmt.Sprintf(f, a...)
	if len(s.ops) < 40 {
		s.ops = append(s.ops, x)
	}
	s.res.Tracef("%s", x)
	s.h.Add(x)
}

func (s *gstate) open() bool {
	w, err := consensus.NewWAL(s.path, auto.GroupHeadSizeLimit(s.headLimit), auto.GroupCheckDuration(s.checkDur))
	if err != nil {
		s.violate(verdict{"harness", "", "NewWAL: " + err.Error()})
		return false
	}
	w.SetLogger(log.NewNopLogger())
	s.wal = w
	return true
}

func (s *gstate) start() bool {
	// documented behaviour of OnStart: a brand-new log (nothing in the head nor in any rotated
	// file) gets an end-height marker for height 0. (Until the fix of the crash-after-rotation
	// defect, see known_findings.json, an empty head alone was enough.)
	sz := int64(0)
	if ents, err := os.ReadDir(filepath.Dir(s.path)); err == nil {
		for _, e := range ents {
			if fi, err := e.Info(); err == nil && !fi.IsDir() {
				sz += fi.Size()
			}
		}
	}
	now := time.Now().Round(0).UTC()
	if err := s.wal.Start(); err != nil {
		s.violate(verdict{"harness", "", "wal.Start: " + err.Error()})
		return false
	}
	s.started = true
	if sz == 0 {
		s.record("endheight", consensus.EndHeightMessage{Height: 0}, now, 0)
	}
	return true
}

func (s *gstate) record(kind string, m consensus.WALMessage, t time.Time, size int) {
	s.W = append(s.W, &wrec{kind: kind, msg: m, t: t, size: size})
	if e, ok := m.(consensus.EndHeightMessage); ok {
		if len(s.markers[e.Height]) == 0 {
			s.heights = append(s.heights, e.Height)
		}
		s.markers[e.Height] = append(s.markers[e.Height], len(s.W)-1)
	}
}

// closeWal stops everything that can be stopped so that the bubble can drain.
func closeWal(w *consensus.BaseWAL, started bool) {
	if w == nil {
		return
	}
	if started {
		_ = w.Stop()
		w.Wait()
	}
	head := w.Group().Head
	if c := head.VerifWalHupc(); c != nil {
		signal.Stop(c)
	}
	_ = head.Close()
}

func (s *gstate) write(kind string, m consensus.WALMessage, sync bool) bool {
	now := time.Now().Round(0).UTC()
	pay, err := refPayload(now, m)
	if err != nil {
		s.violate(verdict{"harness", "", err.Error()})
		return false
	}
	var werr error
	panicked := ""
	func() {
		defer func() {
			if r := recover(); r != nil {
				panicked = fmt.Sprint(r)
			}
		}()
		if sync {
			werr = s.wal.WriteSync(m)
		} else {
			werr = s.wal.Write(m)
		}
	}()
	s.step("write %s sync=%v payload=%d err=%v", kind, sync, len(pay), werr != nil)
	s.ah.Add("w", kind, fmt.Sprint(sync))
	if panicked != "" {
		s.violate(verdict{"panic", "WAL write panics on a " + kind + " message: " + firstLine(panicked), panicked + " " + brief(m)})
		return false
	}
	if len(pay) > limit {
		if werr == nil {
			s.violate(verdict{"max-size-write", "encoder accepts a message above the maximum size", fmt.Sprintf("payload %d bytes, limit %d: %s", len(pay), limit, brief(m))})
			return false
		}
		s.res.Probe("oversize-write-refused")
		return true
	}
	if werr != nil {
		s.violate(verdict{"write-refused", "WAL refuses a valid " + kind + " message within the size limit", fmt.Sprintf("%v; payload %d bytes: %s", werr, len(pay), brief(m))})
		return false
	}
	if len(pay) == limit {
		s.res.Probe("write-of-exactly-max-size")
	}
	if len(pay) > 900<<10 {
		s.res.Probe("write-near-max-size")
	}
	s.written += 8 + len(pay)
	s.record(kind, m, now, len(pay))
	return true
}

// files lists the group's files in stream order (rotated files by index, then the head).
func (s *gstate) files() []gfile {
	var out []gfile
	pos := 0
	for i := 0; ; i++ {
		p := fmt.Sprintf("%s.%03d", s.path, i)
		fi, err := os.Stat(p)
		if err != nil {
			break
		}
		out = append(out, gfile{i, p, pos, int(fi.Size())})
		pos += int(fi.Size())
	}
	n := 0
	if fi, err := os.Stat(s.path); err == nil {
		n = int(fi.Size())
	}
	out = append(out, gfile{len(out), s.path, pos, n})
	return out
}

func runGroup(t *testing.T, tape *core.Tape, opt core.Options, res *core.RunResult, h, ah *core.Hasher) {
	s := &gstate{tape: tape, opt: opt, res: res, h: h, ah: ah, g: gen{tape}, markers: map[int64][]int{}}
	s.dir = filepath.Join(opt.Scratch, fmt.Sprintf("wal-%d", opt.RunIndex))
	s.path = filepath.Join(s.dir, "wal")
	os.RemoveAll(s.dir)
	if err := os.MkdirAll(s.dir, 0o700); err != nil {
		res.Infra = err.Error()
		return
	}
	defer os.RemoveAll(s.dir)
	func() {
		defer func() {
			if r := recover(); r != nil {
				msg := fmt.Sprint(r)
				if strings.Contains(msg, "blocked goroutines remain") {
					res.Probe("goroutines-left-blocked-after-stop")
					return
				}
				if !res.Failed() && res.Infra == "" {
					res.Infra = "panic escaped the bubble: " + msg
				}
			}
		}()
		synctest.Test(t, func(t *testing.T) { s.body() })
	}()
	res.SimTimeS = s.sim.Seconds()
	res.Sample = map[string]interface{}{"mode": "group", "head_limit": s.headLimit, "check_ms": s.checkDur.Milliseconds(), "ops": s.ops}
}

func (s *gstate) body() {
	tape, res := s.tape, s.res
	defer func() {
		if r := recover(); r != nil {
			s.violate(verdict{"panic", "WAL code panics: " + firstLine(fmt.Sprint(r)), fmt.Sprint(r)})
		}
		closeWal(s.wal, s.started)
		s.wal = nil
	}()
	fault := tape.Weighted(6, 3, 2, 2, 3, 2, 2, 3)
	s.headLimit = headLimits[tape.Draw(len(headLimits))]
	s.checkDur = checkDurs[tape.Draw(len(checkDurs))]
	s.ah.Add(faultNames[fault], fmt.Sprint(s.headLimit))
	s.step("config headLimit=%d check=%v fault=%s", s.headLimit, s.checkDur, faultNames[fault])
	if !s.open() || !s.start() {
		return
	}
	budget := s.opt.Int("maxbytes", 3<<20)
	nOps := tape.Range(4, s.opt.Int("ops", 60))
	height := int64(0)
	if tape.Chance(1, 4) {
		height = int64(1) << uint(tape.Range(8, 62))
	}
	allowBig := tape.Chance(1, 6) // runs that may write messages around the maximum size (1 MB each)
	for i := 0; i < nOps && !s.failed; i++ {
		res.Steps++
		switch tape.Weighted(16, 8, 8, 10, 6, 4, 2, 1) {
		case 0:
			k, m := s.g.small()
			s.write(k, m, false)
		case 1:
			k, m := s.g.small()
			s.write(k, m, true)
		case 2:
			height += int64(tape.Range(1, 3))
			s.write("endheight", consensus.EndHeightMessage{Height: height}, true)
		case 3:
			d := []time.Duration{100 * time.Millisecond, 700 * time.Millisecond, 1500 * time.Millisecond, 3 * time.Second, 6 * time.Second}[tape.Draw(5)]
			if s.sim+d > 900*time.Second {
				continue
			}
			time.Sleep(d)
			synctest.Wait()
			s.sim += d
			s.step("sleep %v -> maxIndex %d", d, s.wal.Group().MaxIndex())
			s.ah.Add("sleep")
		case 4: // medium / large block part
			var k string
			var m consensus.WALMessage
			switch tape.Weighted(12, 6, 1) {
			case 0:
				k, m = s.g.blockPart(tape.Range(1000, 8000), tape.Draw(8))
			case 1:
				k, m = s.g.blockPart(65536, tape.Draw(20))
			default:
				if !allowBig || s.written+(1<<20) > budget {
					k, m = s.g.blockPart(65536, 0)
				} else {
					k, m = s.g.blockPart(65536, 28780+tape.Draw(160)) // around the maximum message size
				}
			}
			if s.written+70000 > budget {
				k, m = s.g.small()
			}
			s.write(k, m, tape.Chance(1, 3))
		case 5: // explicit head-size check (the other rotation path)
			fl := tape.Chance(1, 2)
			if fl {
				if err := s.wal.FlushAndSync(); err != nil {
					s.violate(verdict{"harness", "", "FlushAndSync: " + err.Error()})
					return
				}
			}
			s.wal.Group().VerifWalCheckHeadSizeLimit()
			s.step("checkHeadSizeLimit flush=%v -> maxIndex %d", fl, s.wal.Group().MaxIndex())
			s.ah.Add("check")
		case 6: // restart
			closeWal(s.wal, s.started)
			s.wal, s.started = nil, false
			if !s.open() || !s.start() {
				return
			}
			s.step("restart -> min %d max %d", s.wal.Group().MinIndex(), s.wal.Group().MaxIndex())
			s.ah.Add("restart")
		case 7: // a message of exactly / just below / just above the maximum size
			if !allowBig || s.written+(1<<20) > budget {
				continue
			}
			delta := []int{0, 1, -1}[tape.Draw(3)]
			m, err := paddedRoundState(time.Now().Round(0).UTC(), limit+delta)
			if err != nil {
				s.violate(verdict{"harness", "", err.Error()})
				return
			}
			s.write("roundstate", m, tape.Chance(1, 2))
		}
	}
	if s.failed {
		return
	}
	if err := s.wal.FlushAndSync(); err != nil {
		s.violate(verdict{"harness", "", "FlushAndSync: " + err.Error()})
		return
	}
	rotations := s.wal.Group().MaxIndex()
	s.step("final: %d records, %d bytes, maxIndex %d", len(s.W), s.written, rotations)
	if rotations > 0 {
		res.Probe("logs-rotated")
	}
	if rotations >= 3 {
		res.Probe("logs-rotated-3-or-more-times")
	}

	// ---- fault-free read back
	if !s.checkAll(s.wal, nil) {
		return
	}
	found := 0
	for _, q := range s.queries(true) {
		for _, ign := range []bool{false, true} {
			ok, f := s.checkSearch(s.wal, q, ign, nil)
			if !ok {
				return
			}
			if f {
				found++
			}
		}
	}
	closeWal(s.wal, s.started)
	s.wal, s.started = nil, false
	res.NonTrivial = rotations > 0 && found > 0
	if fault == 0 {
		return
	}

	// ---- one sampled fault on the files, then read back through a freshly opened group
	d := s.inject(fault)
	if d == nil {
		res.NonTrivial = false
		return
	}
	res.Fault(faultNames[fault])
	if !s.open() {
		return
	}
	if !s.checkAll(s.wal, d) {
		return
	}
	for _, q := range s.queries(false) {
		for _, ign := range []bool{false, true} {
			if ok, _ := s.checkSearch(s.wal, q, ign, d); !ok {
				return
			}
		}
	}
}

// damage describes an injected fault in stream terms.
type damage struct {
	what   string
	file   int  // index of the damaged file
	off    int  // stream offset of the first damaged byte
	strict bool // the record at the damage must not be returned
	intact int  // records wholly before the damage
	ends   []int
	fileOf []int // file index of every record
}

// layout reads the files and cuts the stream into records by the documented framing.
func (s *gstate) layout() (files []gfile, stream []byte, ends []int, fileOf []int, ok bool) {
	files = s.files()
	for _, f := range files {
		b, err := os.ReadFile(f.path)
		if err != nil && f.size > 0 {
			s.violate(verdict{"harness", "", err.Error()})
			return
		}
		stream = append(stream, b...)
	}
	ends, clean := refSplit(stream)
	if !clean || len(ends) != len(s.W) {
		s.violate(verdict{"format", "files of an undamaged log are not a sequence of whole CRC-32C + length framed records, one per written message",
			fmt.Sprintf("%d records by framing (clean=%v), %d written", len(ends), clean, len(s.W))})
		return
	}
	fi := 0
	for _, e := range ends {
		for fi < len(files)-1 && e > files[fi].start+files[fi].size {
			fi++
		}
		fileOf = append(fileOf, fi)
	}
	return files, stream, ends, fileOf, true
}

func (s *gstate) inject(fault int) *damage {
	tape := s.tape
	files, stream, ends, fileOf, ok := s.layout()
	if !ok || len(stream) == 0 {
		return nil
	}
	d := &damage{what: "a log with " + faultNames[fault], ends: ends, fileOf: fileOf}
	if fault >= 5 {
		d.what = "a log with a damaged rotated file"
	}
	last := len(files) - 1
	for last > 0 && files[last].size == 0 {
		last--
	}
	count := func(off int) int {
		n := 0
		for _, e := range ends {
			if e <= off {
				n++
			}
		}
		return n
	}
	rewrite := func(f gfile, b []byte) bool {
		if err := os.WriteFile(f.path, b, 0o600); err != nil {
			s.violate(verdict{"harness", "", err.Error()})
			return false
		}
		return true
	}
	switch fault {
	case 1: // multi-byte corruption anywhere
		o := tape.Draw(len(stream))
		fi := 0
		for fi < len(files)-1 && o >= files[fi].start+files[fi].size {
			fi++
		}
		f := files[fi]
		b := append([]byte(nil), stream[f.start:f.start+f.size]...)
		n := tape.Range(1, 16)
		for i := 0; i < n && o-f.start+i < len(b); i++ {
			b[o-f.start+i] ^= byte(tape.Range(1, 255))
		}
		if !rewrite(f, b) {
			return nil
		}
		d.file, d.off, d.strict = fi, o, true
		s.step("fault corrupt %d bytes at stream offset %d (file %d of %d)", n, o, fi, len(files))
	case 2, 3: // suffix on the head
		var sfx []byte
		if fault == 2 {
			sfx = s.g.fill(tape.Range(1, 64))
			for i := range sfx {
				sfx[i] ^= byte(i*37 + 1) // never all zero, never constant
			}
		} else {
			sfx = make([]byte, tape.Range(1, 4096))
		}
		f := files[len(files)-1]
		if !rewrite(f, append(append([]byte(nil), stream[f.start:f.start+f.size]...), sfx...)) {
			return nil
		}
		d.file, d.off, d.strict = len(files)-1, len(stream), true
		s.step("fault %s of %d bytes", faultNames[fault], len(sfx))
	case 4: // truncate the tail of the stream
		f := files[last]
		t := tape.Draw(f.size)
		if !rewrite(f, stream[f.start:f.start+t]) {
			return nil
		}
		d.file, d.off, d.strict = last, f.start+t, false
		s.step("fault truncate file %d at %d (stream offset %d of %d)", last, t, d.off, len(stream))
	case 5, 6, 7: // a rotated file is lost, emptied or truncated
		if len(files) < 2 {
			return nil
		}
		fi := tape.Draw(len(files) - 1)
		if fault == 5 || fault == 6 {
			if len(files) < 3 {
				return nil
			}
			fi = 1 + tape.Draw(len(files)-2) // never the oldest one: losing it is what ordinary pruning does
		}
		f := files[fi]
		if f.size == 0 {
			return nil
		}
		t := 0
		switch fault {
		case 5:
			if err := os.Remove(f.path); err != nil {
				s.violate(verdict{"harness", "", err.Error()})
				return nil
			}
		case 6:
			if !rewrite(f, nil) {
				return nil
			}
		default:
			t = tape.Draw(f.size)
			if tape.Chance(1, 3) { // cut exactly at a record boundary
				for _, e := range ends {
					if e >= f.start && e < f.start+f.size {
						t = e - f.start
						if tape.Chance(1, 2) {
							break
						}
					}
				}
			}
			if t == 0 && fi == 0 {
				return nil // same as pruning
			}
			if !rewrite(f, stream[f.start:f.start+t]) {
				return nil
			}
		}
		d.file, d.off, d.strict = fi, f.start+t, false
		s.step("fault %s: file %d of %d cut at %d of %d", faultNames[fault], fi, len(files), t, f.size)
	}
	d.intact = count(d.off)
	if d.strict && d.off >= len(stream) {
		d.intact = len(s.W)
	}
	return d
}

// checkAll reads the whole group from its first file.
func (s *gstate) checkAll(w *consensus.BaseWAL, d *damage) bool {
	grp := w.Group()
	gr, err := grp.NewReader(grp.MinIndex())
	if err != nil {
		s.violate(verdict{"read-open", "group reader cannot be opened", err.Error()})
		return false
	}
	wr := &wrapRead{rd: gr}
	out := decodeLoop(consensus.NewWALDecoder(wr), d != nil, len(s.W)+1200)
	gr.Close()
	what, intact, strict := "an undamaged log", len(s.W), false
	if d != nil {
		what, intact, strict = d.what, d.intact, d.strict
	}
	v := judge(s.W, out, wr.maxReq, intact, strict, what)
	if !v.bad() && d == nil && !errors.Is(out.err, io.EOF) {
		v = verdict{"fault-free", "undamaged log is reported corrupted", fmt.Sprint(out.err)}
	}
	s.step("readall %s -> %d msgs, end kind %d, after %d", what, len(out.msgs), errKind(out.err), len(out.after))
	if v.bad() {
		s.violate(v)
		return !s.failed
	}
	if d != nil && !d.strict && len(out.msgs) > d.intact {
		s.res.Probe("truncated-trailing-zero-bytes-record-still-returned")
	}
	return true
}

// queries: marker heights (a tape-chosen subset when there are many) and heights never written.
func (s *gstate) queries(dups bool) []int64 {
	var qs []int64
	hs := s.heights
	if len(hs) > 8 {
		p := s.tape.Perm(len(hs))
		var sub []int64
		for _, i := range p[:6] {
			sub = append(sub, hs[i])
		}
		sub = append(sub, hs[0], hs[len(hs)-1])
		hs = sub
	}
	for _, x := range hs {
		if dups || len(s.markers[x]) == 1 {
			qs = append(qs, x)
		}
	}
	top := s.heights[len(s.heights)-1]
	qs = append(qs, top+1, -1)
	for x := top - 1; x > 0 && x > top-6; x-- {
		if len(s.markers[x]) == 0 {
			qs = append(qs, x) // a gap between written heights
			break
		}
	}
	return qs
}

// checkSearch runs SearchForEndHeight(q) and judges result and continuation.
func (s *gstate) checkSearch(w *consensus.BaseWAL, q int64, ign bool, d *damage) (ok bool, found bool) {
	var rd io.ReadCloser
	var err error
	panicked := ""
	func() {
		defer func() {
			if r := recover(); r != nil {
				panicked = fmt.Sprint(r)
			}
		}()
		rd, found, err = w.SearchForEndHeight(q, &consensus.WALSearchOptions{IgnoreDataCorruptionErrors: ign})
	}()
	ctx := "an undamaged log"
	if d != nil {
		ctx = d.what
	}
	s.step("search %d ignore=%v on %s -> found=%v err=%v", q, ign, ctx, found, err != nil)
	if panicked != "" {
		s.violate(verdict{"panic", "end-height search panics on " + ctx + ": " + firstLine(panicked), panicked})
		return false, false
	}
	if found && rd == nil || found && err != nil {
		s.violate(verdict{"search", "end-height search reports found without a usable reader", fmt.Sprintf("height %d err %v", q, err)})
		return false, false
	}
	ks := s.markers[q]
	if found && len(ks) == 0 {
		rd.Close()
		s.violate(verdict{"search-found-unwritten", "end-height search finds a height that was never written on " + ctx, fmt.Sprintf("height %d", q)})
		return false, false
	}
	if err != nil && (d == nil || !consensus.IsDataCorruptionError(err)) {
		s.violate(verdict{"search", "end-height search fails with an error that is not a corruption error on " + ctx, fmt.Sprintf("height %d: %v", q, err)})
		return false, false
	}
	if !found {
		must := len(ks) > 0 && d == nil
		why := ""
		if d != nil && len(ks) == 1 {
			k := ks[0]
			switch {
			case d.fileOf[k] > d.file:
				must, why = true, " (marker lies in an undamaged later file)"
			case d.ends[k] <= d.off && (ign || err == nil):
				must, why = true, " (marker lies before the damage)"
			}
		}
		if must {
			s.violate(verdict{"search-missed", "end-height search does not find a written height on " + ctx + why,
				fmt.Sprintf("height %d ignore=%v err=%v; marker is record %d of %d", q, ign, err, ks[0], len(s.W))})
			return false, false
		}
		return true, false
	}
	// found: the reader must continue with the record right after the marker
	wr := &wrapRead{rd: rd}
	out := decodeLoop(consensus.NewWALDecoder(wr), false, len(s.W)+4)
	rd.Close()
	var last verdict
	for _, k := range ks {
		rest := s.W[k+1:]
		intact, strict, what := len(rest), false, "the reader positioned by an end-height search on "+ctx
		if d != nil {
			intact, strict = d.intact-(k+1), d.strict
			if d.fileOf[k] > d.file {
				intact, strict = len(rest), false
			} else if intact < 0 {
				intact, strict = 0, false
			}
		}
		last = judge(rest, out, wr.maxReq, intact, strict, what)
		if !last.bad() && d == nil && !errors.Is(out.err, io.EOF) {
			last = verdict{"fault-free", "undamaged log is reported corrupted after an end-height search", fmt.Sprint(out.err)}
		}
		if !last.bad() {
			return true, true
		}
	}
	last.detail = fmt.Sprintf("search for height %d (ignore=%v): %s", q, ign, last.detail)
	s.violate(last)
	return !s.failed, true
}
