package walsim

// Mode "small": one log of at most ~4 KB written by the real WALEncoder; its whole
// truncation space, its whole single-bit-flip space and a set of value classes for the
// length and CRC field of every record are enumerated, each damaged image is decoded
// by the real WALDecoder (two reader behaviours) and repaired by the real repairWalFile.

import (
	"bytes"
	"encoding/binary"
	"errors"
	"fmt"
	"io"
	"os"
	"path/filepath"
	"runtime"
	"strings"
	"time"

	"verif/sim/core"

	"github.com/kardiachain/go-kardia/consensus"
)

func protectedEncode(enc *consensus.WALEncoder, m *consensus.TimedWALMessage) (err error, panicked string) {
	defer func() {
		if r := recover(); r != nil {
			panicked = fmt.Sprint(r)
		}
	}()
	return enc.Encode(m), ""
}

// limitProbe: a message of exactly the maximum size is written and read back; one byte more is refused.
func limitProbe() verdict {
	t0 := time.Unix(946684800, 0).UTC()
	m, err := paddedRoundState(t0, limit)
	if err != nil {
		return verdict{"harness", "", err.Error()}
	}
	var buf bytes.Buffer
	err, p := protectedEncode(consensus.NewWALEncoder(&buf), &consensus.TimedWALMessage{Time: t0, Msg: m})
	if p != "" {
		return verdict{"panic", "encoder panics on a message of exactly the maximum size: " + firstLine(p), p}
	}
	if err != nil {
		return verdict{"write-refused", "encoder refuses a message of exactly the maximum size", err.Error()}
	}
	rd := &cread{b: buf.Bytes()}
	out := decodeLoop(consensus.NewWALDecoder(rd), false, 3)
	W := []*wrec{{kind: "roundstate", msg: m, t: t0}}
	if v := judge(W, out, rd.maxReq, 1, false, "an undamaged log holding one maximum-size message"); v.bad() {
		return v
	}
	if !errors.Is(out.err, io.EOF) {
		return verdict{"fault-free", "undamaged log holding one maximum-size message is reported corrupted", fmt.Sprint(out.err)}
	}
	m1, err := paddedRoundState(t0, limit+1)
	if err != nil {
		return verdict{"harness", "", err.Error()}
	}
	n := buf.Len()
	err, p = protectedEncode(consensus.NewWALEncoder(&buf), &consensus.TimedWALMessage{Time: t0, Msg: m1})
	if p != "" {
		return verdict{"panic", "encoder panics on a message one byte above the maximum size: " + firstLine(p), p}
	}
	if err == nil {
		return verdict{"max-size-write", "encoder accepts a message above the maximum size", fmt.Sprintf("payload %d bytes, limit %d", limit+1, limit)}
	}
	if buf.Len() != n {
		return verdict{"max-size-write", "encoder refuses an oversized message but writes bytes", fmt.Sprintf("%d bytes written", buf.Len()-n)}
	}
	return verdict{}
}

type smallLog struct {
	W    []*wrec
	ends []int // end offset of every record
	img  []byte
}

func (l *smallLog) start(i int) int {
	if i == 0 {
		return 0
	}
	return l.ends[i-1]
}

func errKind(err error) uint64 {
	switch {
	case err == nil:
		return 0
	case errors.Is(err, io.EOF):
		return 1
	case consensus.IsDataCorruptionError(err):
		return 2
	}
	return 3
}

func runSmall(tape *core.Tape, opt core.Options, res *core.RunResult, h, ah *core.Hasher) {
	g := gen{tape}
	fail := func(v verdict) {
		if v.oracle == "harness" {
			res.Infra = v.detail
			return
		}
		res.Violate(prop, v.oracle, v.sig, v.detail)
	}
	if v := limitProbe(); v.bad() {
		fail(v)
		return
	}
	res.Probe("max-size-roundtrip")

	// ---- build the log with the real encoder
	target := opt.Int("maxlog", 4096)
	nrec := tape.Range(3, 28)
	var buf bytes.Buffer
	enc := consensus.NewWALEncoder(&buf)
	l := &smallLog{}
	var kinds []string
	identical := true
	height := int64(0)
	for i := 0; i < nrec; i++ {
		var kind string
		var m consensus.WALMessage
		switch {
		case i == 0:
			kind, m = "endheight", consensus.EndHeightMessage{Height: 0}
		case tape.Chance(1, 5):
			height += int64(tape.Range(1, 3))
			kind, m = "endheight", consensus.EndHeightMessage{Height: height}
		default:
			kind, m = g.small()
		}
		t := g.ts()
		pay, err := refPayload(t, m)
		if err != nil {
			res.Infra = err.Error()
			return
		}
		if buf.Len()+8+len(pay) > target {
			break
		}
		before := buf.Len()
		err, p := protectedEncode(enc, &consensus.TimedWALMessage{Time: t, Msg: m})
		if p != "" {
			fail(verdict{"panic", "encoder panics on a valid " + kind + " message: " + firstLine(p), p})
			return
		}
		if err != nil {
			fail(verdict{"write-refused", "encoder refuses a valid " + kind + " message within the size limit", err.Error() + " " + brief(m)})
			return
		}
		rec := buf.Bytes()[before:]
		if len(rec) < 8 || int(binary.BigEndian.Uint32(rec[4:8])) != len(rec)-8 ||
			binary.BigEndian.Uint32(rec[0:4]) != crcOf(rec[8:]) {
			fail(verdict{"format", "encoded record does not carry the documented CRC-32C + length header", fmt.Sprintf("%s -> % x", brief(m), rec[:min(len(rec), 16)])})
			return
		}
		if !bytes.Equal(rec[8:], pay) {
			identical = false
		}
		l.W = append(l.W, &wrec{kind: kind, msg: m, t: t, size: len(rec) - 8})
		l.ends = append(l.ends, buf.Len())
		kinds = append(kinds, kind)
		ah.Add(kind)
		res.Tracef("rec %d [%d,%d) %s", len(l.W)-1, before, buf.Len(), brief(m))
	}
	l.img = append([]byte(nil), buf.Bytes()...)
	h.AddBytes(l.img)
	if identical {
		res.Probe("payload-identical-to-reference-encoding")
	}
	res.Sample = map[string]interface{}{"mode": "small", "bytes": len(l.img), "records": kinds}
	W := l.W
	maxIter := len(W) + (len(l.img)+700)/8 + 8

	// ---- fault-free
	for f := 0; f < 2; f++ {
		rd := &cread{b: l.img, flavour: f}
		out := decodeLoop(consensus.NewWALDecoder(rd), false, maxIter)
		if v := judge(W, out, rd.maxReq, len(W), false, "an undamaged log"); v.bad() {
			fail(v)
			return
		}
		if !errors.Is(out.err, io.EOF) {
			fail(verdict{"fault-free", "undamaged log is reported corrupted", fmt.Sprint(out.err)})
			return
		}
	}

	work := append([]byte(nil), l.img...)
	dir := filepath.Join(opt.Scratch, fmt.Sprintf("small-%d", opt.RunIndex))
	os.RemoveAll(dir)
	if err := os.MkdirAll(dir, 0o700); err != nil {
		res.Infra = err.Error()
		return
	}
	defer os.RemoveAll(dir)
	repairEvery := opt.Int("repairflipstride", 1)

	var acc uint64
	// one case: decode with both reader behaviours; optionally repair.
	runCase := func(W []*wrec, img []byte, intact int, strict bool, what string, dataFlip bool, repair bool) bool {
		for f := 0; f < 2; f++ {
			rd := &cread{b: img, flavour: f}
			out := decodeLoop(consensus.NewWALDecoder(rd), true, maxIter)
			res.Steps++
			acc = acc*1099511628211 ^ (uint64(len(out.msgs))<<8 | errKind(out.err) | uint64(len(out.after))<<24)
			v := judge(W, out, rd.maxReq, intact, strict, what)
			if !v.bad() && dataFlip {
				if dce, ok := out.err.(consensus.DataCorruptionError); ok && !strings.Contains(strings.ToLower(dce.Cause().Error()), "checksum") {
					v = verdict{"crc-first", "a flipped payload bit is not reported by the checksum comparison (payload decoded before the CRC is validated)", dce.Error()}
				}
			}
			if v.bad() {
				v.detail = fmt.Sprintf("%s | reader behaviour %d, log %d bytes, %d records, %d intact before the damage", v.detail, f, len(l.img), len(W), intact)
				fail(v)
				return false
			}
			if !strict && len(out.msgs) > intact {
				res.Probe("truncated-trailing-zero-bytes-record-still-returned")
			}
		}
		if repair {
			if v := repairCase(dir, W, img, intact, strict, what); v.bad() {
				fail(v)
				return false
			}
			res.Probe("repairs")
		}
		return true
	}

	// ---- every truncation offset
	ri := 0
	for t := 0; t < len(l.img); t++ {
		for ri < len(l.ends) && l.ends[ri] <= t {
			ri++
		}
		res.Tracef("truncate at %d", t)
		if !runCase(W, l.img[:t], ri, false, "a truncated log", false, true) {
			return
		}
		res.TraceTail = res.TraceTail[:len(res.TraceTail)-1]
		res.Probe("truncations")
	}
	res.Fault("truncation")
	h.Add("trunc", fmt.Sprint(acc))

	// ---- every single-bit flip
	ri = 0
	for o := 0; o < len(work); o++ {
		for ri < len(l.ends) && l.ends[ri] <= o {
			ri++
		}
		inData := o >= l.start(ri)+8
		for b := 0; b < 8; b++ {
			work[o] ^= 1 << uint(b)
			res.Tracef("flip byte %d bit %d (record %d)", o, b, ri)
			ok := runCase(W, work, ri, true, "a log with one flipped bit", inData, b == (o*5+3)%8 && o%repairEvery == 0)
			work[o] ^= 1 << uint(b)
			if !ok {
				return
			}
			res.TraceTail = res.TraceTail[:len(res.TraceTail)-1]
			res.Probe("bitflips")
		}
	}
	res.Fault("bit-flip")
	h.Add("flips", fmt.Sprint(acc))

	// ---- value classes of every record's length and CRC field
	for i := range W {
		s := l.start(i)
		for fi, field := range []string{"CRC", "length"} {
			off := s + 4*fi
			orig := binary.BigEndian.Uint32(l.img[off : off+4])
			for _, v := range []uint32{0, 1, orig - 1, orig + 1, limit - 24, limit - 23, limit, limit + 1, 1 << 31, 1<<32 - 1} {
				if v == orig {
					continue
				}
				binary.BigEndian.PutUint32(work[off:off+4], v)
				res.Tracef("record %d %s field %d -> %d", i, field, orig, v)
				var m0, m1 runtime.MemStats
				runtime.ReadMemStats(&m0)
				ok := runCase(W, work, i, true, "a log with a changed "+field+" field", false, true)
				runtime.ReadMemStats(&m1)
				binary.BigEndian.PutUint32(work[off:off+4], orig)
				if !ok {
					return
				}
				// two decode passes + one repair = at most three payload buffers of the maximum size
				if d := m1.TotalAlloc - m0.TotalAlloc; d > 3*(limit+1<<20) {
					fail(verdict{"allocation", "decoder allocates beyond the message size limit on a log with a changed " + field + " field",
						fmt.Sprintf("record %d %s field %d -> %d: %d bytes allocated while decoding a %d-byte log", i, field, orig, v, d, len(l.img))})
					return
				}
				res.TraceTail = res.TraceTail[:len(res.TraceTail)-1]
				res.Probe(strings.ToLower(field) + "-field-classes")
			}
		}
	}
	res.Fault("length-field")
	res.Fault("crc-field")
	h.Add("fields", fmt.Sprint(acc))

	// ---- sampled suffixes: garbage, zero-filled tail, partial copy of a record
	for k := 0; k < 12; k++ {
		var sfx []byte
		var what string
		pi := 0
		switch k % 3 {
		case 0:
			sfx, what = g.fill(tape.Range(1, 64)), "a log with a garbage suffix"
			if allZero(sfx) {
				what = "a log with a zero-filled tail"
			}
		case 1:
			sfx, what = make([]byte, tape.Range(1, 600)), "a log with a zero-filled tail"
		default:
			pi = tape.Draw(len(W))
			rec := l.img[l.start(pi):l.ends[pi]]
			sfx, what = append([]byte(nil), rec[:tape.Range(1, len(rec)-1)]...), "a log followed by a partial record"
		}
		img := append(append([]byte(nil), l.img...), sfx...)
		res.Tracef("suffix %q len %d", what, len(sfx))
		// a partial copy that only lacks zero bytes may legitimately be read as that (written) message once more
		if k%3 == 2 {
			Wx := append(append([]*wrec(nil), W...), W[pi])
			if !runCase(Wx, img, len(W), false, what, false, true) {
				return
			}
			res.TraceTail = res.TraceTail[:len(res.TraceTail)-1]
			res.Probe("suffix-partial-record")
			continue
		}
		if !runCase(W, img, len(W), true, what, false, true) {
			return
		}
		res.TraceTail = res.TraceTail[:len(res.TraceTail)-1]
		res.Probe("suffixes")
	}
	res.Fault("suffix")
	h.Add("suffix", fmt.Sprint(acc))

	res.NonTrivial = len(W) >= 3
}

func allZero(b []byte) bool {
	for _, x := range b {
		if x != 0 {
			return false
		}
	}
	return true
}

func crcOf(b []byte) uint32 {
	r := refRecord(b)
	return binary.BigEndian.Uint32(r[0:4])
}

// repairCase runs the real repairWalFile on a damaged image and judges its output.
func repairCase(dir string, W []*wrec, img []byte, intact int, strict bool, what string) (v verdict) {
	src, dst := filepath.Join(dir, "wal.CORRUPTED"), filepath.Join(dir, "wal")
	if err := os.WriteFile(src, img, 0o600); err != nil {
		return verdict{"harness", "", err.Error()}
	}
	// as ConsensusState.OnStart does it: the damaged log is COPIED to wal.CORRUPTED and repaired
	// back into its own, still existing, file
	if err := os.WriteFile(dst, img, 0o600); err != nil {
		return verdict{"harness", "", err.Error()}
	}
	var rerr error
	panicked := ""
	func() {
		defer func() {
			if r := recover(); r != nil {
				panicked = fmt.Sprint(r)
			}
		}()
		rerr = consensus.VerifWalRepairWalFile(src, dst)
	}()
	if panicked != "" {
		return verdict{"panic", "repair panics on " + what + ": " + firstLine(panicked), panicked}
	}
	if rerr != nil {
		return verdict{"repair", "repair fails on " + what, rerr.Error()}
	}
	got, err := os.ReadFile(dst)
	if err != nil {
		return verdict{"repair", "repair leaves no output file on " + what, err.Error()}
	}
	rd := &cread{b: got}
	out := decodeLoop(consensus.NewWALDecoder(rd), false, len(W)+4)
	v = judge(W, out, rd.maxReq, intact, strict, "the repaired copy of "+what)
	if v.bad() {
		if v.oracle == "prefix-lost" || v.oracle == "undetected" || v.oracle == "not-written" || v.oracle == "gap" {
			v.oracle = "repair"
			v.sig = "repair does not keep exactly the longest valid prefix: " + v.sig
		}
		return v
	}
	ends, clean := refSplit(got)
	if !clean || len(ends) != len(out.msgs) || !errors.Is(out.err, io.EOF) {
		return verdict{"repair", "repaired log is not a clean sequence of whole records", fmt.Sprintf("%d whole records by framing, %d decoded, clean=%v, end=%v", len(ends), len(out.msgs), clean, out.err)}
	}
	return verdict{}
}
