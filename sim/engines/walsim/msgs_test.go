package walsim

// Message generation, the independent reference encoding (record framing) and
// field-by-field comparison of WAL messages.

import (
	"bytes"
	"encoding/binary"
	"fmt"
	"hash/crc32"
	"math"
	"time"

	"verif/sim/core"

	"github.com/kardiachain/go-kardia/consensus"
	cstypes "github.com/kardiachain/go-kardia/consensus/types"
	"github.com/kardiachain/go-kardia/lib/common"
	"github.com/kardiachain/go-kardia/lib/merkle"
	"github.com/kardiachain/go-kardia/lib/p2p"
	kcons "github.com/kardiachain/go-kardia/proto/kardiachain/consensus"
	kcrypto "github.com/kardiachain/go-kardia/proto/kardiachain/crypto"
	kproto "github.com/kardiachain/go-kardia/proto/kardiachain/types"
	"github.com/kardiachain/go-kardia/types"
)

type (
	msgInfo     = consensus.VerifWalMsgInfo
	timeoutInfo = consensus.VerifWalTimeoutInfo
)

// limit is the product's declared maximum size of one encoded WAL message.
const limit = consensus.VerifWalMaxMsgSizeBytes

// wrec is one written record as the model remembers it.
type wrec struct {
	kind string
	msg  consensus.WALMessage
	t    time.Time
	size int // reference size of the encoded payload (without the 8-byte header)
}

type gen struct{ t *core.Tape }

func (g gen) u64() uint64 {
	switch g.t.Weighted(6, 3, 1, 1) {
	case 0:
		return uint64(g.t.Draw(100))
	case 1:
		return uint64(g.t.Draw(1 << 20))
	case 2:
		return g.t.Uint64()
	default:
		return []uint64{math.MaxUint64, math.MaxInt64, math.MaxInt64 + 1, 1 << 32, 1 << 63}[g.t.Draw(5)]
	}
}

func (g gen) u32() uint32 {
	switch g.t.Weighted(6, 3, 1) {
	case 0:
		return uint32(g.t.Draw(20))
	case 1:
		return uint32(g.t.Draw(1 << 16))
	default:
		return []uint32{math.MaxUint32, math.MaxInt32, math.MaxInt32 + 1, 1 << 16}[g.t.Draw(4)]
	}
}

// partsTotal: the part count of a block id in a message the node can have logged. Every message
// passes ValidateBasic before it reaches the consensus state and its log, and that refuses part
// counts above types.MaxBlockPartsCount.
func (g gen) partsTotal() uint32 {
	switch g.t.Weighted(6, 3, 1) {
	case 0:
		return uint32(g.t.Draw(20))
	case 1:
		return uint32(g.t.Draw(types.MaxBlockPartsCount + 1))
	default:
		return []uint32{types.MaxBlockPartsCount, types.MaxBlockPartsCount - 1, 1}[g.t.Draw(3)]
	}
}

// fill returns n bytes from a tape-chosen pattern (a few draws, whatever n is).
func (g gen) fill(n int) []byte {
	b := make([]byte, n)
	switch g.t.Weighted(1, 1, 1, 5) {
	case 0:
	case 1:
		for i := range b {
			b[i] = 0xFF
		}
	case 2:
		for i := range b {
			b[i] = byte(i)
		}
	default:
		x := uint64(g.t.Draw(1 << 16))
		for i := 0; i < n; i += 8 {
			x = core.SplitMix64(x)
			var w [8]byte
			binary.LittleEndian.PutUint64(w[:], x)
			copy(b[i:], w[:])
		}
	}
	return b
}

func (g gen) hash(nonzero bool) common.Hash {
	h := common.BytesToHash(g.fill(32))
	if nonzero && h.IsZero() {
		h[31] = 1
	}
	return h
}

func (g gen) blockID(complete bool) types.BlockID {
	if !complete {
		return types.BlockID{}
	}
	return types.BlockID{Hash: g.hash(true), PartsHeader: types.PartSetHeader{Total: g.partsTotal(), Hash: g.hash(true)}}
}

func (g gen) ts() time.Time {
	switch g.t.Weighted(5, 1, 1, 1) {
	case 0:
		return time.Unix(946684800+int64(g.t.Draw(1<<30)), int64(g.t.Draw(1000))*1000003%1e9).UTC()
	case 1:
		return time.Time{}
	case 2:
		return time.Unix(0, 0).UTC()
	default:
		return time.Date(9999, 12, 31, 23, 59, 59, 999999999, time.UTC)
	}
}

func (g gen) sig() []byte { return g.fill(g.t.Range(1, 96)) }

func (g gen) peer() p2p.ID {
	if g.t.Chance(1, 3) {
		return "" // internal message
	}
	const hexd = "0123456789abcdef"
	n := g.t.Range(1, 40)
	b := g.fill(n)
	for i := range b {
		b[i] = hexd[b[i]&15]
	}
	return p2p.ID(b)
}

var stepNames = []string{"RoundStepNewHeight", "RoundStepNewRound", "RoundStepPropose", "RoundStepPrevote",
	"RoundStepPrevoteWait", "RoundStepPrecommit", "RoundStepPrecommitWait", "RoundStepCommit", ""}

func (g gen) roundState() (string, consensus.WALMessage) {
	return "roundstate", types.EventDataRoundState{Height: g.u64(), Round: g.u32(), Step: stepNames[g.t.Draw(len(stepNames))]}
}

func (g gen) timeout() (string, consensus.WALMessage) {
	var d time.Duration
	switch g.t.Weighted(4, 2, 1) {
	case 0:
		d = time.Duration(g.t.Draw(10000)) * time.Millisecond
	case 1:
		d = time.Duration(g.t.Uint64())
	default:
		d = []time.Duration{math.MaxInt64, math.MinInt64, -1}[g.t.Draw(3)]
	}
	return "timeout", timeoutInfo{Duration: d, Height: g.u64(), Round: g.u32(), Step: cstypes.RoundStepType(g.t.Draw(256))}
}

func (g gen) vote() (string, consensus.WALMessage) {
	v := &types.Vote{
		ValidatorAddress: common.BytesToAddress(g.fill(20)),
		ValidatorIndex:   g.u32(),
		Height:           g.u64(),
		Round:            g.u32(),
		Timestamp:        g.ts(),
		Type:             kproto.SignedMsgType(1 + g.t.Draw(2)),
		BlockID:          g.blockID(g.t.Chance(2, 3)),
		Signature:        g.sig(),
	}
	return "vote", msgInfo{Msg: &consensus.VoteMessage{Vote: v}, PeerID: g.peer()}
}

func (g gen) proposal() (string, consensus.WALMessage) {
	p := &types.Proposal{Height: g.u64(), Round: g.u32(), POLRound: g.u32(), Timestamp: g.ts(),
		POLBlockID: g.blockID(true), Signature: g.sig()}
	return "proposal", msgInfo{Msg: &consensus.ProposalMessage{Proposal: p}, PeerID: g.peer()}
}

// blockPart: nBytes payload bytes, nAunts proof hashes.
func (g gen) blockPart(nBytes, nAunts int) (string, consensus.WALMessage) {
	part := &types.Part{Index: g.u32(), Bytes: g.fill(nBytes),
		Proof: merkle.SimpleProof{Total: g.u64(), Index: g.u64(), LeafHash: g.fill(32)}}
	if nAunts > 0 {
		all := g.fill(32 * nAunts)
		for i := 0; i < nAunts; i++ {
			part.Proof.Aunts = append(part.Proof.Aunts, all[32*i:32*i+32])
		}
	}
	return "blockpart", msgInfo{Msg: &consensus.BlockPartMessage{Height: g.u64(), Round: g.u32(), Part: part}, PeerID: g.peer()}
}

// small draws a message of any kind with a small encoding (tens to a few hundred bytes).
func (g gen) small() (string, consensus.WALMessage) {
	switch g.t.Weighted(3, 3, 4, 2, 3) {
	case 0:
		return g.roundState()
	case 1:
		return g.timeout()
	case 2:
		return g.vote()
	case 3:
		return g.proposal()
	default:
		return g.blockPart([]int{0, 1, 17, 120, 300}[g.t.Draw(5)], g.t.Draw(4))
	}
}

// ---------------- independent reference encoding ----------------

var castagnoli = crc32.MakeTable(crc32.Castagnoli)

func refBlockID(b types.BlockID) kproto.BlockID {
	return kproto.BlockID{Hash: b.Hash[:], PartSetHeader: kproto.PartSetHeader{Total: b.PartsHeader.Total, Hash: b.PartsHeader.Hash[:]}}
}

func refProto(m consensus.WALMessage) (*kcons.WALMessage, error) {
	switch x := m.(type) {
	case consensus.EndHeightMessage:
		return &kcons.WALMessage{Sum: &kcons.WALMessage_EndHeight{EndHeight: &kcons.EndHeight{Height: x.Height}}}, nil
	case types.EventDataRoundState:
		return &kcons.WALMessage{Sum: &kcons.WALMessage_EventDataRoundState{EventDataRoundState: &kproto.EventDataRoundState{Height: x.Height, Round: x.Round, Step: x.Step}}}, nil
	case timeoutInfo:
		return &kcons.WALMessage{Sum: &kcons.WALMessage_TimeoutInfo{TimeoutInfo: &kcons.TimeoutInfo{Duration: x.Duration, Height: x.Height, Round: x.Round, Step: uint32(x.Step)}}}, nil
	case msgInfo:
		var cm kcons.Message
		switch y := x.Msg.(type) {
		case *consensus.VoteMessage:
			v := y.Vote
			cm.Sum = &kcons.Message_Vote{Vote: &kcons.Vote{Vote: &kproto.Vote{Type: v.Type, Height: v.Height, Round: v.Round,
				BlockID: refBlockID(v.BlockID), Timestamp: v.Timestamp, ValidatorAddress: v.ValidatorAddress[:],
				ValidatorIndex: v.ValidatorIndex, Signature: v.Signature}}}
		case *consensus.ProposalMessage:
			p := y.Proposal
			cm.Sum = &kcons.Message_Proposal{Proposal: &kcons.Proposal{Proposal: kproto.Proposal{Height: p.Height, Round: p.Round,
				PolRound: p.POLRound, BlockID: refBlockID(p.POLBlockID), Timestamp: p.Timestamp, Signature: p.Signature}}}
		case *consensus.BlockPartMessage:
			pt := y.Part
			cm.Sum = &kcons.Message_BlockPart{BlockPart: &kcons.BlockPart{Height: y.Height, Round: y.Round, Part: kproto.Part{
				Index: pt.Index, Bytes: pt.Bytes, Proof: kcrypto.Proof{Total: pt.Proof.Total, Index: pt.Proof.Index,
					LeafHash: pt.Proof.LeafHash, Aunts: pt.Proof.Aunts}}}}
		default:
			return nil, fmt.Errorf("reference encoder: unknown consensus message %T", x.Msg)
		}
		return &kcons.WALMessage{Sum: &kcons.WALMessage_MsgInfo{MsgInfo: &kcons.MsgInfo{Msg: cm, PeerID: string(x.PeerID)}}}, nil
	}
	return nil, fmt.Errorf("reference encoder: unknown WAL message %T", m)
}

// refPayload is the reference protobuf payload of a timed WAL message.
func refPayload(t time.Time, m consensus.WALMessage) ([]byte, error) {
	pb, err := refProto(m)
	if err != nil {
		return nil, err
	}
	tm := kcons.TimedWALMessage{Time: t, Msg: pb}
	return tm.Marshal()
}

// refRecord frames a payload as documented: 4 bytes CRC-32C, 4 bytes length, payload (big endian).
func refRecord(payload []byte) []byte {
	out := make([]byte, 8+len(payload))
	binary.BigEndian.PutUint32(out[0:4], crc32.Checksum(payload, castagnoli))
	binary.BigEndian.PutUint32(out[4:8], uint32(len(payload)))
	copy(out[8:], payload)
	return out
}

// refSplit cuts a byte stream into records by the documented framing. It returns the
// end offset of every whole record and whether the stream consists of whole, CRC-correct records only.
func refSplit(b []byte) (ends []int, clean bool) {
	pos := 0
	for pos < len(b) {
		if len(b)-pos < 8 {
			return ends, false
		}
		l := int(binary.BigEndian.Uint32(b[pos+4 : pos+8]))
		if l > len(b)-pos-8 {
			return ends, false
		}
		if crc32.Checksum(b[pos+8:pos+8+l], castagnoli) != binary.BigEndian.Uint32(b[pos:pos+4]) {
			return ends, false
		}
		pos += 8 + l
		ends = append(ends, pos)
	}
	return ends, true
}

// paddedRoundState returns a round-state message whose reference payload has exactly
// `target` bytes (padding the free-form Step string).
func paddedRoundState(t time.Time, target int) (consensus.WALMessage, error) {
	pad := target - 64
	if pad < 0 {
		pad = 0
	}
	for i := 0; i < 8; i++ {
		m := types.EventDataRoundState{Height: 7, Round: 1, Step: string(bytes.Repeat([]byte{'s'}, pad))}
		p, err := refPayload(t, m)
		if err != nil {
			return nil, err
		}
		if len(p) == target {
			return m, nil
		}
		pad += target - len(p)
		if pad < 0 {
			return nil, fmt.Errorf("cannot pad to %d", target)
		}
	}
	return nil, fmt.Errorf("padding to %d did not converge", target)
}

// ---------------- comparison ----------------

func sameBlockID(a, b types.BlockID) bool {
	return a.Hash == b.Hash && a.PartsHeader.Total == b.PartsHeader.Total && a.PartsHeader.Hash == b.PartsHeader.Hash
}

func sameAunts(a, b [][]byte) bool {
	if len(a) != len(b) {
		return false
	}
	for i := range a {
		if !bytes.Equal(a[i], b[i]) {
			return false
		}
	}
	return true
}

// sameMsg compares a decoded message with a written one, field by field.
func sameMsg(a, b consensus.WALMessage) bool {
	switch x := a.(type) {
	case consensus.EndHeightMessage:
		y, ok := b.(consensus.EndHeightMessage)
		return ok && x.Height == y.Height
	case types.EventDataRoundState:
		y, ok := b.(types.EventDataRoundState)
		return ok && x.Height == y.Height && x.Round == y.Round && x.Step == y.Step
	case timeoutInfo:
		y, ok := b.(timeoutInfo)
		return ok && x.Duration == y.Duration && x.Height == y.Height && x.Round == y.Round && x.Step == y.Step
	case msgInfo:
		y, ok := b.(msgInfo)
		if !ok || x.PeerID != y.PeerID {
			return false
		}
		switch p := x.Msg.(type) {
		case *consensus.VoteMessage:
			q, ok := y.Msg.(*consensus.VoteMessage)
			if !ok || p.Vote == nil || q.Vote == nil {
				return false
			}
			v, w := p.Vote, q.Vote
			return v.ValidatorAddress == w.ValidatorAddress && v.ValidatorIndex == w.ValidatorIndex && v.Height == w.Height &&
				v.Round == w.Round && v.Timestamp.Equal(w.Timestamp) && v.Type == w.Type && sameBlockID(v.BlockID, w.BlockID) &&
				bytes.Equal(v.Signature, w.Signature)
		case *consensus.ProposalMessage:
			q, ok := y.Msg.(*consensus.ProposalMessage)
			if !ok || p.Proposal == nil || q.Proposal == nil {
				return false
			}
			v, w := p.Proposal, q.Proposal
			return v.Height == w.Height && v.Round == w.Round && v.POLRound == w.POLRound && v.Timestamp.Equal(w.Timestamp) &&
				sameBlockID(v.POLBlockID, w.POLBlockID) && bytes.Equal(v.Signature, w.Signature)
		case *consensus.BlockPartMessage:
			q, ok := y.Msg.(*consensus.BlockPartMessage)
			if !ok || p.Part == nil || q.Part == nil {
				return false
			}
			return p.Height == q.Height && p.Round == q.Round && p.Part.Index == q.Part.Index && bytes.Equal(p.Part.Bytes, q.Part.Bytes) &&
				p.Part.Proof.Total == q.Part.Proof.Total && p.Part.Proof.Index == q.Part.Proof.Index &&
				bytes.Equal(p.Part.Proof.LeafHash, q.Part.Proof.LeafHash) && sameAunts(p.Part.Proof.Aunts, q.Part.Proof.Aunts)
		}
	}
	return false
}

func sameTimed(d *consensus.TimedWALMessage, w *wrec) bool {
	return d != nil && d.Time.Equal(w.t) && sameMsg(d.Msg, w.msg)
}

// brief is a short printable description of a message.
func brief(m consensus.WALMessage) string {
	switch x := m.(type) {
	case consensus.EndHeightMessage:
		return fmt.Sprintf("EndHeight{%d}", x.Height)
	case types.EventDataRoundState:
		s := x.Step
		if len(s) > 24 {
			s = fmt.Sprintf("%s..(%d)", s[:8], len(s))
		}
		return fmt.Sprintf("RoundState{%d/%d/%s}", x.Height, x.Round, s)
	case timeoutInfo:
		return fmt.Sprintf("Timeout{%d %d/%d/%d}", int64(x.Duration), x.Height, x.Round, x.Step)
	case msgInfo:
		switch p := x.Msg.(type) {
		case *consensus.VoteMessage:
			return fmt.Sprintf("Vote{%d/%d t%d idx%d sig%d peer%q}", p.Vote.Height, p.Vote.Round, p.Vote.Type, p.Vote.ValidatorIndex, len(p.Vote.Signature), x.PeerID)
		case *consensus.ProposalMessage:
			return fmt.Sprintf("Proposal{%d/%d pol%d sig%d peer%q}", p.Proposal.Height, p.Proposal.Round, p.Proposal.POLRound, len(p.Proposal.Signature), x.PeerID)
		case *consensus.BlockPartMessage:
			return fmt.Sprintf("BlockPart{%d/%d idx%d bytes%d aunts%d peer%q}", p.Height, p.Round, p.Part.Index, len(p.Part.Bytes), len(p.Part.Proof.Aunts), x.PeerID)
		}
		return fmt.Sprintf("msgInfo{%T}", x.Msg)
	case nil:
		return "nil"
	}
	return fmt.Sprintf("%T", m)
}
