package walsim

// The decoding harness: a counting reader, a protected decode loop, and the
// judgement of one (log, corruption) case.

import (
	"errors"
	"fmt"
	"io"
	"strings"

	"github.com/kardiachain/go-kardia/consensus"
)

// cread serves a byte slice and remembers the largest single Read the decoder asked for.
// flavour 0 behaves like a plain file/bytes reader (short read with nil error, then 0,EOF);
// flavour 1 like the group reader (short final read together with io.EOF, error on empty slice).
type cread struct {
	b       []byte
	pos     int
	flavour int
	maxReq  int
}

func (r *cread) Read(p []byte) (int, error) {
	if len(p) > r.maxReq {
		r.maxReq = len(p)
	}
	if len(p) == 0 {
		if r.flavour == 1 {
			return 0, errors.New("given empty slice")
		}
		if r.pos >= len(r.b) {
			return 0, io.EOF
		}
		return 0, nil
	}
	if r.pos >= len(r.b) {
		return 0, io.EOF
	}
	n := copy(p, r.b[r.pos:])
	r.pos += n
	if r.flavour == 1 && n < len(p) {
		return n, io.EOF
	}
	return n, nil
}

// wrapRead counts the requests made on any reader (used around the group reader).
type wrapRead struct {
	rd     io.Reader
	maxReq int
}

func (w *wrapRead) Read(p []byte) (int, error) {
	if len(p) > w.maxReq {
		w.maxReq = len(p)
	}
	return w.rd.Read(p)
}

type decOut struct {
	msgs     []*consensus.TimedWALMessage // returned before the first error
	err      error                        // the first error (io.EOF, corruption, other)
	after    []*consensus.TimedWALMessage // returned when decoding is continued past corruption errors
	panicked string
	badErr   string // an error that is neither io.EOF nor a DataCorruptionError, or a (nil,nil) result
}

// decodeLoop runs dec until io.EOF. When cont is set it keeps decoding after corruption
// errors (as SearchForEndHeight does with IgnoreDataCorruptionErrors), at most maxIter calls.
func decodeLoop(dec *consensus.WALDecoder, cont bool, maxIter int) (out decOut) {
	defer func() {
		if r := recover(); r != nil {
			out.panicked = fmt.Sprint(r)
		}
	}()
	failed := false
	for i := 0; i < maxIter; i++ {
		m, err := dec.Decode()
		if err == nil {
			if m == nil {
				out.badErr = "Decode returned neither a message nor an error"
				return
			}
			if failed {
				out.after = append(out.after, m)
			} else {
				out.msgs = append(out.msgs, m)
			}
			continue
		}
		if !failed {
			out.err = err
		}
		if errors.Is(err, io.EOF) {
			return
		}
		if !consensus.IsDataCorruptionError(err) {
			out.badErr = "error is neither io.EOF nor a DataCorruptionError: " + err.Error()
			return
		}
		failed = true
		if !cont {
			return
		}
	}
	return
}

// verdict of one case; oracle=="" means fine.
type verdict struct{ oracle, sig, detail string }

func (v verdict) bad() bool { return v.oracle != "" }

// judge checks the outcome of decoding a damaged log against the written records W.
//   intact: number of records that lie wholly before the first damaged byte;
//   strict: the record hit by the damage must not be returned (bit flips, field changes,
//           multi-byte corruption); for truncation it may be returned iff it equals the written one;
//   what:   name of the damage class (goes into the signature).
func judge(W []*wrec, out decOut, maxReq int, intact int, strict bool, what string) verdict {
	if out.panicked != "" {
		return verdict{"panic", "decoder panics on " + what + ": " + firstLine(out.panicked), out.panicked}
	}
	if maxReq > limit {
		return verdict{"allocation", "decoder asks for a read above the message size limit on " + what,
			fmt.Sprintf("largest single read requested: %d bytes, limit %d", maxReq, limit)}
	}
	if out.badErr != "" {
		return verdict{"error-kind", "decoder result on " + what + " is neither end-of-log nor a corruption error", out.badErr}
	}
	for i, m := range out.msgs {
		if i >= len(W) {
			return verdict{"not-written", "decoder returns more messages than were written on " + what,
				fmt.Sprintf("message #%d: %s", i, brief(m.Msg))}
		}
		if !sameTimed(m, W[i]) {
			if i >= intact {
				// is it a later written message (gap) or something never written?
				for j := i + 1; j < len(W); j++ {
					if sameTimed(m, W[j]) {
						sig := "decoder skips written messages silently on " + what
						if strings.Contains(what, "rotated file") {
							sig = "records lost from a rotated file are skipped silently: reading continues with the next file without an error"
						}
						return verdict{"gap", sig,
							fmt.Sprintf("position %d returned written message #%d %s (written at %s); expected #%d %s (written at %s) or an error",
								i, j, brief(m.Msg), W[j].t.Format("15:04:05.000"), i, brief(W[i].msg), W[i].t.Format("15:04:05.000"))}
					}
				}
			}
			return verdict{"not-written", "decoder returns a message that was not written on " + what,
				fmt.Sprintf("position %d: got %s at %v, written %s at %v", i, brief(m.Msg), m.Time, brief(W[i].msg), W[i].t)}
		}
	}
	if len(out.msgs) < intact {
		if strings.Contains(what, "an undamaged") {
			return verdict{"fault-free", "written records are missing when reading " + what,
				fmt.Sprintf("%d records written, %d returned, then %v", intact, len(out.msgs), out.err)}
		}
		return verdict{"prefix-lost", "intact records before the damage are not returned on " + what,
			fmt.Sprintf("%d records precede the damage, %d returned, then %v", intact, len(out.msgs), out.err)}
	}
	if strict && len(out.msgs) > intact {
		return verdict{"undetected", "damaged record is returned as if intact on " + what,
			fmt.Sprintf("record #%d was damaged but returned: %s", intact, brief(out.msgs[intact].Msg))}
	}
	if out.err == nil {
		return verdict{"error-kind", "decoding did not end on " + what, fmt.Sprintf("%d messages and no terminal error", len(out.msgs))}
	}
	// continuation after corruption errors: only written messages, in written order
	j := len(out.msgs)
	for _, m := range out.after {
		found := false
		for ; j < len(W); j++ {
			if sameTimed(m, W[j]) {
				found = true
				j++
				break
			}
		}
		if !found {
			return verdict{"not-written", "decoder continued past a corruption error returns a message that was not written (or out of order) on " + what,
				brief(m.Msg)}
		}
	}
	return verdict{}
}

func firstLine(s string) string {
	if i := strings.IndexByte(s, '\n'); i >= 0 {
		s = s[:i]
	}
	if len(s) > 120 {
		s = s[:120]
	}
	return s
}
