package consensus

// Re-exports for the walsim engine (added through go test -overlay; no logic).

type VerifWalMsgInfo = msgInfo
type VerifWalTimeoutInfo = timeoutInfo

const VerifWalMaxMsgSizeBytes = maxMsgSizeBytes

var VerifWalRepairWalFile = repairWalFile
