package autofile

import "os"

// Re-exports for the walsim engine (added through go test -overlay; no logic).

func (g *Group) VerifWalCheckHeadSizeLimit() { g.checkHeadSizeLimit() }

func (af *AutoFile) VerifWalHupc() chan os.Signal { return af.hupc }
