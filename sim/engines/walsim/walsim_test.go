// Engine walsim (C15): the real consensus WAL (BaseWAL over autofile.Group, WALEncoder,
// WALDecoder, SearchForEndHeight, repairWalFile) against a model that remembers what was written.
//
//	mode "small": exhaustive fault enumeration over one small log per run (small_test.go)
//	mode "group": tape-generated write/rotate/restart histories on the fake clock, read back
//	              fault-free and under one sampled fault (group_test.go)
package walsim

import (
	"fmt"
	"os"
	"os/signal"
	"syscall"
	"testing"

	"verif/sim/core"
)

const prop = "C15"

func init() {
	// lib/autofile calls signal.Notify; the signal package must be initialised outside any synctest bubble.
	signal.Notify(make(chan os.Signal, 1), syscall.SIGHUP)
}

type engine struct{}

func (engine) Name() string { return "walsim" }

func (engine) Run(t *testing.T, tape *core.Tape, opt core.Options) (res *core.RunResult) {
	res = core.NewResult()
	h := core.NewHasher()
	ah := core.NewHasher()
	defer func() {
		res.TraceHash = h.Sum()
		res.AbstractHash = ah.Sum()
	}()
	switch opt.Mode {
	case "small":
		ah.Add("small")
		runSmall(tape, opt, res, h, ah)
	case "group", "":
		ah.Add("group")
		runGroup(t, tape, opt, res, h, ah)
	default:
		res.Infra = fmt.Sprintf("unknown mode %q", opt.Mode)
	}
	return res
}

func TestSim(t *testing.T) { core.Main(t, engine{}) }
