package poolsim

// Reference model of the transaction pool, written from the property text:
// per sender the pool holds a set S of transactions indexed by nonce; what is
// offered (pending) is the maximal gap-free run of S starting at the sender's
// state nonce, the rest is queued. S changes by: accepted submission
// (insert / replace with the required bump), head change (drop nonce < state
// nonce, drop cost > balance, drop gas > block gas limit, re-add reorged-out
// transactions), price change (drop remote transactions below the new price),
// lifetime expiry (a non-local sender's queued transactions may go), restart
// (only what the journal holds comes back). When a configured limit is reached
// the model does not predict which transactions are sacrificed: it marks the
// step "limit" and only demands pool ⊆ model and that local senders lose nothing.

import (
	"fmt"
	"math/big"
	"sort"

	"github.com/kardiachain/go-kardia/lib/common"
	"github.com/kardiachain/go-kardia/types"
)

// txinfo is the harness' own record of a generated transaction (never derived
// from the pool's view of it).
type txinfo struct {
	id         int
	tx         *types.Transaction
	hash       common.Hash
	acct       int
	nonce      uint64
	price      *big.Int
	value      *big.Int
	gas        uint64
	dataLen    int
	nonZero    int
	slots      int
	kind       string
	wrongChain bool
	// why the model does not hold it (for signatures)
	gone string
}

func (ti *txinfo) cost() *big.Int {
	c := new(big.Int).Mul(ti.price, new(big.Int).SetUint64(ti.gas))
	return c.Add(c, ti.value)
}

// intrinsic gas by the protocol's schedule after the fork the chain config
// activates at genesis: 21000 + 4 per zero byte + 68 per non-zero byte.
func (ti *txinfo) intrinsic() uint64 {
	return 21000 + 4*uint64(ti.dataLen-ti.nonZero) + 68*uint64(ti.nonZero)
}

func (ti *txinfo) String() string {
	return fmt.Sprintf("#%d{a%d n%d p%v g%d v%v %s}", ti.id, ti.acct, ti.nonce, ti.price, ti.gas, ti.value, ti.kind)
}

type chainView struct {
	nonce    []uint64
	bal      []*big.Int
	gasLimit uint64
}

func (c *chainView) copy() *chainView {
	n := &chainView{gasLimit: c.gasLimit}
	n.nonce = append(n.nonce, c.nonce...)
	for _, b := range c.bal {
		n.bal = append(n.bal, new(big.Int).Set(b))
	}
	return n
}

type mcfg struct {
	accountSlots, globalSlots, accountQueue, globalQueue int
	priceBump                                            int64
	noLocals                                             bool
	oversize                                             int // data length from which a transaction is certainly oversized
}

type verdict int

const (
	vAccept verdict = iota
	vReject
	vEither
)

func (v verdict) String() string { return [...]string{"accept", "reject", "either"}[v] }

type model struct {
	cfg   mcfg
	st    *chainView
	S     []map[uint64]*txinfo
	local []bool
	price *big.Int
	lflag map[int]bool // by tx id: indexed as local by the pool (submitted locally or sender local at the time)
	spec  bool         // speculative copy (planning): must not touch the shared txinfo records
	limit bool         // a limit was (possibly) hit during the current step
	why   string       // which
}

func newModel(cfg mcfg, st *chainView, n int) *model {
	m := &model{cfg: cfg, st: st, price: big.NewInt(1), lflag: map[int]bool{}}
	for i := 0; i < n; i++ {
		m.S = append(m.S, map[uint64]*txinfo{})
		m.local = append(m.local, false)
	}
	return m
}

func (m *model) clone() *model {
	c := &model{cfg: m.cfg, st: m.st.copy(), price: new(big.Int).Set(m.price), limit: m.limit, why: m.why, spec: true, lflag: map[int]bool{}}
	for k, v := range m.lflag {
		c.lflag[k] = v
	}
	for _, s := range m.S {
		ns := map[uint64]*txinfo{}
		for k, v := range s {
			ns[k] = v
		}
		c.S = append(c.S, ns)
	}
	c.local = append(c.local, m.local...)
	return c
}

func (m *model) setGone(ti *txinfo, why string) {
	if !m.spec {
		ti.gone = why
	}
}

func (m *model) hit(why string) {
	if !m.limit {
		m.limit, m.why = true, why
	}
}

// split returns the offered run and the rest for one sender, by nonce.
func (m *model) split(a int) (pending, queue []*txinfo) {
	n := m.st.nonce[a]
	for {
		ti, ok := m.S[a][n]
		if !ok {
			break
		}
		pending = append(pending, ti)
		n++
	}
	for _, ti := range m.S[a] {
		if ti.nonce < m.st.nonce[a] || ti.nonce >= n {
			queue = append(queue, ti)
		}
	}
	sort.Slice(queue, func(i, j int) bool { return queue[i].nonce < queue[j].nonce })
	return
}

func (m *model) counts() (pend, que, slots int) {
	for a := range m.S {
		p, q := m.split(a)
		pend += len(p)
		que += len(q)
		for _, ti := range m.S[a] {
			slots += ti.slots
		}
	}
	return
}

func (m *model) holds(ti *txinfo) bool {
	if ti.wrongChain {
		return false
	}
	x, ok := m.S[ti.acct][ti.nonce]
	return ok && x.id == ti.id
}

// invalid returns the reasons for which a submission must be refused
// irrespective of what else the pool holds.
func (m *model) invalid(ti *txinfo, local bool) []string {
	var why []string
	if m.holds(ti) {
		why = append(why, "known")
	}
	if ti.dataLen >= m.cfg.oversize {
		why = append(why, "oversized")
	}
	if ti.value.Sign() < 0 {
		why = append(why, "negative-value")
	}
	if ti.gas > m.st.gasLimit {
		why = append(why, "over-block-gas-limit")
	}
	if ti.wrongChain {
		why = append(why, "wrong-chain")
		return why // no sender: the remaining checks are undefined
	}
	if !local && ti.price.Cmp(m.price) < 0 {
		why = append(why, "underpriced")
	}
	if ti.nonce < m.st.nonce[ti.acct] {
		why = append(why, "nonce-too-low")
	}
	if ti.cost().Cmp(m.st.bal[ti.acct]) > 0 {
		why = append(why, "unaffordable")
	}
	if ti.gas < ti.intrinsic() {
		why = append(why, "intrinsic-gas")
	}
	return why
}

// bump classifies a same-nonce replacement: reject below the bump, accept with
// the full bump, either in the sliver where integer rounding of the percentage
// decides.
func (m *model) bump(old, nw *txinfo) verdict {
	if nw.price.Cmp(old.price) <= 0 {
		return vReject
	}
	need := new(big.Int).Mul(old.price, big.NewInt(100+m.cfg.priceBump)) // 100 * required price
	have := new(big.Int).Mul(nw.price, big.NewInt(100))
	if have.Cmp(need) >= 0 {
		return vAccept
	}
	// below the exact percentage; still acceptable only if within rounding (< 1 unit)
	if new(big.Int).Sub(need, have).Cmp(big.NewInt(100)) < 0 {
		return vEither
	}
	return vReject
}

// add applies one submission. It returns the verdict and the reason(s).
// On vEither the caller tells the model what the pool decided (decide()).
func (m *model) add(ti *txinfo, localCall bool) (verdict, string) {
	local := localCall && !m.cfg.noLocals
	isLocal := local
	if !ti.wrongChain && m.local[ti.acct] {
		isLocal = true
	}
	if why := m.invalid(ti, isLocal); len(why) > 0 {
		return vReject, fmt.Sprint(why)
	}
	_, _, slots := m.counts()
	if slots+ti.slots > m.cfg.globalSlots+m.cfg.globalQueue {
		m.hit("pool-full")
		return vEither, "pool-full"
	}
	if old, ok := m.S[ti.acct][ti.nonce]; ok {
		switch m.bump(old, ti) {
		case vReject:
			return vReject, "replace-underpriced"
		case vEither:
			return vEither, "bump-rounding"
		}
	}
	m.accept(ti, localCall)
	return vAccept, ""
}

func (m *model) accept(ti *txinfo, localCall bool) {
	if old, ok := m.S[ti.acct][ti.nonce]; ok {
		m.setGone(old, "replaced")
	}
	m.S[ti.acct][ti.nonce] = ti
	m.setGone(ti, "")
	m.lflag[ti.id] = m.local[ti.acct]
	if localCall && !m.cfg.noLocals {
		m.local[ti.acct] = true
	}
	if m.local[ti.acct] {
		for _, x := range m.S[ti.acct] {
			m.lflag[x.id] = true
		}
	}
}

// settle drops what the chain state invalidates and flags limits.
func (m *model) settle() {
	for a := range m.S {
		for n, ti := range m.S[a] {
			switch {
			case n < m.st.nonce[a]:
				m.setGone(ti, "mined (nonce below the state nonce)")
				delete(m.S[a], n)
			case ti.cost().Cmp(m.st.bal[a]) > 0:
				m.setGone(ti, "unaffordable at the current balance")
				delete(m.S[a], n)
			case ti.gas > m.st.gasLimit:
				m.setGone(ti, "above the block gas limit")
				delete(m.S[a], n)
			}
		}
	}
	m.flagLimits()
}

func (m *model) flagLimits() {
	pend, que, _ := m.counts()
	if pend > m.cfg.globalSlots {
		m.hit("global-slots")
	}
	if que > m.cfg.globalQueue {
		m.hit("global-queue")
	}
	for a := range m.S {
		if _, q := m.split(a); !m.local[a] && len(q) > m.cfg.accountQueue {
			m.hit("account-queue")
		}
	}
}

func (m *model) setPrice(p *big.Int) {
	old := m.price
	m.price = new(big.Int).Set(p)
	if p.Cmp(old) <= 0 {
		return
	}
	for a := range m.S {
		for n, ti := range m.S[a] {
			if !m.lflag[ti.id] && !m.local[a] && ti.price.Cmp(p) < 0 {
				m.setGone(ti, "priced out by SetGasPrice")
				delete(m.S[a], n)
			}
		}
	}
}

func (m *model) all() map[common.Hash]*txinfo {
	out := map[common.Hash]*txinfo{}
	for a := range m.S {
		for _, ti := range m.S[a] {
			out[ti.hash] = ti
		}
	}
	return out
}
