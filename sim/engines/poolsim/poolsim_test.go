// Engine poolsim (C17): the real mainchain/tx_pool.TxPool on a scripted chain
// under testing/synctest, driven by tape-chosen submissions, head changes,
// price changes, time jumps and journal restarts; judged after every quiescent
// point by structural and semantic invariants and (sequential mode) by an
// independent reference model. Mode "ilv" additionally schedules the pool's
// background goroutines and the client calls one step at a time through yield
// points inserted at build time (see yield_sites.json, tools/yieldins).
package poolsim

import (
	"crypto/ecdsa"
	"fmt"
	"math/big"
	"os"
	"path/filepath"
	"runtime/debug"
	"sort"
	"strings"
	"testing"
	"testing/synctest"
	"time"

	"verif/sim/core"

	"github.com/kardiachain/go-kardia/configs"
	"github.com/kardiachain/go-kardia/lib/common"
	"github.com/kardiachain/go-kardia/lib/crypto"
	"github.com/kardiachain/go-kardia/lib/log"
	"github.com/kardiachain/go-kardia/mainchain/tx_pool"
	"github.com/kardiachain/go-kardia/types"
)

const (
	prop       = "C17"
	maxAccts   = 5
	maxOps     = 60
	maxDecide  = 40
	bigData    = 40000  // a valid multi-slot transaction
	hugeData   = 140000 // certainly above the pool's size cap
	sizeCapMin = 131072 // data alone reaches the documented 128 KiB cap
)

var (
	chainID     = big.NewInt(7777)
	otherChain  = big.NewInt(4242)
	forkAtZero  = uint64(0)
	chainCfg    = &configs.ChainConfig{ChainID: chainID, GalaxiasBlock: &forkAtZero}
	goodSigner  = types.NewChainIDSigner(chainID)
	wrongSigner = types.NewChainIDSigner(otherChain)
	keys        []*ecdsa.PrivateKey
	addrs       []common.Address
	sink        = common.HexToAddress("0x00000000000000000000000000000000000051a1")
)

func init() {
	for i := 0; i < maxAccts; i++ {
		k, err := crypto.ToECDSA(crypto.Keccak256([]byte(fmt.Sprintf("verif-poolsim-account-%d", i))))
		if err != nil {
			panic(err)
		}
		keys = append(keys, k)
		addrs = append(addrs, crypto.PubkeyToAddress(k.PublicKey))
	}
	log.Root().SetHandler(log.DiscardHandler())
}

type engine struct{}

func (engine) Name() string { return "poolsim" }

func TestSim(t *testing.T) { core.Main(t, engine{}) }

type run struct {
	tape *core.Tape
	opt  core.Options
	res  *core.RunResult
	h    *core.Hasher
	ah   *core.Hasher
	ops  []string

	nAcc      int
	cfg       tx_pool.TxPoolConfig
	chain     *simChain
	pool      *tx_pool.TxPool
	m         *model
	reg       map[common.Hash]*txinfo
	nextID    int
	usedPN    map[string]int
	journal   string
	start     time.Time
	poolStart time.Time // creation instant of the current pool (its tickers count from here)
	stopped   string
	// global limits exceeded / number of transactions held just before the current submission
	overBefore  bool
	countBefore int
	hard      bool         // a violation that ends the run was recorded
	wasLocal  []bool       // senders that were local before the current operation
	optLocal  bool         // the optional transactions of the current check were local submissions
	dirty     map[int]bool // senders whose queue the pool examined in the last operation

	ilv       bool
	sched     *scheduler
	sites     int
	decisions int
	evictSeen int

	// statistics for the non-triviality rule
	accepted, rejected, adversarial, headDrops, restarts int
	lastAddAllRejected                                   bool
}

func (r *run) step(f string, a ...interface{}) {
	s := fmt.Sprintf(f, a...)
	if len(r.ops) < 40 {
		r.ops = append(r.ops, s)
	}
	r.res.Tracef("%s", s)
	r.h.Add(s)
}

func (r *run) violate(oracle, sig, detail string) {
	if !r.hard {
		r.hard = true
		r.res.Violate(prop, oracle, sig, detail)
	}
}

// soft records a violation (once per oracle and run) without ending the run: used for
// findings the model can follow, so that exploration continues past them once they are
// listed as known.
func (r *run) soft(oracle, sig, detail string) {
	for _, v := range r.res.Violations {
		if v.Oracle == oracle {
			return
		}
	}
	r.res.Violate(prop, oracle, sig, detail)
}

func (engine) Run(t *testing.T, tape *core.Tape, opt core.Options) (res *core.RunResult) {
	res = core.NewResult()
	r := &run{tape: tape, opt: opt, res: res, h: core.NewHasher(), ah: core.NewHasher(),
		reg: map[common.Hash]*txinfo{}, usedPN: map[string]int{}}
	r.ilv = strings.HasPrefix(opt.Mode, "ilv")
	defer func() {
		tx_pool.VerifYield = nil
		res.TraceHash = r.h.Sum()
		res.AbstractHash = r.ah.Sum()
		res.Sample = map[string]interface{}{"ops": r.ops, "mode": opt.Mode, "instrumented_sites": r.sites,
			"limits": fmt.Sprintf("AS%d GS%d AQ%d GQ%d bump%d", r.cfg.AccountSlots, r.cfg.GlobalSlots, r.cfg.AccountQueue, r.cfg.GlobalQueue, r.cfg.PriceBump)}
		res.NonTrivial = r.accepted > 0 && r.adversarial > 0 && res.Steps >= 5
		if d := os.Getenv("POOLSIM_DUMP"); d != "" && d == fmt.Sprint(opt.RunIndex) && !opt.Replay {
			os.WriteFile(os.Getenv("POOLSIM_DUMP_TO"), []byte(strings.Join(res.TraceTail, "\n")+"\n"), 0o644)
		}
	}()
	func() {
		defer func() {
			if p := recover(); p != nil {
				msg := fmt.Sprint(p)
				if strings.Contains(msg, "blocked goroutines remain") {
					if !res.Failed() && res.Infra == "" {
						res.Infra = "goroutines remain blocked in the bubble after Stop: " + msg
					}
					return
				}
				if res.Infra == "" {
					res.Infra = "panic outside the bubble body: " + msg
				}
			}
		}()
		synctest.Test(t, func(t *testing.T) { r.body() })
	}()
	return res
}

// body runs inside the bubble.
func (r *run) body() {
	defer func() {
		if p := recover(); p != nil {
			st := string(debug.Stack())
			if productPanic(st) {
				r.violate("panic", "panic in transaction pool code: "+firstLine(fmt.Sprint(p)), fmt.Sprintf("%v\n%s", p, st))
			} else {
				r.res.Infra = fmt.Sprintf("harness panic: %v\n%s", p, st)
			}
		}
		r.shutdown()
	}()
	r.setup()
	n := r.tape.Range(5, r.opt.Int("ops", maxOps))
	for i := 0; i < n && !r.hard && r.stopped == "" && r.res.Infra == ""; i++ {
		r.res.Steps++
		if r.ilv && r.sites > 0 {
			r.roundInterleaved()
		} else {
			r.opSequential()
		}
	}
	r.res.SimTimeS = time.Since(r.start).Seconds()
	if r.stopped != "" {
		r.res.Probe("stopped:" + r.stopped)
		r.res.Inconclusive = true
	}
}

// productPanic: does the innermost non-runtime frame of the panicking stack
// belong to the product?
func productPanic(stack string) bool {
	lines := strings.Split(stack, "\n")
	seenPanic := false
	for _, l := range lines {
		if strings.HasPrefix(l, "panic(") {
			seenPanic = true
			continue
		}
		if !seenPanic || strings.HasPrefix(l, "\t") || strings.HasPrefix(l, "runtime.") || l == "" {
			continue
		}
		return strings.Contains(l, "github.com/kardiachain/go-kardia/")
	}
	return false
}

func firstLine(s string) string {
	if i := strings.IndexByte(s, '\n'); i >= 0 {
		s = s[:i]
	}
	if len(s) > 120 {
		s = s[:120]
	}
	return s
}

func (r *run) shutdown() {
	if r.sched != nil {
		r.sched.drainAll()
	}
	if r.pool != nil {
		func() {
			defer func() { recover() }()
			r.pool.Stop()
		}()
		r.pool = nil
	}
}

// ---------------------------------------------------------------- setup

func (r *run) setup() {
	t := r.tape
	r.start = time.Now()
	r.nAcc = t.Range(3, maxAccts)
	c := tx_pool.DefaultTxPoolConfig
	c.AccountSlots = uint64(t.Range(2, 4))
	c.GlobalSlots = uint64(t.Range(4, 8))
	c.AccountQueue = uint64(t.Range(2, 4))
	c.GlobalQueue = uint64(t.Range(4, 8))
	if r.ilv {
		r.sched = newScheduler(r)
		r.sites = r.sched.probeSites()
		r.res.Probe(fmt.Sprintf("instrumented_sites=%d", r.sites))
		if r.sites == 0 {
			r.res.Probe("ilv-fallback-sequential")
		}
	}
	if r.ilv && r.sites > 0 {
		// the choice among equal heartbeats in truncateQueue follows Go map order; with
		// interleavings the harness cannot predict it, so the global queue is not made tight
		c.GlobalQueue = 400
	}
	c.PriceLimit = []uint64{1, 5, 10}[t.Weighted(3, 1, 1)]
	c.PriceBump = []uint64{10, 1, 25, 100}[t.Weighted(3, 1, 1, 1)]
	c.Lifetime = []time.Duration{3 * time.Minute, 90 * time.Second, 10 * time.Minute}[t.Draw(3)]
	c.Rejournal = []time.Duration{time.Hour, 30 * time.Second}[t.Draw(2)]
	c.NoLocals = t.Chance(1, 12)
	if t.Chance(1, 8) {
		c.Locals = []common.Address{addrs[0]}
	}
	r.journal = filepath.Join(r.opt.Scratch, "poolsim-journal.rlp")
	os.Remove(r.journal)
	os.Remove(r.journal + ".new")
	c.Journal = r.journal
	if t.Chance(1, 10) {
		c.Journal = ""
	}
	r.cfg = c

	v := &chainView{gasLimit: []uint64{1000000, 100000, 5000000}[t.Weighted(3, 1, 1)]}
	for i := 0; i < r.nAcc; i++ {
		v.nonce = append(v.nonce, uint64(t.Weighted(3, 1, 1, 1)))
		v.bal = append(v.bal, r.drawBalance())
	}
	r.chain = newSimChain(addrs[:r.nAcc], v)
	mc := mcfg{accountSlots: int(c.AccountSlots), globalSlots: int(c.GlobalSlots), accountQueue: int(c.AccountQueue),
		globalQueue: int(c.GlobalQueue), priceBump: int64(c.PriceBump), noLocals: c.NoLocals, oversize: sizeCapMin}
	r.m = newModel(mc, v.copy(), r.nAcc)
	r.m.price = new(big.Int).SetUint64(c.PriceLimit)
	if len(c.Locals) > 0 {
		r.m.local[0] = true
	}
	r.step("setup acc=%d AS=%d GS=%d AQ=%d GQ=%d limit=%d bump=%d life=%v rej=%v nolocals=%v locals=%d journal=%v gaslimit=%d state=%s",
		r.nAcc, c.AccountSlots, c.GlobalSlots, c.AccountQueue, c.GlobalQueue, c.PriceLimit, c.PriceBump, c.Lifetime, c.Rejournal,
		c.NoLocals, len(c.Locals), c.Journal != "", v.gasLimit, fmtView(v))
	r.ah.Add("setup", fmt.Sprint(c.NoLocals, len(c.Locals), c.Journal != ""))

	if r.ilv && r.sites > 0 {
		tx_pool.VerifYield = r.sched.yield
	}
	r.poolStart = time.Now()
	r.pool = tx_pool.NewTxPool(r.cfg, chainCfg, r.chain)
	synctest.Wait()
	r.wasLocal = append([]bool(nil), r.m.local...)
	r.check("setup", nil)
}

func fmtView(v *chainView) string {
	s := ""
	for i := range v.nonce {
		s += fmt.Sprintf("a%d:n%d/b%v ", i, v.nonce[i], v.bal[i])
	}
	return s
}

func (r *run) drawBalance() *big.Int {
	t := r.tape
	switch t.Weighted(10, 3, 2, 1) {
	case 0:
		return big.NewInt(1000000000000)
	case 1: // tight: pays for a plain transfer at a price up to ~40
		return big.NewInt(int64(21000*t.Range(1, 40) + t.Range(0, 2000)))
	case 2:
		return big.NewInt(int64(1000000 * t.Range(1, 9)))
	default:
		return big.NewInt(0)
	}
}

// ---------------------------------------------------------------- transactions

var kinds = []string{"next", "gapped", "fill", "duplicate", "replace-bump", "replace-low", "underpriced", "nonce-low",
	"unaffordable", "wrong-chain", "over-gas-limit", "oversized", "negative", "intrinsic-low", "big", "high-gas"}

// genTx draws one transaction of account a against the model view mv.
func (r *run) genTx(a int, mv *model) *txinfo {
	t := r.tape
	st := mv.st
	pend, _ := mv.split(a)
	next := st.nonce[a] + uint64(len(pend))
	kind := kinds[t.Weighted(12, 4, 3, 2, 4, 4, 2, 2, 2, 1, 1, 1, 1, 1, 1, 2)]
	nonce := next
	price := new(big.Int).Add(mv.price, big.NewInt(int64(t.Range(0, 30))))
	gas := uint64(21000 + 1000*t.Draw(4))
	value := big.NewInt(int64(t.Range(0, 500)))
	var data []byte
	signer := types.Signer(goodSigner)
	existing := func() []*txinfo {
		var l []*txinfo
		for _, ti := range mv.S[a] {
			l = append(l, ti)
		}
		sort.Slice(l, func(i, j int) bool { return l[i].nonce < l[j].nonce })
		return l
	}
	switch kind {
	case "gapped":
		nonce = next + uint64(t.Range(1, 3))
	case "fill":
		// lowest missing nonce below the highest one held
		ex := existing()
		if len(ex) > 0 {
			for n := st.nonce[a]; n < ex[len(ex)-1].nonce; n++ {
				if _, ok := mv.S[a][n]; !ok {
					nonce = n
					break
				}
			}
		}
	case "duplicate":
		if ex := existing(); len(ex) > 0 {
			return ex[t.Draw(len(ex))]
		}
		kind = "next"
	case "replace-bump", "replace-low":
		ex := existing()
		if len(ex) == 0 {
			kind = "next"
			break
		}
		old := ex[t.Draw(len(ex))]
		nonce = old.nonce
		need := new(big.Int).Mul(old.price, big.NewInt(100+mv.cfg.priceBump))
		need.Add(need, big.NewInt(99))
		need.Div(need, big.NewInt(100)) // ceil(old * (100+bump) / 100)
		if need.Cmp(old.price) <= 0 {
			need.Add(old.price, big.NewInt(1))
		}
		if kind == "replace-bump" {
			price = need.Add(need, big.NewInt(int64(t.Weighted(4, 1, 1))))
		} else {
			switch t.Weighted(3, 2, 2, 1) {
			case 0: // just below the requirement
				price = need.Sub(need, big.NewInt(1))
			case 1: // same price
				price = new(big.Int).Set(old.price)
			case 2: // a little more than before but not enough
				price = new(big.Int).Add(old.price, big.NewInt(1))
			default: // cheaper
				price = new(big.Int).Sub(old.price, big.NewInt(int64(t.Range(1, 3))))
				if price.Sign() < 0 {
					price.SetInt64(0)
				}
			}
		}
	case "underpriced":
		price = big.NewInt(int64(t.Draw(int(mv.price.Int64()))))
	case "nonce-low":
		if st.nonce[a] == 0 {
			kind = "next"
		} else {
			nonce = st.nonce[a] - 1 - uint64(t.Draw(int(st.nonce[a])))
		}
	case "unaffordable":
		value = new(big.Int).Add(st.bal[a], big.NewInt(int64(1+t.Draw(3))))
		if t.Chance(1, 2) { // only the fee is too much
			c := new(big.Int).Mul(price, new(big.Int).SetUint64(gas))
			if c.Cmp(st.bal[a]) <= 0 {
				value = new(big.Int).Sub(st.bal[a], c)
				value.Add(value, big.NewInt(1))
			} else {
				value = big.NewInt(0)
			}
		}
	case "wrong-chain":
		signer = wrongSigner
		if t.Chance(1, 2) {
			// costs nothing: whatever address a sloppy check derives, its balance suffices
			price, value = big.NewInt(0), big.NewInt(0)
		}
	case "over-gas-limit":
		gas = st.gasLimit + 1 + uint64(t.Draw(1000))
	case "oversized":
		data = make([]byte, hugeData)
		gas = 21000 + 4*hugeData
	case "negative":
		value = big.NewInt(-int64(1 + t.Draw(5)))
	case "intrinsic-low":
		gas = 20999 - uint64(t.Draw(100))
	case "big":
		data = make([]byte, bigData)
		gas = 21000 + 4*bigData + uint64(t.Draw(3))*1000
	case "high-gas":
		gas = []uint64{60000, 200000, 99000}[t.Draw(3)]
	}
	// Two live remote transactions of different senders with equal (price, nonce) would
	// make the pool's price-heap eviction follow Go map order; keep the pairs unique.
	for {
		k := fmt.Sprintf("%v/%d", price, nonce)
		if o, ok := r.usedPN[k]; ok && o != a {
			price = new(big.Int).Add(price, big.NewInt(1))
			continue
		}
		r.usedPN[k] = a
		break
	}
	tx := types.NewTransaction(nonce, sink, value, gas, price, data)
	if signer == types.Signer(goodSigner) && t.Chance(1, 8) {
		signer = types.HomesteadSigner{} // unprotected, accepted on any chain
	}
	stx, err := types.SignTx(signer, tx, keys[a])
	if err != nil {
		panic("poolsim: cannot sign: " + err.Error())
	}
	r.nextID++
	ti := &txinfo{id: r.nextID, tx: stx, hash: stx.Hash(), acct: a, nonce: nonce, price: price, value: value, gas: gas,
		dataLen: len(data), kind: kind, wrongChain: kind == "wrong-chain", gone: "never accepted"}
	ti.slots = (int(stx.Size()) + 32767) / 32768
	if old, ok := r.reg[ti.hash]; ok {
		return old
	}
	r.reg[ti.hash] = ti
	return ti
}
