// Export shim for the poolsim engine (added to the package through -overlay; no
// file in the repository is edited). Accessors only, no logic.
package tx_pool

import (
	"math/big"
	"sync/atomic"
	"time"

	"github.com/kardiachain/go-kardia/lib/common"
	"github.com/kardiachain/go-kardia/types"
)

// VerifYield is called at the yield sites inserted by /verif/sim/tools/yieldins
// (instrumented copy of tx_pool.go). Nil = no-op.
var VerifYield func(site string)

// VerifYieldSites lists the sites the instrumenter managed to insert (filled by a
// generated init function; empty when the build is not instrumented).
var VerifYieldSites []string

func verifYield(s string) {
	if VerifYield != nil {
		VerifYield(s)
	}
}

// VerifView is a read-only copy of the pool's internal indexes.
type VerifView struct {
	Pending    map[common.Address]types.Transactions
	Queue      map[common.Address]types.Transactions
	AllLocals  map[common.Hash]*types.Transaction
	AllRemotes map[common.Hash]*types.Transaction
	Slots      int
	Priced     []*types.Transaction // the remote price heap, in heap order
	Stales     int64
	LocalAccts map[common.Address]bool
	Beats      map[common.Address]time.Time
	GasPrice   *big.Int
	NonceCache map[common.Address]uint64
	MaxGas     uint64
	SinceReorg int
}

func (pool *TxPool) VerifView() *VerifView {
	pool.mu.RLock()
	defer pool.mu.RUnlock()
	v := &VerifView{
		Pending:    map[common.Address]types.Transactions{},
		Queue:      map[common.Address]types.Transactions{},
		AllLocals:  map[common.Hash]*types.Transaction{},
		AllRemotes: map[common.Hash]*types.Transaction{},
		LocalAccts: map[common.Address]bool{},
		Beats:      map[common.Address]time.Time{},
		NonceCache: map[common.Address]uint64{},
		GasPrice:   new(big.Int).Set(pool.gasPrice),
		MaxGas:     pool.currentMaxGas,
		SinceReorg: pool.changesSinceReorg,
	}
	for a, l := range pool.pending {
		v.Pending[a] = l.Flatten()
	}
	for a, l := range pool.queue {
		v.Queue[a] = l.Flatten()
	}
	pool.all.lock.RLock()
	for h, tx := range pool.all.locals {
		v.AllLocals[h] = tx
	}
	for h, tx := range pool.all.remotes {
		v.AllRemotes[h] = tx
	}
	v.Slots = pool.all.slots
	pool.all.lock.RUnlock()
	v.Priced = append(v.Priced, (*pool.priced.remotes)...)
	v.Stales = atomic.LoadInt64(&pool.priced.stales)
	for a := range pool.locals.accounts {
		v.LocalAccts[a] = true
	}
	for a, t := range pool.beats {
		v.Beats[a] = t
	}
	pool.pendingNonces.lock.Lock()
	for a, n := range pool.pendingNonces.nonces {
		v.NonceCache[a] = n
	}
	pool.pendingNonces.lock.Unlock()
	return v
}

// VerifPriceLess exposes the price heap ordering.
func VerifPriceLess(a, b *types.Transaction) bool { return priceHeap{a, b}.Less(0, 1) }

// VerifMuFree reports whether nobody holds the pool lock right now.
func (pool *TxPool) VerifMuFree() bool {
	if pool.mu.TryLock() {
		pool.mu.Unlock()
		return true
	}
	return false
}

// VerifEvictionInterval exposes the period of the lifetime-eviction ticker.
func VerifEvictionInterval() time.Duration { return evictionInterval }
