package poolsim

import (
	"bytes"
	"fmt"
	"math/big"
	"os"
	"sort"
	"testing/synctest"
	"time"

	"github.com/kardiachain/go-kardia/kai/events"
	"github.com/kardiachain/go-kardia/lib/rlp"
	"github.com/kardiachain/go-kardia/mainchain/tx_pool"
	"github.com/kardiachain/go-kardia/types"
)

// ---------------------------------------------------------------- sequential operations

func (r *run) opSequential() {
	time.Sleep(time.Millisecond) // distinct fake instants for successive operations
	r.wasLocal = append([]bool(nil), r.m.local...)
	switch r.tape.Weighted(14, 5, 2, 2, 2) {
	case 0:
		r.opAdd()
	case 1:
		r.opHead()
	case 2:
		r.opPrice()
	case 3:
		r.opTime()
	case 4:
		r.opRestart()
	}
}

type addPlan struct {
	call   string // AddRemotesSync | AddRemotes | AddRemote | AddLocal | AddLocals
	local  bool
	sync   bool
	txs    []*txinfo
	post   *model // model after the batch if everything the model accepts is accepted
	unsure bool   // some verdict is "either"
}

var calls = []string{"AddRemotesSync", "AddLocal", "AddRemotes", "AddLocals", "AddRemote"}

// planAdd draws one submission call.
func (r *run) planAdd(mv *model) *addPlan {
	t := r.tape
	p := &addPlan{call: calls[t.Weighted(6, 3, 2, 1, 1)]}
	p.local = p.call == "AddLocal" || p.call == "AddLocals"
	p.sync = p.call != "AddRemotes" && p.call != "AddRemote"
	n := 1
	if p.call == "AddRemotesSync" || p.call == "AddRemotes" || p.call == "AddLocals" {
		n = 1 + t.Weighted(5, 2, 1)
	}
	a := t.Draw(r.nAcc)
	p.post = mv.clone()
	for i := 0; i < n; i++ {
		if i > 0 && t.Chance(1, 4) {
			a = t.Draw(r.nAcc)
		}
		ti := r.genTx(a, p.post)
		p.txs = append(p.txs, ti)
		if v, _ := p.post.add(ti, p.local); v == vEither {
			p.unsure = true
			p.post.accept(ti, p.local)
		}
	}
	p.post.flagLimits()
	return p
}

func (p *addPlan) String() string {
	s := p.call + "["
	for _, ti := range p.txs {
		s += ti.String() + " "
	}
	return s + "]"
}

func (r *run) submit(p *addPlan) []error {
	var txs []*types.Transaction
	for _, ti := range p.txs {
		txs = append(txs, ti.tx)
	}
	switch p.call {
	case "AddRemotesSync":
		return r.pool.AddRemotesSync(txs)
	case "AddRemotes":
		return r.pool.AddRemotes(txs)
	case "AddRemote":
		return []error{r.pool.AddRemote(txs[0])}
	case "AddLocal":
		return []error{r.pool.AddLocal(txs[0])}
	default:
		return r.pool.AddLocals(txs)
	}
}

func errName(err error) string {
	if err == nil {
		return "ok"
	}
	return err.Error()
}

func (r *run) opAdd() {
	p := r.planAdd(r.m)
	touched := map[int]bool{}
	for _, ti := range p.txs {
		touched[ti.acct] = true
	}
	if r.tieRisk(p.post, touched, p.post.why == "pool-full", p.unsure) {
		r.stopped = "heartbeat-tie"
		return
	}
	r.step("%s", p)
	r.ah.Add(p.call)
	before := r.contentKey()
	bp, bq := r.pool.Stats()
	r.overBefore = bp > int(r.cfg.GlobalSlots) || bq > int(r.cfg.GlobalQueue)
	r.countBefore = bp + bq
	errs := r.submit(p)
	synctest.Wait()
	r.judgeAdd(p, errs, before)
}

// judgeAdd compares verdicts with the model (sequential mode) and runs the oracles.
func (r *run) judgeAdd(p *addPlan, errs []error, before string) {
	allRejected := true
	optional := map[int]bool{}
	for i, ti := range p.txs {
		err := errs[i]
		v, why := vEither, "limit reached earlier in the batch"
		fresh := ti.wrongChain || r.m.S[ti.acct][ti.nonce] == nil
		if !r.m.limit {
			v, why = r.m.add(ti, p.local)
		}
		if err == nil && fresh && !ti.wrongChain {
			if r.dirty == nil {
				r.dirty = map[int]bool{}
			}
			r.dirty[ti.acct] = true
		}
		r.step("  %s -> %s (model %s %s)", ti, errName(err), v, why)
		r.ah.Add(ti.kind, v.String(), fmt.Sprint(err == nil))
		if err == nil {
			allRejected = false
			r.accepted++
		} else {
			r.rejected++
			r.res.Fault("rejected:" + err.Error())
			if ti.kind != "next" && ti.kind != "gapped" && ti.kind != "fill" && ti.kind != "big" && ti.kind != "high-gas" {
				r.adversarial++
			}
		}
		switch v {
		case vAccept:
			if err != nil {
				r.violate("verdict-valid", "valid submission ("+ti.kind+") refused although no limit is reached",
					fmt.Sprintf("%s: %v; %s", ti, err, r.describe()))
				return
			}
		case vReject:
			if err == nil {
				r.violate("verdict-invalid", "invalid submission accepted: "+stripList(why),
					fmt.Sprintf("%s accepted, model refuses: %s; %s", ti, why, r.describe()))
				return
			}
			if !r.m.holds(ti) {
				ti.gone = "refused: " + stripList(why)
			}
		case vEither:
			optional[ti.id] = true
			if err == nil {
				if old, ok := r.m.S[ti.acct][ti.nonce]; ok && !ti.wrongChain && old.id != ti.id && why != "pool-full" {
					r.res.Probe("replacement-in-rounding-sliver")
				}
				if !ti.wrongChain {
					// (in a full pool the old same-nonce transaction may have been evicted for its
					// price before the new one was inserted: no bump is demanded there)
					r.m.accept(ti, p.local)
				} else {
					r.violate("verdict-invalid", "invalid submission accepted: wrong-chain", ti.String())
					return
				}
			}
		}
	}
	r.m.flagLimits()
	if ap, aq := r.pool.Stats(); allRejected && before != r.contentKey() && r.overBefore && ap+aq < r.countBefore &&
		ap <= int(r.cfg.GlobalSlots) && aq <= int(r.cfg.GlobalQueue) {
		// Not the submission's doing: the pool was above a global limit before the call (a price
		// change or a head change had demoted transactions into the queue without a reorganisation;
		// limits are enforced by the reorganisation every submission ends with) and the call only
		// brought it back under. The property's "without changing the pool" is about the refused
		// submission itself. The model adopts the pool's content.
		r.res.Probe("refused-submission-ran-the-deferred-truncation")
		r.m.hit("refused-but-changed")
	} else if allRejected && before != r.contentKey() {
		// soft: the model adopts the pool's content below (the pool was full), the run goes on
		cause := errName(errs[0])
		for _, e := range errs {
			if e == tx_pool.ErrReplaceUnderpriced {
				cause = e.Error() // the only refusal that comes after the pool made room
			}
		}
		r.soft("reject-unchanged", "a refused submission changed the pool content: "+cause,
			fmt.Sprintf("%s\nbefore: %s\nafter:  %s", p, before, r.contentKey()))
		r.m.hit("refused-but-changed")
	}
	// The pool ends a submission with a reorganisation (which is what enforces the limits) only if
	// at least one transaction of the batch got past the pre-checks made without the pool lock
	// (already known, unrecoverable sender, blacklisted sender): a batch of which none does
	// returns before that. Limits left exceeded by an earlier price or head change are then still
	// exceeded, legitimately (same deferred enforcement as above).
	ranReorg := false
	for _, e := range errs {
		if e == nil || (e.Error() != tx_pool.ErrAlreadyKnown.Error() && e.Error() != tx_pool.ErrInvalidSender.Error() && e.Error() != tx_pool.ErrBlacklistedSender.Error()) {
			ranReorg = true
		}
	}
	if !ranReorg {
		r.res.Probe("submission-stopped-by-the-pre-checks-without-reorganisation")
		r.check("add-known", optional)
		return
	}
	r.check("add", optional)
}

func stripList(s string) string {
	s = bytes.NewBufferString(s).String()
	if len(s) > 1 && s[0] == '[' {
		s = s[1 : len(s)-1]
	}
	return s
}

// ---------------------------------------------------------------- head changes

type headPlan struct {
	view     *chainView
	mined    []*txinfo
	fork     bool
	reinject []*txinfo
	desc     string
}

func (r *run) planHead(mv *model) *headPlan {
	t := r.tape
	old := r.chain.view()
	hp := &headPlan{view: old.copy()}
	base := old
	if r.chain.head.Height() > 1 && t.Chance(1, 6) {
		// sibling of the current head: what the old head included is handed back to the pool
		hp.fork = true
		parent := r.chain.blocks[r.chain.head.LastBlockHash()]
		base = r.chain.views[parent.Hash()]
		hp.view = base.copy()
		for _, tx := range r.chain.head.Transactions() {
			hp.reinject = append(hp.reinject, r.reg[tx.Hash()])
		}
	}
	v := hp.view
	if t.Chance(1, 8) {
		v.gasLimit = []uint64{1000000, 100000, 50000, 5000000}[t.Draw(4)]
	}
	for a := 0; a < r.nAcc; a++ {
		pend, _ := mv.split(a)
		switch t.Weighted(5, 5, 1, 1, 3) {
		case 0:
		case 1: // include the first k offered transactions
			if len(pend) == 0 || hp.fork {
				break
			}
			k := 1 + t.Draw(len(pend))
			for _, ti := range pend[:k] {
				hp.mined = append(hp.mined, ti)
				v.nonce[a]++
				v.bal[a].Sub(v.bal[a], ti.cost())
				if v.bal[a].Sign() < 0 {
					v.bal[a].SetInt64(0)
				}
			}
			hp.desc += fmt.Sprintf("a%d:mine%d ", a, k)
		case 2: // nonce moves ahead by transactions the pool never saw
			k := uint64(t.Range(1, 3))
			v.nonce[a] += k
			hp.desc += fmt.Sprintf("a%d:n+%d ", a, k)
		case 3: // nonce moves back
			k := uint64(t.Range(1, 2))
			if v.nonce[a] < k {
				k = v.nonce[a]
			}
			v.nonce[a] -= k
			hp.desc += fmt.Sprintf("a%d:n-%d ", a, k)
		case 4:
			v.bal[a] = r.drawBalance()
			hp.desc += fmt.Sprintf("a%d:bal=%v ", a, v.bal[a])
		}
	}
	if hp.fork {
		// a reinjected transaction that the new branch also "included" is not handed back
		hp.desc = "fork " + hp.desc
	}
	return hp
}

func (r *run) applyHeadToChain(hp *headPlan) {
	var txs []*types.Transaction
	for _, ti := range hp.mined {
		txs = append(txs, ti.tx)
	}
	c := r.chain
	if hp.fork {
		parent := c.blocks[c.head.LastBlockHash()]
		c.append(parent, c.head.Height(), hp.view, txs)
	} else {
		c.append(c.head, c.head.Height()+1, hp.view, txs)
	}
}

func (r *run) applyHeadToModel(m *model, hp *headPlan) (optional map[int]bool) {
	m.st = hp.view.copy()
	optional = map[int]bool{}
	for _, ti := range hp.reinject {
		if v, _ := m.add(ti, false); v == vEither {
			optional[ti.id] = true
			m.hit("reinject-undecided")
		}
	}
	m.settle()
	return
}

func (r *run) opHead() {
	hp := r.planHead(r.m)
	post := r.m.clone()
	unsure := len(r.applyHeadToModel(post, hp)) > 0
	touched := map[int]bool{}
	for a := 0; a < r.nAcc; a++ {
		bp, _ := r.m.split(a)
		ap, _ := post.split(a)
		was := map[int]bool{}
		for _, ti := range bp {
			was[ti.id] = true
		}
		for _, ti := range ap {
			if !was[ti.id] {
				touched[a] = true
			}
		}
	}
	for _, ti := range hp.reinject {
		touched[ti.acct] = true
	}
	if r.tieRisk(post, touched, false, unsure) {
		r.stopped = "heartbeat-tie"
		return
	}
	r.step("head h=%d gas=%d %s-> %s mined=%d reinject=%d", r.chain.head.Height(), hp.view.gasLimit, hp.desc, fmtView(hp.view), len(hp.mined), len(hp.reinject))
	r.ah.Add("head", fmt.Sprint(hp.fork, len(hp.mined) > 0))
	r.applyHeadToChain(hp)
	r.chain.feed.Send(events.ChainHeadEvent{Block: r.chain.head})
	synctest.Wait()
	nBefore := len(r.m.all())
	optional := r.applyHeadToModel(r.m, hp)
	if len(r.m.all()) < nBefore+len(hp.reinject) {
		r.headDrops++
		r.adversarial++
		r.res.Fault("head-change-invalidates-pooled-tx")
	}
	if hp.fork {
		r.res.Fault("fork-reinject")
	}
	r.check("head", optional)
}

// ---------------------------------------------------------------- price, time

func (r *run) opPrice() {
	p := big.NewInt(int64(r.tape.Range(1, 40)))
	r.step("SetGasPrice %v (was %v)", p, r.m.price)
	r.ah.Add("price", fmt.Sprint(p.Cmp(r.m.price)))
	n := len(r.m.all())
	r.m.setPrice(p)
	if len(r.m.all()) < n {
		r.adversarial++
		r.res.Fault("price-eviction")
	}
	r.pool.SetGasPrice(p)
	synctest.Wait()
	r.check("price", nil)
}

func (r *run) opTime() {
	d := []time.Duration{30 * time.Second, 61 * time.Second, r.cfg.Lifetime + 61*time.Second, 2*r.cfg.Lifetime + 2*time.Minute, r.cfg.Rejournal + time.Second}[r.tape.Draw(5)]
	r.step("sleep %v", d)
	r.ah.Add("sleep", fmt.Sprint(d > r.cfg.Lifetime))
	time.Sleep(d)
	synctest.Wait()
	r.check("time", nil)
}

// ---------------------------------------------------------------- restart from the journal

// readJournal parses the journal like any RLP stream reader would: transactions
// until the first undecodable item.
func readJournal(path string) []*types.Transaction {
	b, err := os.ReadFile(path)
	if err != nil {
		return nil
	}
	s := rlp.NewStream(bytes.NewReader(b), 0)
	var out []*types.Transaction
	for {
		tx := new(types.Transaction)
		if err := s.Decode(tx); err != nil {
			return out
		}
		out = append(out, tx)
	}
}

func (r *run) opRestart() {
	t := r.tape
	r.pool.Stop()
	r.pool = nil
	synctest.Wait()
	r.restarts++
	r.adversarial++
	journaling := r.cfg.Journal != "" && !r.cfg.NoLocals
	fault := "none"
	var expect []*txinfo
	if journaling {
		// rotate() writes accounts in Go map order: bring the file into a canonical order
		// (same content) so that tearing it at a byte offset is a replayable choice.
		var tis []*txinfo
		for _, tx := range readJournal(r.journal) {
			ti := r.reg[tx.Hash()]
			if ti == nil {
				r.violate("journal-foreign", "journal holds a transaction that was never submitted", tx.Hash().Hex())
				return
			}
			tis = append(tis, ti)
		}
		sort.SliceStable(tis, func(i, j int) bool {
			if tis[i].acct != tis[j].acct {
				return tis[i].acct < tis[j].acct
			}
			return false // keep the journal's order within one sender
		})
		var buf bytes.Buffer
		for _, ti := range tis {
			rlp.Encode(&buf, ti.tx)
		}
		switch t.Weighted(5, 2, 2) {
		case 1: // torn tail
			if buf.Len() > 0 {
				cut := t.Draw(buf.Len())
				buf.Truncate(buf.Len() - 1 - cut%min(buf.Len(), 200))
				fault = "torn"
			}
		case 2: // foreign entries appended: transactions the pool must refuse like any submission
			n := 1 + t.Draw(3)
			mv := r.m.clone()
			for i := 0; i < n; i++ {
				ti := r.genTx(t.Draw(r.nAcc), mv)
				rlpBytes, err := rlp.EncodeToBytes(ti.tx)
				if err != nil {
					continue // e.g. negative value cannot be encoded
				}
				buf.Write(rlpBytes)
			}
			fault = "appended"
		}
		if err := os.WriteFile(r.journal, buf.Bytes(), 0o644); err != nil {
			r.res.Infra = "cannot write journal: " + err.Error()
			return
		}
		for _, tx := range readJournal(r.journal) {
			expect = append(expect, r.reg[tx.Hash()])
		}
	}
	r.step("restart journal=%v fault=%s entries=%d", journaling, fault, len(expect))
	r.ah.Add("restart", fault)
	if fault != "none" {
		r.res.Fault("journal-" + fault)
	}
	// the model of the new pool: empty, then the journal content submitted as local
	for _, ti := range r.m.all() {
		ti.gone = "lost at restart (not in the journal)"
	}
	nm := newModel(r.m.cfg, r.m.st, r.nAcc)
	nm.price = new(big.Int).SetUint64(r.cfg.PriceLimit)
	if len(r.cfg.Locals) > 0 {
		nm.local[0] = true
	}
	r.m = nm
	r.wasLocal = append([]bool(nil), nm.local...)
	optional := map[int]bool{}
	for _, ti := range expect {
		v, why := vEither, ""
		if !r.m.limit {
			v, why = r.m.add(ti, true)
		}
		switch v {
		case vReject:
			ti.gone = "refused at journal reload: " + stripList(why)
		case vEither:
			optional[ti.id] = true
			r.m.hit("reload-undecided")
		}
		r.step("  journal %s model %s %s", ti, v, why)
	}
	r.m.flagLimits()
	r.poolStart = time.Now()
	r.pool = tx_pool.NewTxPool(r.cfg, chainCfg, r.chain)
	synctest.Wait()
	r.optLocal = true
	r.check("restart", optional)
}
