package poolsim

import (
	"fmt"
	"math/big"
	"sort"
	"strings"

	"github.com/kardiachain/go-kardia/lib/common"
	"github.com/kardiachain/go-kardia/mainchain/tx_pool"
	"github.com/kardiachain/go-kardia/types"
)

func (r *run) acctOf(a common.Address) int {
	for i := 0; i < r.nAcc; i++ {
		if addrs[i] == a {
			return i
		}
	}
	return -1
}

func fmtList(l types.Transactions) string {
	s := ""
	for _, tx := range l {
		s += fmt.Sprintf("n%d@%v ", tx.Nonce(), tx.GasPrice())
	}
	return strings.TrimSpace(s)
}

// contentKey renders Content() canonically (account order, nonce order).
func (r *run) contentKey() string {
	p, q := r.pool.Content()
	s := ""
	for a := 0; a < r.nAcc; a++ {
		if len(p[addrs[a]]) > 0 || len(q[addrs[a]]) > 0 {
			s += fmt.Sprintf("a%d P[", a)
			for _, tx := range p[addrs[a]] {
				s += fmt.Sprintf("%d:%x ", tx.Nonce(), tx.Hash().Bytes()[:4])
			}
			s += "] Q["
			for _, tx := range q[addrs[a]] {
				s += fmt.Sprintf("%d:%x ", tx.Nonce(), tx.Hash().Bytes()[:4])
			}
			s += "] "
		}
	}
	for a := range p {
		if r.acctOf(a) < 0 {
			s += fmt.Sprintf("?%x P%d ", a[:3], len(p[a]))
		}
	}
	for a := range q {
		if r.acctOf(a) < 0 {
			s += fmt.Sprintf("?%x Q%d ", a[:3], len(q[a]))
		}
	}
	return s
}

// describe renders pool and chain for violation details.
func (r *run) describe() string {
	p, q := r.pool.Content()
	v := r.chain.view()
	s := fmt.Sprintf("gaslimit=%d poolprice=%v | ", v.gasLimit, r.pool.GasPrice())
	for a := 0; a < r.nAcc; a++ {
		loc := ""
		if r.m.local[a] {
			loc = "L"
		}
		s += fmt.Sprintf("a%d%s(n%d b%v) P[%s] Q[%s] | ", a, loc, v.nonce[a], v.bal[a], fmtList(p[addrs[a]]), fmtList(q[addrs[a]]))
	}
	return s
}

// check runs every oracle at a quiescent point. after names the operation kind;
// optional lists transactions whose acceptance the model left open.
func (r *run) check(after string, optional map[int]bool) {
	if r.hard || r.res.Infra != "" {
		return
	}
	view := r.pool.VerifView()
	st := r.chain.view()
	pend, queue := r.pool.Content()
	offered, _ := r.pool.Pending()

	// ---- structural: lists vs index
	inPending := map[common.Hash]bool{}
	inQueue := map[common.Hash]bool{}
	for a, l := range view.Pending {
		if len(l) == 0 {
			r.violate("structure", "empty pending list left in the pending map", fmt.Sprintf("%x", a[:4]))
			return
		}
		for _, tx := range l {
			if inPending[tx.Hash()] {
				r.violate("structure", "transaction listed twice as pending", r.describe())
				return
			}
			inPending[tx.Hash()] = true
		}
	}
	for a, l := range view.Queue {
		if len(l) == 0 {
			r.violate("structure", "empty queue list left in the queue map", fmt.Sprintf("%x", a[:4]))
			return
		}
		for _, tx := range l {
			if inPending[tx.Hash()] {
				r.violate("pending-and-queued", "a transaction is both pending and queued", fmt.Sprintf("%s; %s", r.name(tx), r.describe()))
				return
			}
			if inQueue[tx.Hash()] {
				r.violate("structure", "transaction listed twice as queued", r.describe())
				return
			}
			inQueue[tx.Hash()] = true
		}
	}
	indexed := map[common.Hash]bool{}
	for h := range view.AllLocals {
		indexed[h] = true
		if _, both := view.AllRemotes[h]; both {
			r.violate("structure", "transaction indexed both as local and as remote", r.describe())
			return
		}
	}
	for h := range view.AllRemotes {
		indexed[h] = true
	}
	for h := range indexed {
		if !inPending[h] && !inQueue[h] {
			tx := view.AllLocals[h]
			if tx == nil {
				tx = view.AllRemotes[h]
			}
			r.violate("index-orphan", "indexed transaction is in neither the pending nor the queued list",
				fmt.Sprintf("after %s: %s; %s", after, r.name(tx), r.describe()))
			return
		}
	}
	for h := range inPending {
		if !indexed[h] {
			r.violate("list-orphan", "pending transaction missing from the lookup index", fmt.Sprintf("after %s: %s; %s", after, r.name(r.reg[h].tx), r.describe()))
			return
		}
	}
	for h := range inQueue {
		if !indexed[h] {
			tx := (*types.Transaction)(nil)
			if ti := r.reg[h]; ti != nil {
				tx = ti.tx
			}
			r.violate("list-orphan", "queued transaction missing from the lookup index", fmt.Sprintf("after %s: %s; %s", after, r.name(tx), r.describe()))
			return
		}
	}
	// ---- structural: price heap holds every remote transaction, in heap order
	heapHas := map[common.Hash]bool{}
	for i, tx := range view.Priced {
		heapHas[tx.Hash()] = true
		if i > 0 {
			parent := view.Priced[(i-1)/2]
			if tx_pool.VerifPriceLess(tx, parent) {
				r.violate("price-heap", "price heap order violated", fmt.Sprintf("index %d %s below parent %s", i, r.name(tx), r.name(parent)))
				return
			}
		}
	}
	for h, tx := range view.AllRemotes {
		if !heapHas[h] {
			r.violate("price-heap", "remote transaction missing from the price heap", fmt.Sprintf("after %s: %s; %s", after, r.name(tx), r.describe()))
			return
		}
	}
	// ---- public views agree with each other
	ps, qs := r.pool.Stats()
	np, nq := 0, 0
	for a, l := range pend {
		np += len(l)
		if fmtList(l) != fmtList(offered[a]) || fmtList(l) != fmtList(view.Pending[a]) {
			r.violate("views", "Pending() and Content() disagree", r.describe())
			return
		}
	}
	for _, l := range queue {
		nq += len(l)
	}
	if ps != np || qs != nq || len(offered) != len(pend) || len(indexed) != np+nq {
		r.violate("views", "Stats(), Content() and the index disagree on the number of transactions",
			fmt.Sprintf("stats %d/%d content %d/%d index %d", ps, qs, np, nq, len(indexed)))
		return
	}

	// ---- semantic: against the chain
	for addr, l := range pend {
		a := r.acctOf(addr)
		if a < 0 {
			r.violate("sender", "pending transactions listed under an address that signed nothing", fmt.Sprintf("%x: %s", addr[:4], fmtList(l)))
			return
		}
		for i, tx := range l {
			ti := r.reg[tx.Hash()]
			if ti == nil || ti.acct != a || ti.wrongChain {
				r.violate("sender", "offered transaction is not validly signed by the sender it is listed under", fmt.Sprintf("a%d %s", a, r.name(tx)))
				return
			}
			want := st.nonce[a] + uint64(i)
			if ti.nonce != want {
				what := "offered transactions have a nonce gap"
				if i == 0 && ti.nonce < want {
					what = "offered transaction already mined (nonce below the state nonce)"
				} else if i == 0 {
					what = "offered transactions do not start at the sender's state nonce"
				}
				r.violate("pending-run", what, fmt.Sprintf("after %s: a%d position %d has nonce %d, want %d; %s", after, a, i, ti.nonce, want, r.describe()))
				return
			}
			if ti.cost().Cmp(st.bal[a]) > 0 {
				r.violate("affordable", "offered transaction is not affordable from the sender's balance",
					fmt.Sprintf("after %s: %s costs %v, balance %v; %s", after, ti, ti.cost(), st.bal[a], r.describe()))
				return
			}
			if ti.gas > st.gasLimit {
				r.violate("gas-limit", "offered transaction exceeds the block gas limit",
					fmt.Sprintf("after %s: %s gas %d limit %d; %s", after, ti, ti.gas, st.gasLimit, r.describe()))
				return
			}
			if ti.value.Sign() < 0 {
				r.violate("negative", "offered transaction has a negative value", ti.String())
				return
			}
		}
	}
	for addr, l := range queue {
		a := r.acctOf(addr)
		if a < 0 {
			r.violate("sender", "queued transactions listed under an address that signed nothing", fmt.Sprintf("%x: %s", addr[:4], fmtList(l)))
			return
		}
		for i, tx := range l {
			ti := r.reg[tx.Hash()]
			if ti == nil || ti.acct != a || ti.wrongChain {
				r.violate("sender", "queued transaction is not validly signed by the sender it is listed under", fmt.Sprintf("a%d %s", a, r.name(tx)))
				return
			}
			if i > 0 && l[i-1].Nonce() >= tx.Nonce() {
				r.violate("structure", "queued list not strictly ordered by nonce", r.describe())
				return
			}
		}
	}
	// pendingNonces = state nonce + length of the offered run
	for a := 0; a < r.nAcc; a++ {
		want := st.nonce[a] + uint64(len(pend[addrs[a]]))
		if got := r.pool.Nonce(addrs[a]); got != want {
			r.violate("pending-nonce", "Nonce() differs from state nonce plus the number of offered transactions",
				fmt.Sprintf("after %s: a%d Nonce()=%d state=%d offered=%d; %s", after, a, got, st.nonce[a], len(pend[addrs[a]]), r.describe()))
			return
		}
	}
	// Get / Status agree with the lists
	var hs []common.Hash
	var tis []*txinfo
	for h := range indexed {
		if ti := r.reg[h]; ti != nil {
			hs = append(hs, h)
			tis = append(tis, ti)
		}
	}
	stt := r.pool.Status(hs)
	for i, h := range hs {
		want := tx_pool.TxStatusQueued
		if inPending[h] {
			want = tx_pool.TxStatusPending
		}
		if stt[i] != want || r.pool.Get(h) == nil {
			r.violate("views", "Status()/Get() disagree with the lists", tis[i].String())
			return
		}
	}

	// ---- limits (after operations that end with a pool reorganisation)
	if after == "add" || after == "head" || after == "restart" || after == "round" {
		over := false
		for addr, l := range pend {
			if a := r.acctOf(addr); !view.LocalAccts[addr] && a >= 0 && !r.m.local[a] && len(l) > int(r.cfg.AccountSlots) {
				over = true
			}
		}
		if np > int(r.cfg.GlobalSlots) && over {
			r.violate("global-slots", "more offered transactions than GlobalSlots while a non-local sender holds more than AccountSlots",
				fmt.Sprintf("after %s: %d offered, GlobalSlots %d AccountSlots %d; %s", after, np, r.cfg.GlobalSlots, r.cfg.AccountSlots, r.describe()))
			return
		}
		nonLocalQueued := 0
		for addr, l := range queue {
			a := r.acctOf(addr)
			if view.LocalAccts[addr] || r.m.local[a] {
				continue
			}
			nonLocalQueued += len(l)
			// AccountQueue is enforced when a sender's queue is examined for promotion, i.e. for the
			// senders of newly accepted transactions; transactions demoted by a head change may
			// exceed it until then (go-ethereum semantics)
			if r.dirty[a] && len(l) > int(r.cfg.AccountQueue) {
				r.violate("account-queue", "a non-local sender holds more queued transactions than AccountQueue right after its submission was accepted",
					fmt.Sprintf("a%d holds %d, AccountQueue %d; %s", a, len(l), r.cfg.AccountQueue, r.describe()))
				return
			}
		}
		if nq > int(r.cfg.GlobalQueue) && nonLocalQueued > 0 {
			r.violate("global-queue", "more queued transactions than GlobalQueue while non-local senders still hold queued ones",
				fmt.Sprintf("after %s: %d queued (%d non-local), GlobalQueue %d; %s", after, nq, nonLocalQueued, r.cfg.GlobalQueue, r.describe()))
			return
		}
	}

	// ---- reference model
	have := map[common.Hash]*txinfo{}
	for h := range indexed {
		ti := r.reg[h]
		if ti == nil {
			r.violate("foreign", "pool holds a transaction nobody submitted", h.Hex())
			return
		}
		have[h] = ti
	}
	want := r.m.all()
	for h, ti := range have {
		if _, ok := want[h]; !ok && !optional[ti.id] {
			r.violate("retained", "pool holds a transaction it must not hold: "+ti.gone,
				fmt.Sprintf("after %s: %s; %s", after, ti, r.describe()))
			return
		}
	}
	if after == "time" {
		// lifetime expiry: a non-local sender's queued transactions may all go; nothing else changes
		for a := 0; a < r.nAcc; a++ {
			_, mq := r.m.split(a)
			if r.m.local[a] || len(mq) == 0 {
				continue
			}
			if len(queue[addrs[a]]) == 0 {
				for _, ti := range mq {
					ti.gone = "expired (lifetime)"
					delete(r.m.S[a], ti.nonce)
				}
				r.res.Fault("lifetime-eviction")
				r.adversarial++
			}
		}
		want = r.m.all()
	}
	if !r.m.limit {
		for h, ti := range want {
			if _, ok := have[h]; !ok && after == "price" && r.m.local[ti.acct] {
				r.violate("local-evicted", "a local sender's transaction was dropped by a price change",
					fmt.Sprintf("%s; %s", ti, r.describe()))
				return
			}
			if _, ok := have[h]; !ok {
				r.violate("lost", "pool lost a transaction although no limit, price change, head change or timeout accounts for it",
					fmt.Sprintf("after %s: %s; %s", after, ti, r.describe()))
				return
			}
		}
		for a := 0; a < r.nAcc; a++ {
			mp, mq := r.m.split(a)
			if len(mp) != len(pend[addrs[a]]) || len(mq) != len(queue[addrs[a]]) {
				what := "executable transaction left in the queue"
				if len(mp) < len(pend[addrs[a]]) {
					what = "more transactions offered than the gap-free affordable run"
				}
				r.violate("model-split", what, fmt.Sprintf("after %s: a%d model offers %d queues %d; %s", after, a, len(mp), len(mq), r.describe()))
				return
			}
		}
	} else {
		r.res.Probe("limit:" + r.m.why)
		// a limit was reached: the pool may have sacrificed transactions, but none of a local sender
		slot := map[string]bool{}
		for _, ti := range have {
			slot[fmt.Sprintf("%d/%d", ti.acct, ti.nonce)] = true
		}
		for h, ti := range want {
			if _, ok := have[h]; !ok && r.m.local[ti.acct] && r.wasLocal[ti.acct] && !slot[fmt.Sprintf("%d/%d", ti.acct, ti.nonce)] {
				r.violate("local-evicted", "a local sender's transaction was dropped when a limit was reached",
					fmt.Sprintf("after %s (%s): %s; %s", after, r.m.why, ti, r.describe()))
				return
			}
		}
		// adopt the pool's content
		for a := range r.m.S {
			for n, ti := range r.m.S[a] {
				if _, ok := have[ti.hash]; !ok {
					ti.gone = "sacrificed at a limit (" + r.m.why + ")"
					delete(r.m.S[a], n)
				}
			}
		}
		for _, ti := range have {
			if !r.m.holds(ti) {
				r.m.S[ti.acct][ti.nonce] = ti
				ti.gone = ""
				_, r.m.lflag[ti.id] = view.AllLocals[ti.hash]
				if optional[ti.id] && r.optLocal && !r.cfg.NoLocals {
					r.m.local[ti.acct] = true // an undecided local submission turned out accepted
				}
			}
		}
		for a := range r.m.S {
			if r.m.local[a] {
				for _, ti := range r.m.S[a] {
					r.m.lflag[ti.id] = true
				}
			}
		}
		r.m.limit, r.m.why = false, ""
	}
	// local flags: the pool's notion of local senders must cover the model's
	for a := 0; a < r.nAcc; a++ {
		if r.m.local[a] && !view.LocalAccts[addrs[a]] {
			r.soft("local-flag", "sender of an accepted local submission is not treated as local",
				fmt.Sprintf("after %s: a%d; %s", after, a, r.describe()))
			// follow the pool: the sender stays remote, only that transaction is indexed as local
			r.m.local[a] = false
			for _, ti := range r.m.S[a] {
				_, r.m.lflag[ti.id] = view.AllLocals[ti.hash]
			}
		}
	}
	r.dirty = nil
	r.optLocal = false
	r.h.Add(after, r.contentKey(), fmt.Sprint(ps, qs))
	if np > 0 {
		r.res.Probe("quiescent-points-with-offered-txs")
	}
}

func (r *run) name(tx *types.Transaction) string {
	if tx == nil {
		return "<nil>"
	}
	if ti := r.reg[tx.Hash()]; ti != nil {
		return ti.String()
	}
	return fmt.Sprintf("unknown{n%d p%v}", tx.Nonce(), tx.GasPrice())
}

// tieRisk: truncateQueue drops from the sender with the youngest heartbeat first and
// picks among equal heartbeats in Go map order. Under the fake clock equal heartbeats
// are common (every sender touched by one reorganisation gets the same instant), so the
// outcome of the coming operation would not be a function of the tape. The run stops
// before such an operation. post = model after the operation, before any truncation.
func (r *run) tieRisk(post *model, touched map[int]bool, poolFull, unsure bool) bool {
	_, que, _ := post.counts()
	d := que - post.cfg.globalQueue
	if d <= 0 {
		return false
	}
	beats := r.pool.VerifView().Beats
	type grp struct {
		key   int64
		n     int
		total int
	}
	groups := map[int64]*grp{}
	exact := !unsure && !poolFull
	for a := 0; a < r.nAcc; a++ {
		_, q := post.split(a)
		if post.local[a] || len(q) == 0 {
			continue
		}
		if len(q) > post.cfg.accountQueue {
			exact = false
		}
		key := int64(1) << 62 // "now"
		if b, ok := beats[addrs[a]]; ok && !touched[a] {
			key = b.UnixNano()
		}
		g := groups[key]
		if g == nil {
			g = &grp{key: key}
			groups[key] = g
		}
		g.n++
		g.total += len(q)
	}
	var gs []*grp
	for _, g := range groups {
		gs = append(gs, g)
	}
	sort.Slice(gs, func(i, j int) bool { return gs[i].key > gs[j].key })
	for _, g := range gs {
		if d <= 0 {
			break
		}
		if exact && d >= g.total {
			d -= g.total
			continue
		}
		if g.n >= 2 {
			return true
		}
		if exact {
			return false
		}
		d -= g.total // inexact: a smaller overflow may stop in a later... earlier group only; keep walking
	}
	return false
}

var _ = big.NewInt
