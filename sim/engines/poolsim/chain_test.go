package poolsim

// Scripted chain implementing the pool's blockChain interface: a block tree
// whose per-block account table (nonce, balance) is chosen by the tape, served
// to the pool as a real kai/state.StateDB on an in-memory database.

import (
	"errors"
	"math/big"
	"time"

	"github.com/kardiachain/go-kardia/kai/events"
	"github.com/kardiachain/go-kardia/kai/kaidb/memorydb"
	"github.com/kardiachain/go-kardia/kai/state"
	"github.com/kardiachain/go-kardia/lib/common"
	"github.com/kardiachain/go-kardia/lib/event"
	"github.com/kardiachain/go-kardia/trie"
	"github.com/kardiachain/go-kardia/types"
)

type simChain struct {
	sdb      state.Database
	blocks   map[common.Hash]*types.Block
	views    map[common.Hash]*chainView
	byHeight map[uint64]*types.Block
	head     *types.Block
	feed     event.Feed
	addrs    []common.Address
	salt     int64
}

func newSimChain(addrs []common.Address, genesis *chainView) *simChain {
	c := &simChain{
		sdb:      state.NewDatabase(memorydb.New()),
		blocks:   map[common.Hash]*types.Block{},
		views:    map[common.Hash]*chainView{},
		byHeight: map[uint64]*types.Block{},
		addrs:    addrs,
	}
	c.append(nil, 1, genesis, nil)
	return c
}

// append creates a block on parent (nil = first block) and makes it the head.
func (c *simChain) append(parent *types.Block, height uint64, v *chainView, txs []*types.Transaction) *types.Block {
	c.salt++
	h := &types.Header{Height: height, GasLimit: v.gasLimit, Time: time.Unix(1600000000+c.salt, 0).UTC()}
	if parent != nil {
		h.LastBlockID = types.BlockID{Hash: parent.Hash()}
	}
	b := types.NewBlock(h, txs, nil, nil, trie.NewStackTrie(nil))
	c.blocks[b.Hash()] = b
	c.views[b.Hash()] = v
	c.byHeight[height] = b
	c.head = b
	return b
}

func (c *simChain) view() *chainView { return c.views[c.head.Hash()] }

func (c *simChain) CurrentBlock() *types.Block { return c.head }

func (c *simChain) GetBlock(hash common.Hash, number uint64) *types.Block {
	if b := c.blocks[hash]; b != nil && b.Height() == number {
		return b
	}
	return nil
}

func (c *simChain) StateAt(height uint64) (*state.StateDB, error) {
	b := c.byHeight[height]
	if b == nil {
		return nil, errors.New("simchain: no block at that height")
	}
	v := c.views[b.Hash()]
	s, err := state.New(common.Hash{}, c.sdb, nil)
	if err != nil {
		return nil, err
	}
	for i, a := range c.addrs {
		s.SetNonce(a, v.nonce[i])
		s.SetBalance(a, new(big.Int).Set(v.bal[i]))
	}
	return s, nil
}

func (c *simChain) SubscribeChainHeadEvent(ch chan<- events.ChainHeadEvent) event.Subscription {
	return c.feed.Subscribe(ch)
}
