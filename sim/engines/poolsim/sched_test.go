package poolsim

// Interleaving mode. Yield points (inserted into a build-time copy of tx_pool.go by
// tools/yieldins) park the pool's background goroutines and the client calls on
// per-goroutine channels; the scheduler below releases exactly one parked goroutine
// per decision and waits for quiescence (synctest.Wait) before the next decision.
// Parked goroutines are identified by role (loop, sched, runReorg, client:<n>) and
// offered to the tape in role order, so the set of choices at a decision does not
// depend on which goroutine happened to reach its yield point first.

import (
	"fmt"
	"math/big"
	"sort"
	"strings"
	"sync"
	"testing/synctest"
	"time"

	"github.com/kardiachain/go-kardia/kai/events"
	"github.com/kardiachain/go-kardia/mainchain/tx_pool"
	"github.com/kardiachain/go-kardia/types"
)

type parkedG struct {
	key  string
	site string
	ch   chan struct{}
}

type scheduler struct {
	r          *run
	mu         sync.Mutex
	active     bool
	evictParks bool // the eviction tick of this round is a scheduling choice
	parked     []*parkedG
	current    string
	seen       map[string]int
	pending    int // client goroutines not yet finished
	bad        string
}

func newScheduler(r *run) *scheduler { return &scheduler{r: r, seen: map[string]int{}} }

// probeSites returns the number of yield sites in this build, or 0 when a site the
// scheduling discipline depends on is missing (the engine then runs sequentially).
func (s *scheduler) probeSites() int {
	have := map[string]bool{}
	for _, n := range tx_pool.VerifYieldSites {
		have[n] = true
	}
	need := []string{"scheduleReorgLoop:curDone", "scheduleReorgLoop:pool.reqPromoteCh", "scheduleReorgLoop:pool.reqResetCh",
		"scheduleReorgLoop:pool.queueTxEventCh"}
	for t := range triggers {
		need = append(need, t)
	}
	for _, n := range need {
		if !have[n] {
			s.r.res.Probe("ilv-missing-site:" + n)
			return 0
		}
	}
	return len(tx_pool.VerifYieldSites)
}

func roleOf(site string) string {
	switch {
	case strings.HasPrefix(site, "loop:"):
		return "loop"
	case strings.HasPrefix(site, "scheduleReorgLoop:"):
		return "sched"
	case strings.HasPrefix(site, "runReorg:"):
		return "runReorg"
	}
	return ""
}

// Sites that never park: their handlers commute with everything the harness observes
// (stats report, journal rotation of local transactions) or belong to shutdown.
var passThrough = map[string]bool{
	"loop:report.C": true, "loop:journal.C": true, "loop:pool.chainHeadSub.Err()": true,
	"scheduleReorgLoop:pool.reorgShutdownCh": true,
}

// Sites right before an operation that makes one case of scheduleReorgLoop's select ready.
// Go picks at random among ready select cases, so the scheduler lets only one such
// operation happen at a time and only while scheduleReorgLoop sits in its select.
var triggers = map[string]bool{
	"requestPromoteExecutables:select": true, "requestReset:select": true,
	"queueTxEvent:select": true, "runReorg:unlocked": true,
}

// yield is installed as tx_pool.VerifYield.
func (s *scheduler) yield(site string) {
	s.mu.Lock()
	s.seen[site]++
	if !s.active || passThrough[site] || (site == "loop:evict.C" && !s.evictParks) {
		s.mu.Unlock()
		return
	}
	key := roleOf(site)
	if key == "" {
		// a site on a caller's goroutine: only the goroutine released last can reach one
		if key = s.current; key == "" {
			s.mu.Unlock()
			return
		}
	}
	for _, p := range s.parked {
		if p.key == key {
			s.bad = "two goroutines parked under the role " + key + " (" + p.site + ", " + site + ")"
		}
	}
	p := &parkedG{key: key, site: site, ch: make(chan struct{})}
	s.parked = append(s.parked, p)
	s.mu.Unlock()
	<-p.ch
}

// spawn starts a client goroutine that waits to be scheduled before it calls fn.
func (s *scheduler) spawn(id int, fn func()) {
	key := fmt.Sprintf("client:%03d", id)
	p := &parkedG{key: key, site: "client:start", ch: make(chan struct{})}
	s.mu.Lock()
	s.pending++
	s.parked = append(s.parked, p)
	s.mu.Unlock()
	go func() {
		<-p.ch
		fn()
		s.mu.Lock()
		s.pending--
		s.mu.Unlock()
	}()
}

// run releases parked goroutines one at a time until nothing is parked.
func (s *scheduler) run() {
	r := s.r
	for guard := 0; guard < 2000; guard++ {
		synctest.Wait()
		s.mu.Lock()
		if len(s.parked) == 0 || s.bad != "" {
			s.mu.Unlock()
			break
		}
		sort.Slice(s.parked, func(i, j int) bool { return s.parked[i].key < s.parked[j].key })
		muFree := r.pool == nil || r.pool.VerifMuFree()
		schedParked := false
		for _, p := range s.parked {
			if p.key == "sched" {
				schedParked = true
			}
		}
		// Eligible goroutines. (1) While the pool lock is held at quiescence its holder is parked
		// inside queueTxEvent; anybody else would block on the mutex, which is not a durable
		// block, and quiescence would never be reached again. (2) One select trigger at a time.
		var el []*parkedG
		for _, p := range s.parked {
			if !muFree && p.site != "queueTxEvent:select" && p.key != "sched" {
				continue
			}
			if triggers[p.site] && schedParked {
				continue
			}
			el = append(el, p)
		}
		if len(el) == 0 {
			s.bad = fmt.Sprintf("no eligible goroutine among %d parked (lock free: %v)", len(s.parked), muFree)
			s.mu.Unlock()
			break
		}
		idx := 0
		n := len(el)
		if n > 1 && r.decisions < maxDecide {
			idx = r.tape.Draw(n)
			r.decisions++
			if idx > 0 {
				r.res.Fault("schedule:non-default-choice")
			}
		}
		p := el[idx]
		for i, q := range s.parked {
			if q == p {
				s.parked = append(s.parked[:i], s.parked[i+1:]...)
				break
			}
		}
		s.current = p.key
		s.mu.Unlock()
		r.step("   run %s@%s (%d of %d)", p.key, p.site, idx, n)
		r.ah.Add(p.key[:4], p.site)
		close(p.ch)
		synctest.Wait()
		// move the fake clock a little so that heartbeats of successive steps differ, unless a
		// goroutine holds the pool lock (a ticker handler would block on it) or the step would
		// fire the eviction ticker (a second stimulus for loop's select)
		if r.pool.VerifMuFree() && !r.crossesTick(time.Millisecond) {
			time.Sleep(time.Millisecond)
		}
	}
	synctest.Wait()
	s.mu.Lock()
	defer s.mu.Unlock()
	if s.bad != "" {
		r.res.Infra = "scheduler: " + s.bad
	} else if s.pending != 0 || len(s.parked) != 0 {
		r.res.Infra = fmt.Sprintf("scheduler: %d client calls did not return and nothing is parked (deadlock)", s.pending)
	}
}

// drainAll lets everything run freely (end of the run).
func (s *scheduler) drainAll() {
	s.mu.Lock()
	s.active = false
	ps := s.parked
	s.parked = nil
	s.mu.Unlock()
	for _, p := range ps {
		close(p.ch)
	}
}

// ---------------------------------------------------------------- interleaved rounds

type roundAdd struct {
	plan *addPlan
	errs []error
}

func (r *run) roundInterleaved() {
	t := r.tape
	s := r.sched
	if t.Chance(1, 14) {
		time.Sleep(time.Millisecond)
		r.opRestart()
		return
	}
	time.Sleep(time.Millisecond)
	s.mu.Lock()
	s.active = true
	s.mu.Unlock()
	k := 1 + t.Weighted(3, 5, 2)
	var adds []*roundAdd
	heads, prices, sleeps := 0, 0, 0
	optional := map[int]bool{}
	before := r.m.clone()
	r.wasLocal = append([]bool(nil), r.m.local...)
	st0 := r.chain.view()
	r.step("round of %d", k)
	mv := r.m.clone()
	for i := 0; i < k; i++ {
		kind := t.Weighted(8, 3, 1, 1)
		if (kind == 1 || kind == 3) && heads+sleeps > 0 {
			kind = 0 // one stimulus for loop's select per round (Go picks at random among ready cases)
		}
		switch kind {
		case 0:
			p := r.planAdd(mv)
			mv = p.post
			mv.limit = false
			ra := &roundAdd{plan: p}
			adds = append(adds, ra)
			for _, ti := range p.txs {
				optional[ti.id] = true
			}
			r.step(" client %d: %s", len(adds)-1, p)
			r.ah.Add(p.call)
			s.spawn(len(adds)-1, func() { ra.errs = r.submit(p) })
		case 1:
			hp := r.planHead(mv)
			r.applyHeadToModel(mv, hp)
			mv.limit = false
			for _, ti := range hp.reinject {
				optional[ti.id] = true
			}
			heads++
			r.step(" head h=%d gas=%d %s-> %s mined=%d reinject=%d", r.chain.head.Height(), hp.view.gasLimit, hp.desc, fmtView(hp.view), len(hp.mined), len(hp.reinject))
			r.ah.Add("head", fmt.Sprint(hp.fork))
			r.applyHeadToChain(hp)
			r.chain.feed.Send(events.ChainHeadEvent{Block: r.chain.head})
		case 2:
			p := big.NewInt(int64(t.Range(1, 40)))
			prices++
			r.step(" client price: SetGasPrice %v", p)
			r.ah.Add("price")
			s.spawn(100+prices, func() { r.pool.SetGasPrice(p) })
		case 3:
			d := []time.Duration{61 * time.Second, r.cfg.Lifetime + 61*time.Second, r.cfg.Rejournal + time.Second}[t.Draw(3)]
			sleeps++
			r.ah.Add("sleep")
			r.jumpInterleaved(d)
		}
	}
	s.run()
	s.mu.Lock()
	s.active = false
	s.evictParks = false
	s.mu.Unlock()
	if r.res.Infra != "" {
		return
	}
	if heads > 0 && len(adds) > 0 {
		r.res.Fault("ilv:head-change-concurrent-with-submissions")
	}
	if prices > 0 && len(adds) > 0 {
		r.res.Fault("ilv:price-change-concurrent-with-submissions")
	}
	if r.sched.seen["loop:evict.C"] > r.evictSeen && sleeps > 0 {
		r.res.Fault("ilv:time-jump-in-round")
	}
	r.evictSeen = r.sched.seen["loop:evict.C"]
	r.judgeRound(before, st0, adds, optional, heads, prices, sleeps)
}

// judgeRound: under interleavings only the invariants are demanded, plus what can be
// said without knowing the order in which the pool processed the round.
func (r *run) judgeRound(before *model, st0 *chainView, adds []*roundAdd, optional map[int]bool, heads, prices, sleeps int) {
	st := r.chain.view()
	submitted := map[string][]*txinfo{} // acct/nonce -> submissions of this round
	for i, ra := range adds {
		for j, ti := range ra.plan.txs {
			err := ra.errs[j]
			r.step(" client %d: %s -> %s", i, ti, errName(err))
			r.ah.Add(ti.kind, fmt.Sprint(err == nil))
			if err != nil {
				r.rejected++
				r.res.Fault("rejected:" + err.Error())
				r.adversarial++
				continue
			}
			r.accepted++
			if ti.wrongChain || ti.value.Sign() < 0 || ti.dataLen >= sizeCapMin || ti.gas < ti.intrinsic() {
				r.violate("verdict-invalid", "invalid submission accepted: "+ti.kind, ti.String())
				return
			}
			if ra.plan.local && !r.cfg.NoLocals {
				r.m.local[ti.acct] = true
			}
			k := fmt.Sprintf("%d/%d", ti.acct, ti.nonce)
			submitted[k] = append(submitted[k], ti)
		}
	}
	// adopt the pool's content as the model's (the invariants in check() judge it)
	p, q := r.pool.Content()
	have := map[int]*txinfo{}
	was := before.all()
	for a := 0; a < r.nAcc; a++ {
		for _, l := range []types.Transactions{p[addrs[a]], q[addrs[a]]} {
			for _, tx := range l {
				ti := r.reg[tx.Hash()]
				if ti == nil {
					continue // check() reports it
				}
				have[ti.id] = ti
				if _, ok := was[ti.hash]; !ok && !optional[ti.id] {
					r.violate("retained", "pool holds a transaction it must not hold: "+ti.gone, fmt.Sprintf("%s; %s", ti, r.describe()))
					return
				}
			}
		}
	}
	// replacement only with the bump (rounds of submissions only)
	// ... and in which no limit can have removed an intermediate same-nonce transaction
	roomy := len(before.all())+len(optional) <= int(r.cfg.GlobalSlots)
	for a := range before.S {
		n := len(before.S[a])
		for _, l := range submitted {
			if l[0].acct == a {
				n += len(l)
			}
		}
		roomy = roomy && n <= int(r.cfg.AccountQueue)
	}
	if heads == 0 && prices == 0 && sleeps == 0 && roomy {
		for a := range before.S {
			for n, old := range before.S[a] {
				for _, nw := range submitted[fmt.Sprintf("%d/%d", a, n)] {
					if have[nw.id] != nil && nw.id != old.id && before.bump(old, nw) == vReject {
						r.violate("replace-bump", "same-nonce replacement accepted without the required price bump",
							fmt.Sprintf("old %s new %s bump %d%%; %s", old, nw, before.cfg.priceBump, r.describe()))
						return
					}
				}
			}
		}
	}
	// a local sender's transaction that stayed valid and was not replaced must still be there
	if heads <= 1 && !r.cfg.NoLocals {
		for a := range before.S {
			if !before.local[a] {
				continue
			}
			for n, old := range before.S[a] {
				if have[old.id] != nil || len(submitted[fmt.Sprintf("%d/%d", a, n)]) > 0 {
					continue
				}
				if n < st.nonce[a] || old.cost().Cmp(st.bal[a]) > 0 || old.gas > st.gasLimit {
					continue
				}
				r.violate("local-evicted", "a local sender's transaction was dropped although still valid and not replaced",
					fmt.Sprintf("%s; %s", old, r.describe()))
				return
			}
		}
	}
	for a := range r.m.S {
		r.m.S[a] = map[uint64]*txinfo{}
	}
	for _, ti := range have {
		if !ti.wrongChain {
			r.m.S[ti.acct][ti.nonce] = ti
		}
	}
	r.m.st = st.copy()
	r.m.price = r.pool.GasPrice()
	r.m.limit = true // no exact comparison under interleavings
	r.m.why = "interleaved"
	if len(r.m.all()) < len(before.all()) {
		r.adversarial++
	}
	r.check("round", optional)
}

// crossesTick: would advancing the fake clock by d fire the eviction or the journal ticker
// of the current pool? (Both count from the pool's creation.)
func (r *run) crossesTick(d time.Duration) bool {
	el := time.Since(r.poolStart)
	for _, iv := range []time.Duration{tx_pool.VerifEvictionInterval(), r.cfg.Rejournal} {
		if (el+d)/iv != el/iv {
			return true
		}
	}
	return false
}

// jumpInterleaved advances the fake clock by about d inside a round. Go picks at random among
// the ready cases of loop's select, so the ticks of the jump are handled with the yield points
// switched off (one after the other, as in sequential mode; coinciding eviction and rotation
// commute) - except the last eviction tick when no journal tick coincides with it: that one
// fires with the yield points on and becomes a scheduling choice of the round.
func (r *run) jumpInterleaved(d time.Duration) {
	s := r.sched
	iv := tx_pool.VerifEvictionInterval()
	el := time.Since(r.poolStart)
	last := (el + d) / iv * iv // last eviction deadline within the jump, as time since pool start
	lone := last > el && last%r.cfg.Rejournal != 0
	s.mu.Lock()
	s.active = false
	s.mu.Unlock()
	if !lone {
		r.step(" sleep %v (ticks handled sequentially)", d)
		time.Sleep(d)
		synctest.Wait()
		s.mu.Lock()
		s.active = true
		s.mu.Unlock()
		return
	}
	r.step(" sleep %v (last eviction tick scheduled)", last-el)
	time.Sleep(last - el - time.Millisecond)
	synctest.Wait()
	s.mu.Lock()
	s.active = true
	s.evictParks = true
	s.mu.Unlock()
	time.Sleep(time.Millisecond)
	synctest.Wait()
}
