package trie

import "github.com/VictoriaMetrics/fastcache"

// VerifCleans exposes the clean-node cache so that the harness can release its
// off-heap chunks when it drops a Database (accessor only, no logic).
func (db *Database) VerifCleans() *fastcache.Cache { return db.cleans }
