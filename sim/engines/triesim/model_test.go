// Reference side of the engine: the model map, an executable transcription of
// the Merkle Patricia trie specification (own RLP, own hex-prefix encoding, own
// Keccak call) that derives a root from sorted content without ever building a
// mutable trie, and go-ethereum v1.9.15's trie as a second, independently
// compiled implementation.
package triesim

import (
	"bytes"
	"sort"

	gcommon "github.com/ethereum/go-ethereum/common"
	gmem "github.com/ethereum/go-ethereum/ethdb/memorydb"
	gtrie "github.com/ethereum/go-ethereum/trie"
	"golang.org/x/crypto/sha3"
)

type hash32 = [32]byte

func keccak(parts ...[]byte) hash32 {
	h := sha3.NewLegacyKeccak256()
	for _, p := range parts {
		h.Write(p)
	}
	var out hash32
	h.Sum(out[:0])
	return out
}

// ---------------- RLP (strings and lists only) ----------------

func rlpHead(base byte, n int) []byte {
	if n < 56 {
		return []byte{base + byte(n)}
	}
	var lb []byte
	for x := n; x > 0; x >>= 8 {
		lb = append([]byte{byte(x)}, lb...)
	}
	return append([]byte{base + 55 + byte(len(lb))}, lb...)
}

func rlpStr(b []byte) []byte {
	if len(b) == 1 && b[0] < 0x80 {
		return []byte{b[0]}
	}
	return append(rlpHead(0x80, len(b)), b...)
}

func rlpList(items ...[]byte) []byte {
	n := 0
	for _, it := range items {
		n += len(it)
	}
	out := rlpHead(0xc0, n)
	for _, it := range items {
		out = append(out, it...)
	}
	return out
}

// rlpUint is the canonical RLP of a non-negative integer (used as DeriveSha key).
func rlpUint(i int) []byte {
	if i == 0 {
		return []byte{0x80}
	}
	var b []byte
	for x := i; x > 0; x >>= 8 {
		b = append([]byte{byte(x)}, b...)
	}
	return rlpStr(b)
}

// ---------------- hex-prefix encoding ----------------

func nibbles(key []byte) []byte {
	out := make([]byte, 0, len(key)*2+1)
	for _, b := range key {
		out = append(out, b>>4, b&15)
	}
	return append(out, 16) // terminator
}

// hexPrefix encodes a nibble path (without terminator) with the leaf flag.
func hexPrefix(path []byte, leaf bool) []byte {
	flag := byte(0)
	if leaf {
		flag = 2
	}
	var out []byte
	if len(path)%2 == 1 {
		out = append(out, (flag+1)<<4|path[0])
		path = path[1:]
	} else {
		out = append(out, flag<<4)
	}
	for i := 0; i < len(path); i += 2 {
		out = append(out, path[i]<<4|path[i+1])
	}
	return out
}

// ---------------- specification root ----------------

type specEnt struct {
	nib []byte // nibbles + terminator
	val []byte
}

// specEmbedded counts nodes the specification embeds in their parent (reach probe only).
var specEmbedded int

func specRef(enc []byte) []byte {
	if len(enc) < 32 {
		specEmbedded++
		return enc // embedded in the parent
	}
	h := keccak(enc)
	return rlpStr(h[:])
}

// specEnc returns the RLP of the node covering es (sorted, all sharing the first d nibbles).
func specEnc(es []specEnt, d int) []byte {
	if len(es) == 1 {
		n := es[0].nib
		return rlpList(rlpStr(hexPrefix(n[d:len(n)-1], true)), rlpStr(es[0].val))
	}
	first, last := es[0].nib, es[len(es)-1].nib
	l := 0
	for d+l < len(first) && d+l < len(last) && first[d+l] == last[d+l] {
		l++
	}
	if l > 0 {
		return rlpList(rlpStr(hexPrefix(first[d:d+l], false)), specRef(specEnc(es, d+l)))
	}
	items := make([][]byte, 17)
	i := 0
	for nb := 0; nb < 16; nb++ {
		j := i
		for j < len(es) && int(es[j].nib[d]) == nb {
			j++
		}
		if j > i {
			items[nb] = specRef(specEnc(es[i:j], d+1))
		} else {
			items[nb] = []byte{0x80}
		}
		i = j
	}
	if i < len(es) { // the one key that ends exactly here
		items[16] = rlpStr(es[i].val)
	} else {
		items[16] = []byte{0x80}
	}
	return rlpList(items...)
}

var emptyRoot = keccak([]byte{0x80})

// specRoot derives the root of the given stored content (key -> non-empty value).
func specRoot(kv map[string][]byte) hash32 {
	if len(kv) == 0 {
		return emptyRoot
	}
	es := make([]specEnt, 0, len(kv))
	for k, v := range kv {
		es = append(es, specEnt{nibbles([]byte(k)), v})
	}
	sort.Slice(es, func(i, j int) bool { return bytes.Compare(es[i].nib, es[j].nib) < 0 })
	return keccak(specEnc(es, 0))
}

// ---------------- go-ethereum v1.9.15 ----------------

func gethTrie(kv map[string][]byte) *gtrie.Trie {
	t, err := gtrie.New(gcommon.Hash{}, gtrie.NewDatabase(gmem.New()))
	if err != nil {
		panic(err)
	}
	for _, k := range sortedKeys(kv) {
		if err := t.TryUpdate([]byte(k), kv[k]); err != nil {
			panic(err)
		}
	}
	return t
}

func gethRoot(kv map[string][]byte) hash32 { return hash32(gethTrie(kv).Hash()) }

func sortedKeys(kv map[string][]byte) []string {
	ks := make([]string, 0, len(kv))
	for k := range kv {
		ks = append(ks, k)
	}
	sort.Strings(ks)
	return ks
}

// ---------------- model content ----------------

// content is what a trie is supposed to hold: stored key -> stored value, plus
// the raw (pre-hashing) key of every entry for the secure mode.
type content struct {
	kv   map[string][]byte // stored key -> stored value (never empty)
	raw  map[string][]byte // stored key -> raw key
	memo *hash32           // specification root of kv, when known
}

func newContent() *content {
	return &content{kv: map[string][]byte{}, raw: map[string][]byte{}}
}

func (c *content) clone() *content {
	n := newContent()
	for k, v := range c.kv {
		n.kv[k] = v
		n.raw[k] = c.raw[k]
	}
	n.memo = c.memo
	return n
}

func (c *content) set(stored, raw, val []byte) {
	c.memo = nil
	if len(val) == 0 {
		delete(c.kv, string(stored))
		delete(c.raw, string(stored))
		return
	}
	c.kv[string(stored)] = append([]byte(nil), val...)
	c.raw[string(stored)] = append([]byte(nil), raw...)
}

func (c *content) root() hash32 {
	if c.memo == nil {
		r := specRoot(c.kv)
		c.memo = &r
	}
	return *c.memo
}

func (c *content) keys() []string { return sortedKeys(c.kv) }

func (c *content) equal(o *content) bool {
	if len(c.kv) != len(o.kv) {
		return false
	}
	for k, v := range c.kv {
		if w, ok := o.kv[k]; !ok || !bytes.Equal(v, w) {
			return false
		}
	}
	return true
}
