// Engine triesim (C07): tape-generated histories over the real stack
// trie.Trie / trie.StateTrie -> trie.Database (hashdb) -> SimDisk, judged step by
// step against a model map, a specification-level root function, go-ethereum
// v1.9.15's trie, the product's own StackTrie, proofs (with tampering) and a
// durability model of what must survive a dirty restart.
package triesim

import (
	"bytes"
	"errors"
	"fmt"
	"regexp"
	"runtime/debug"
	"sort"
	"strings"
	"testing"

	"verif/sim/core"

	gcommon "github.com/ethereum/go-ethereum/common"
	gmem "github.com/ethereum/go-ethereum/ethdb/memorydb"
	gtrie "github.com/ethereum/go-ethereum/trie"

	"github.com/kardiachain/go-kardia/lib/common"
	"github.com/kardiachain/go-kardia/trie"
	"github.com/kardiachain/go-kardia/trie/trienode"
	"github.com/kardiachain/go-kardia/types"
)

const prop = "C07"

const (
	modeVar = iota
	modeFixed
	modeSecure
)

var modeName = []string{"var", "fixed", "secure"}

const (
	maxKeys      = 64
	maxLiveRoots = 6
	maxKnown     = 10
)

// ---------------- handles over the two product trie flavours ----------------

type handle interface {
	Get(raw []byte) ([]byte, error)
	Put(raw, val []byte) error
	Del(raw []byte) error
	Hash() common.Hash
	Commit() (common.Hash, *trienode.NodeSet)
	Copy() handle
	Prove(stored []byte, w *proofRec) error
	NodeIterator(start []byte) trie.NodeIterator
}

type plainH struct{ t *trie.Trie }

func (p plainH) Get(raw []byte) ([]byte, error) { return p.t.Get(raw) }
func (p plainH) Put(raw, val []byte) error      { return p.t.Update(raw, val) }
func (p plainH) Del(raw []byte) error           { return p.t.Delete(raw) }
func (p plainH) Hash() common.Hash              { return p.t.Hash() }
func (p plainH) Commit() (common.Hash, *trienode.NodeSet) {
	return p.t.Commit(false)
}
func (p plainH) Copy() handle                                { return plainH{p.t.Copy()} }
func (p plainH) Prove(stored []byte, w *proofRec) error      { return p.t.Prove(stored, 0, w) }
func (p plainH) NodeIterator(start []byte) trie.NodeIterator { return p.t.NodeIterator(start) }

type secureH struct{ t *trie.StateTrie }

func (p secureH) Get(raw []byte) ([]byte, error) { return p.t.GetStorage(common.Address{}, raw) }
func (p secureH) Put(raw, val []byte) error {
	if len(val) == 0 {
		return p.t.DeleteStorage(common.Address{}, raw)
	}
	return p.t.UpdateStorage(common.Address{}, raw, val)
}
func (p secureH) Del(raw []byte) error { return p.t.DeleteStorage(common.Address{}, raw) }
func (p secureH) Hash() common.Hash    { return p.t.Hash() }
func (p secureH) Commit() (common.Hash, *trienode.NodeSet) {
	return p.t.Commit(false)
}
func (p secureH) Copy() handle                                { return secureH{p.t.Copy()} }
func (p secureH) Prove(stored []byte, w *proofRec) error      { return p.t.Prove(stored, 0, w) }
func (p secureH) NodeIterator(start []byte) trie.NodeIterator { return p.t.NodeIterator(start) }

// proofRec records a proof as the ordered list of what Prove wrote.
type proofRec struct {
	keys  [][]byte
	blobs [][]byte
}

func (p *proofRec) Put(key, value []byte) error {
	p.keys = append(p.keys, append([]byte(nil), key...))
	p.blobs = append(p.blobs, append([]byte(nil), value...))
	return nil
}
func (p *proofRec) Delete(key []byte) error { return errors.New("proof recorder: delete") }

// proofSet is what an honest verifier builds from a received list of node
// blobs: a set addressed by the verifier's own Keccak of every blob.
type proofSet map[string][]byte

func newProofSet(blobs [][]byte) proofSet {
	ps := proofSet{}
	for _, b := range blobs {
		h := keccak(b)
		ps[string(h[:])] = b
	}
	return ps
}
func (p proofSet) Has(key []byte) (bool, error) { _, ok := p[string(key)]; return ok, nil }
func (p proofSet) Get(key []byte) ([]byte, error) {
	v, ok := p[string(key)]
	if !ok {
		return nil, errNotFound
	}
	return v, nil
}

// ---------------- simulation state ----------------

type hstate struct {
	h    handle
	base hash32   // root the handle was opened from
	c    *content // what it must hold now
}

type rootRec struct {
	hash    hash32
	c       *content
	refs    int  // our Reference calls not yet undone by Dereference (this process lifetime)
	durable bool // Database.Commit(root) succeeded, or Cap(0) ran while the root was referenced
	born    int
}

type sim struct {
	t    *testing.T
	res  *core.RunResult
	tape *core.Tape
	h    *core.Hasher
	ah   *core.Hasher
	ops  []string

	mode       int
	fixedLen   int
	faultCfg   bool
	cleanCache bool
	preimages  bool

	disk *SimDisk
	tdb  *trie.Database
	w    *hstate
	// roots known to the model, oldest first
	roots  []*rootRec
	byHash map[hash32]*rootRec

	maxKeysSeen   int
	prefixKeySeen bool
	advers        int // adversarial operations that actually fired
	commits       int
	restarts      int
	failed        bool
	stepNo        int
}

func (s *sim) step(kind string, f string, a ...interface{}) {
	msg := kind
	if f != "" {
		msg += " " + fmt.Sprintf(f, a...)
	}
	if len(s.ops) < 60 {
		s.ops = append(s.ops, msg)
	}
	s.res.Tracef("%d %s", s.stepNo, msg)
	s.h.Add(msg)
	s.ah.Add(kind)
}

func (s *sim) note(f string, a ...interface{}) {
	msg := fmt.Sprintf(f, a...)
	s.res.Tracef("    %s", msg)
	s.h.Add(msg)
}

func (s *sim) fail(oracle, sig, f string, a ...interface{}) bool {
	if !s.failed {
		s.failed = true
		s.res.Violate(prop, oracle, sig, fmt.Sprintf(f, a...))
	}
	return false
}

func (s *sim) infra(f string, a ...interface{}) bool {
	if s.res.Infra == "" {
		s.res.Infra = fmt.Sprintf(f, a...)
	}
	s.failed = true
	return false
}

func isMissing(err error) bool {
	var m *trie.MissingNodeError
	return errors.As(err, &m)
}

func (s *sim) storedKey(raw []byte) []byte {
	if s.mode == modeSecure {
		h := keccak(raw)
		return h[:]
	}
	return raw
}

func (s *sim) storedVal(val []byte) []byte {
	if len(val) == 0 {
		return nil
	}
	if s.mode == modeSecure {
		return rlpStr(val)
	}
	return val
}

func (s *sim) newDB(disk *SimDisk) *trie.Database {
	cfg := &trie.Config{Preimages: s.preimages}
	if s.cleanCache {
		cfg.Cache = 1
	}
	return trie.NewDatabaseWithConfig(disk, cfg)
}

func (s *sim) dropDB(db *trie.Database) {
	if db == nil {
		return
	}
	if c := db.VerifCleans(); c != nil {
		c.Reset() // hand the off-heap chunks back; the cache is never used again
	}
}

func (s *sim) open(db *trie.Database, root hash32) (handle, error) {
	if s.mode == modeSecure {
		t, err := trie.NewStateTrie(trie.StateTrieID(common.Hash(root)), db)
		if err != nil {
			return nil, err
		}
		return secureH{t}, nil
	}
	t, err := trie.New(trie.TrieID(common.Hash(root)), db)
	if err != nil {
		return nil, err
	}
	return plainH{t}, nil
}

// refRoot is the root the model's content must have: the specification
// function, cross-checked once per content against go-ethereum.
func (s *sim) refRoot(c *content) hash32 {
	if c.memo != nil {
		return *c.memo
	}
	r := c.root()
	if g := gethRoot(c.kv); g != r {
		s.infra("reference implementations disagree: spec %x geth %x content %s", r, g, fmtContent(c))
	}
	return r
}

func fmtContent(c *content) string {
	var b strings.Builder
	for i, k := range c.keys() {
		if i >= 70 {
			b.WriteString("...")
			break
		}
		fmt.Fprintf(&b, "%x=%s ", k, fmtVal(c.kv[k]))
	}
	return b.String()
}

func fmtVal(v []byte) string {
	if v == nil {
		return "<absent>"
	}
	if len(v) <= 6 {
		return fmt.Sprintf("%x", v)
	}
	return fmt.Sprintf("%x..(%d)", v[:4], len(v))
}

func (s *sim) live(r *rootRec) bool { return r.refs > 0 || r.durable || r.hash == emptyRoot }

func (s *sim) liveRoots() []*rootRec {
	var out []*rootRec
	for _, r := range s.roots {
		if s.live(r) {
			out = append(out, r)
		}
	}
	return out
}

// record registers (root, content); one root hash must never stand for two contents.
func (s *sim) record(root hash32, c *content) *rootRec {
	if r, ok := s.byHash[root]; ok {
		if !r.c.equal(c) {
			s.fail("canonical-root", "two different contents have the same root hash",
				"root %x\ncontent A %s\ncontent B %s", root, fmtContent(r.c), fmtContent(c))
		}
		return r
	}
	r := &rootRec{hash: root, c: c.clone(), born: s.stepNo}
	if root == emptyRoot {
		r.durable = true
	}
	s.roots = append(s.roots, r)
	s.byHash[root] = r
	// forget the oldest roots nobody relies on any more
	for len(s.roots) > maxKnown {
		drop := -1
		for i, x := range s.roots {
			if !s.live(x) && x.hash != s.w.base {
				drop = i
				break
			}
		}
		if drop < 0 {
			break
		}
		delete(s.byHash, s.roots[drop].hash)
		s.roots = append(s.roots[:drop], s.roots[drop+1:]...)
	}
	return r
}

// ---------------- generators ----------------

var alphabet = []byte{0x11, 0x12, 0x21, 0x1f, 0xf0, 0x00}

func (s *sim) pickExisting(c *content) ([]byte, bool) {
	ks := c.keys()
	if len(ks) == 0 {
		return nil, false
	}
	k := ks[s.tape.Draw(len(ks))]
	return c.raw[k], true
}

func (s *sim) genKey(c *content) []byte {
	t := s.tape
	var L int
	switch s.mode {
	case modeFixed:
		L = s.fixedLen
	case modeSecure:
		L = t.Range(1, 3)
	default:
		switch t.Weighted(8, 4, 1, 2, 2, 2) {
		case 0:
			L = t.Range(1, 3)
		case 1:
			L = t.Range(4, 8)
		case 2:
			L = 0
		case 3:
			L = t.Range(9, 31)
		case 4:
			L = 32
		case 5:
			L = t.Range(33, 40)
		}
	}
	var key []byte
	if len(c.kv) > 0 && t.Chance(1, 2) {
		if ex, ok := s.pickExisting(c); ok && len(ex) > 0 {
			p := t.Range(0, len(ex))
			if p > L {
				p = L
			}
			key = append(key, ex[:p]...)
		}
	}
	for i := 0; len(key) < L; i++ {
		if i < 3 {
			key = append(key, alphabet[t.Draw(len(alphabet))])
		} else {
			// one more draw decides the whole tail
			d := t.Draw(len(alphabet))
			for j := 0; len(key) < L; j++ {
				key = append(key, alphabet[(d+j/5)%len(alphabet)])
			}
		}
	}
	if key == nil {
		key = []byte{}
	}
	return key
}

func (s *sim) genVal() []byte {
	t := s.tape
	var n int
	switch t.Weighted(4, 2, 2, 2, 1) {
	case 0:
		n = t.Range(1, 4)
	case 1:
		n = t.Range(5, 31)
	case 2:
		n = t.Range(31, 33)
	case 3:
		n = t.Range(34, 70)
	default:
		n = t.Range(100, 300)
	}
	seed := byte(t.Draw(256))
	v := make([]byte, n)
	for i := range v {
		v[i] = seed + byte(i)*7
	}
	return v
}

// ---------------- elementary checked operations ----------------

// put applies one update to a handle and its model; no fault is armed here.
func (s *sim) put(hs *hstate, raw, val []byte) bool {
	var err error
	if len(val) == 0 && s.tape.Chance(1, 2) {
		err = hs.h.Del(raw)
	} else {
		err = hs.h.Put(raw, val)
	}
	if err != nil {
		return s.fail("update-error", "update or delete failed on a trie whose base root is live and no fault is injected",
			"key %x val %s err %v", raw, fmtVal(val), err)
	}
	hs.c.set(s.storedKey(raw), raw, s.storedVal(val))
	if len(hs.c.kv) > s.maxKeysSeen {
		s.maxKeysSeen = len(hs.c.kv)
	}
	return true
}

// getCheck compares one Get with the model. must=false tolerates MissingNodeError.
func (s *sim) getCheck(hs handle, c *content, raw []byte, must bool, where string) (ok bool, missing bool) {
	got, err := hs.Get(raw)
	want := c.kv[string(s.storedKey(raw))]
	if err != nil {
		if !isMissing(err) {
			return s.fail("get-error", "Get failed with an error that is not MissingNodeError ("+where+")", "key %x err %v", raw, err), false
		}
		if must {
			return s.fail("get-missing", "Get reports a missing node although the root is live ("+where+")",
				"key %x want %s err %v", raw, fmtVal(want), err), true
		}
		return true, true
	}
	gotStored := s.storedVal(got)
	if !bytes.Equal(gotStored, want) {
		return s.fail("get", "Get returns a value different from the last one written ("+where+")",
			"key %x got %s want %s", raw, fmtVal(gotStored), fmtVal(want)), false
	}
	return true, false
}

// checkRoot opens root r in db and compares everything with the recorded content.
// must: the root is guaranteed to be available. Returns false on violation.
func (s *sim) checkRoot(db *trie.Database, r *rootRec, must bool, where string) bool {
	h, err := s.open(db, r.hash)
	if err != nil {
		if !isMissing(err) {
			return s.fail("open-error", "opening a root failed with an error that is not MissingNodeError ("+where+")", "root %x err %v", r.hash, err)
		}
		if must {
			return s.fail("open-missing", "a root that must be available does not open ("+where+")",
				"root %x refs=%d durable=%v err %v", r.hash, r.refs, r.durable, err)
		}
		s.res.Probe("unreferenced-root-gone")
		return true
	}
	complete := true
	for _, k := range r.c.keys() {
		ok, missing := s.getCheck(h, r.c, r.c.raw[k], must, where)
		if !ok {
			return false
		}
		if missing {
			complete = false
			s.res.Probe("unreferenced-root-partly-gone")
			break
		}
	}
	if complete {
		// a few keys that must be absent
		for i := 0; i < 2; i++ {
			raw := s.genKey(r.c)
			if ok, _ := s.getCheck(h, r.c, raw, must, where); !ok {
				return false
			}
		}
		if got := hash32(h.Hash()); got != r.hash {
			return s.fail("reopen-hash", "a trie opened by root reports a different root hash ("+where+")", "opened %x reports %x", r.hash, got)
		}
		if !must {
			s.res.Probe("unreferenced-root-still-complete")
		}
	}
	return true
}

func (s *sim) checkLive(where string) bool {
	for _, r := range s.liveRoots() {
		if !s.checkRoot(s.tdb, r, true, where) {
			return false
		}
	}
	return true
}

// ---------------- operations ----------------

func (s *sim) opUpdate() {
	c := s.w.c
	var raw []byte
	if ex, ok := s.pickExisting(c); ok && s.tape.Chance(1, 3) {
		raw = ex
	} else {
		raw = s.genKey(c)
	}
	var val []byte
	if !s.tape.Chance(1, 10) {
		val = s.genVal()
	}
	if _, exists := c.kv[string(s.storedKey(raw))]; !exists && len(c.kv) >= maxKeys {
		val = nil
	}
	s.step("update", "%x=%s", raw, fmtVal(val))
	if !s.put(s.w, raw, val) {
		return
	}
	if s.tape.Chance(1, 4) {
		s.getCheck(s.w.h, c, raw, true, "read back")
	}
}

func (s *sim) opDelete() {
	c := s.w.c
	var raw []byte
	if ex, ok := s.pickExisting(c); ok && !s.tape.Chance(1, 5) {
		raw = ex
	} else {
		raw = s.genKey(c)
	}
	s.step("delete", "%x", raw)
	if !s.put(s.w, raw, nil) {
		return
	}
	if s.tape.Chance(1, 4) {
		s.getCheck(s.w.h, c, raw, true, "read back")
	}
}

func (s *sim) opGet() {
	c := s.w.c
	var raw []byte
	if ex, ok := s.pickExisting(c); ok && !s.tape.Chance(1, 3) {
		raw = ex
	} else {
		raw = s.genKey(c)
	}
	s.step("get", "%x", raw)
	s.getCheck(s.w.h, c, raw, true, "working trie")
}

func (s *sim) checkHash(hs *hstate, where string) bool {
	got := hash32(hs.h.Hash())
	want := s.refRoot(hs.c)
	if s.failed {
		return false
	}
	if got != want {
		return s.fail("root", "root hash differs from the root of an independent trie with the same content ("+where+")",
			"got %x want %x (%d keys) content %s", got, want, len(hs.c.kv), fmtContent(hs.c))
	}
	return true
}

func (s *sim) opHash() {
	s.step("hash", "")
	if s.checkHash(s.w, "Hash") {
		s.note("root %x", s.w.c.root())
	}
}

// commitHandle commits hs into db (Trie.Commit -> Database.Update), references the
// new root when asked to, and reopens the handle on it.
func (s *sim) commitHandle(db *trie.Database, hs *hstate, reference bool, where string) bool {
	root, nodes := hs.h.Commit()
	want := s.refRoot(hs.c)
	if s.failed {
		return false
	}
	if hash32(root) != want {
		return s.fail("root", "root hash differs from the root of an independent trie with the same content ("+where+")",
			"got %x want %x (%d keys) content %s", root, want, len(hs.c.kv), fmtContent(hs.c))
	}
	if nodes != nil {
		if err := db.Update(root, common.Hash(hs.base), trienode.NewWithNodeSet(nodes)); err != nil {
			return s.fail("db-update", "Database.Update failed on a committed node set", "root %x err %v", root, err)
		}
	}
	if reference && want != emptyRoot {
		db.Reference(root, common.Hash{})
	}
	h, err := s.open(db, want)
	if err != nil {
		return s.fail("open-missing", "a root that must be available does not open ("+where+")", "root %x err %v", want, err)
	}
	hs.h, hs.base = h, want
	return true
}

func (s *sim) opCommit() {
	if len(s.liveRoots()) >= maxLiveRoots+1 { // +1: the empty root is always there
		s.opDereference()
		return
	}
	if s.tape.Chance(1, 8) {
		// side commit: a copy is committed and never referenced (garbage in the dirty
		// cache that shares nodes with live roots); the working trie must not notice
		s.step("sidecommit", "")
		cp := &hstate{h: s.w.h.Copy(), base: s.w.base, c: s.w.c.clone()}
		if !s.commitHandle(s.tdb, cp, false, "commit of a copy") {
			return
		}
		s.record(cp.base, cp.c)
		s.res.Probe("unreferenced-side-commit")
		if ex, ok := s.pickExisting(s.w.c); ok {
			s.getCheck(s.w.h, s.w.c, ex, true, "working trie after its copy was committed")
		}
		s.checkHash(s.w, "working trie after its copy was committed")
		return
	}
	s.step("commit", "")
	if !s.commitHandle(s.tdb, s.w, true, "Commit") {
		return
	}
	r := s.record(s.w.base, s.w.c)
	if s.failed {
		return
	}
	if r.hash != emptyRoot {
		r.refs++
	}
	if ks := r.c.keys(); s.mode == modeVar {
		for i := 0; i+1 < len(ks); i++ {
			if strings.HasPrefix(ks[i+1], ks[i]) {
				s.prefixKeySeen = true
			}
		}
	}
	s.commits++
	s.note("root %x keys %d refs %d", r.hash, len(r.c.kv), r.refs)
	if s.tape.Chance(1, 3) {
		s.checkRoot(s.tdb, r, true, "after commit")
	}
}

func (s *sim) opReference() {
	var cand []*rootRec
	for _, r := range s.roots {
		if r.refs > 0 && r.hash != emptyRoot {
			cand = append(cand, r)
		}
	}
	if len(cand) == 0 {
		s.opCommit()
		return
	}
	r := cand[s.tape.Draw(len(cand))]
	s.step("reference", "%x", r.hash[:4])
	s.tdb.Reference(common.Hash(r.hash), common.Hash{})
	r.refs++
}

func (s *sim) opDereference() {
	var cand []*rootRec
	for _, r := range s.roots {
		if r.refs == 0 || r.hash == emptyRoot {
			continue
		}
		if r.hash == s.w.base && r.refs == 1 && !r.durable {
			continue // the working trie still reads through this root
		}
		cand = append(cand, r)
	}
	if len(cand) == 0 {
		s.opGet()
		return
	}
	r := cand[s.tape.Draw(len(cand))]
	s.step("dereference", "%x refs %d->%d durable=%v", r.hash[:4], r.refs, r.refs-1, r.durable)
	s.tdb.Dereference(common.Hash(r.hash))
	r.refs--
	if n := len(s.liveRoots()); n >= 3 {
		s.res.Probe("dereference-with-2+-other-live-roots")
	}
	if r.refs == 0 && !r.durable {
		s.res.Fault("dereference-to-zero")
		s.advers++
	}
	if !s.checkLive("after Dereference of another root") {
		return
	}
	// the working handle must be unaffected as well
	if ex, ok := s.pickExisting(s.w.c); ok {
		s.getCheck(s.w.h, s.w.c, ex, true, "working trie after Dereference")
	}
}

func (s *sim) opCap() {
	size, _ := s.tdb.Size()
	var limit common.StorageSize
	kind := s.tape.Weighted(3, 2, 2, 1)
	switch kind {
	case 0:
		limit = 0
	case 1:
		limit = size / 2
	case 2:
		limit = size * common.StorageSize(s.tape.Range(1, 9)) / 10
	case 3:
		limit = size + 1
	}
	s.step("cap", "kind %d", kind)
	before := s.disk.Len()
	if err := s.tdb.Cap(limit); err != nil {
		s.fail("cap-error", "Database.Cap failed without an injected fault", "limit %v err %v", limit, err)
		return
	}
	if s.disk.Len() > before {
		s.res.Fault("cap-flush")
		s.advers++
	}
	if kind == 0 {
		if sz, _ := s.tdb.Size(); sz != 0 {
			s.fail("cap-size", "Cap(0) leaves dirty nodes in memory", "size after %v", sz)
			return
		}
		for _, r := range s.roots {
			if r.refs > 0 {
				r.durable = true
			}
		}
	}
	s.checkLive("after Cap")
}

func (s *sim) opDBCommit() {
	var cand []*rootRec
	for _, r := range s.liveRoots() {
		if r.hash != emptyRoot {
			cand = append(cand, r)
		}
	}
	if len(cand) == 0 {
		s.opCommit()
		return
	}
	r := cand[s.tape.Draw(len(cand))]
	s.step("dbcommit", "%x", r.hash[:4])
	if err := s.tdb.Commit(common.Hash(r.hash), false); err != nil {
		s.fail("dbcommit-error", "Database.Commit failed without an injected fault", "root %x err %v", r.hash, err)
		return
	}
	r.durable = true
	s.res.Fault("db-commit")
	s.checkLive("after Database.Commit")
}

func (s *sim) opCopy() {
	s.step("copy", "")
	a := s.w
	b := &hstate{h: a.h.Copy(), base: a.base, c: a.c.clone()}
	mut, other := a, b
	if s.tape.Chance(1, 2) {
		mut, other = b, a
	}
	n := s.tape.Range(1, 3)
	var touched [][]byte
	for i := 0; i < n; i++ {
		var raw []byte
		if ex, ok := s.pickExisting(mut.c); ok && s.tape.Chance(1, 2) {
			raw = ex
		} else {
			raw = s.genKey(mut.c)
		}
		var val []byte
		if len(mut.c.kv) < maxKeys && !s.tape.Chance(1, 4) {
			val = s.genVal()
		}
		s.note("mutate %x=%s", raw, fmtVal(val))
		if !s.put(mut, raw, val) {
			return
		}
		touched = append(touched, raw)
	}
	if s.tape.Chance(1, 2) {
		if !s.checkHash(mut, "mutated side of a copy") {
			return
		}
	}
	for _, raw := range touched {
		if ok, _ := s.getCheck(other.h, other.c, raw, true, "copy must not see changes of its sibling"); !ok {
			return
		}
	}
	if !s.checkHash(other, "untouched side of a copy") {
		return
	}
	if s.tape.Chance(1, 2) {
		s.w = other
	} else {
		s.w = mut
	}
}

func (s *sim) opReopen() {
	if len(s.roots) == 0 {
		s.opGet()
		return
	}
	r := s.roots[s.tape.Draw(len(s.roots))]
	must := s.live(r)
	s.step("reopen", "%x must=%v", r.hash[:4], must)
	if !s.checkRoot(s.tdb, r, must, "reopen by root") {
		return
	}
	if must && s.tape.Chance(1, 2) {
		h, err := s.open(s.tdb, r.hash)
		if err != nil {
			s.fail("open-missing", "a root that must be available does not open (checkout)", "root %x err %v", r.hash, err)
			return
		}
		s.note("checkout")
		s.w = &hstate{h: h, base: r.hash, c: r.c.clone()}
	}
}

// restart: every in-memory object is dropped; a new trie.Database is opened
// over what the disk holds.
func (s *sim) opRestart(final bool) {
	s.step("restart", "")
	s.dropDB(s.tdb)
	s.tdb = s.newDB(s.disk)
	s.restarts++
	s.res.Fault("dirty-restart")
	s.advers++
	var durable []*rootRec
	for _, r := range s.roots {
		r.refs = 0
		if r.durable {
			durable = append(durable, r)
		}
	}
	for _, r := range s.roots {
		if !s.checkRoot(s.tdb, r, r.durable, "after dirty restart") {
			return
		}
		if r.durable && r.hash != emptyRoot {
			s.res.Probe("durable-root-verified-after-restart")
		}
	}
	// preimages of durable secure tries
	if s.mode == modeSecure && s.preimages {
		for _, r := range durable {
			if r.hash == emptyRoot {
				continue
			}
			st, err := trie.NewStateTrie(trie.StateTrieID(common.Hash(r.hash)), s.tdb)
			if err != nil {
				continue
			}
			for _, k := range r.c.keys() {
				if got := st.GetKey([]byte(k)); got != nil && !bytes.Equal(got, r.c.raw[k]) {
					s.fail("preimage", "a stored key preimage differs from the key that was written", "hashed %x got %x want %x", k, got, r.c.raw[k])
					return
				}
			}
		}
	}
	idx := s.tape.Draw(len(durable) + 2)
	if idx >= len(durable) {
		idx = len(durable) - 1 // the latest durable root
	}
	r := durable[idx]
	h, err := s.open(s.tdb, r.hash)
	if err != nil {
		s.fail("open-missing", "a root that must be available does not open (after dirty restart)", "root %x err %v", r.hash, err)
		return
	}
	s.note("continue on %x", r.hash[:4])
	s.w = &hstate{h: h, base: r.hash, c: r.c.clone()}
}

// ---------------- proofs ----------------

func (s *sim) verifyBoth(root hash32, stored []byte, blobs [][]byte) (val []byte, err error, gval []byte, gerr error) {
	val, err = trie.VerifyProof(common.Hash(root), stored, newProofSet(blobs))
	gdb := gmem.New()
	for _, b := range blobs {
		h := keccak(b)
		gdb.Put(h[:], b)
	}
	gval, gerr = gtrie.VerifyProof(gcommon.Hash(root), stored, gdb)
	return
}

func (s *sim) opProve() {
	c := s.w.c
	var raw []byte
	if ex, ok := s.pickExisting(c); ok && !s.tape.Chance(1, 3) {
		raw = ex
	} else {
		raw = s.genKey(c)
	}
	stored := s.storedKey(raw)
	want := c.kv[string(stored)]
	hashFirst := s.tape.Chance(1, 2)
	s.step("prove", "%x present=%v hashFirst=%v", raw, want != nil, hashFirst)
	if hashFirst && !s.checkHash(s.w, "before Prove") {
		return
	}
	rec := &proofRec{}
	if err := s.w.h.Prove(stored, rec); err != nil {
		s.fail("prove-error", "Prove failed on a trie whose base root is live", "key %x err %v", raw, err)
		return
	}
	if !s.checkHash(s.w, "after Prove") {
		return
	}
	root := s.w.c.root()
	if len(rec.blobs) == 0 && root != emptyRoot {
		s.fail("proof-empty", "Prove returned no node for a non-empty trie", "key %x", raw)
		return
	}
	for i, b := range rec.blobs {
		if h := keccak(b); !bytes.Equal(h[:], rec.keys[i]) {
			s.fail("proof-key", "Prove stores a node under a key that is not the Keccak hash of the node", "node %d key %x keccak %x", i, rec.keys[i], h)
			return
		}
	}
	val, err, gval, gerr := s.verifyBoth(root, stored, rec.blobs)
	if root == emptyRoot {
		// an empty trie has no root node: nothing can be proven; only demand no wrong value
		if err == nil && len(val) != 0 {
			s.fail("proof-verify", "a proof verifies to a value the trie does not hold", "key %x got %s", raw, fmtVal(val))
		}
		return
	}
	if err != nil || !bytes.Equal(val, want) {
		s.fail("proof-verify", "a proof produced by Prove does not verify to the stored value or absence",
			"key %x got %s err %v want %s nodes %d", raw, fmtVal(val), err, fmtVal(want), len(rec.blobs))
		return
	}
	if gerr != nil || !bytes.Equal(gval, want) {
		s.fail("proof-verify-independent", "a proof produced by Prove does not verify under an independent verifier",
			"key %x got %s err %v want %s", raw, fmtVal(gval), gerr, fmtVal(want))
		return
	}
	// a proof produced by the independent implementation must verify here too
	if s.tape.Chance(1, 3) {
		gt := gethTrie(c.kv)
		gdb := gmem.New()
		if err := gt.Prove(stored, 0, gdb); err == nil {
			var blobs [][]byte
			it := gdb.NewIterator(nil, nil)
			for it.Next() {
				blobs = append(blobs, append([]byte(nil), it.Value()...))
			}
			it.Release()
			v, err := trie.VerifyProof(common.Hash(root), stored, newProofSet(blobs))
			if err != nil || !bytes.Equal(v, want) {
				s.fail("proof-verify-foreign", "VerifyProof rejects or misreads a valid proof produced by an independent implementation",
					"key %x got %s err %v want %s", raw, fmtVal(v), err, fmtVal(want))
				return
			}
		}
	}
	// tampering
	nm := s.tape.Range(1, 4)
	for m := 0; m < nm; m++ {
		blobs := make([][]byte, len(rec.blobs))
		for i, b := range rec.blobs {
			blobs[i] = append([]byte(nil), b...)
		}
		i := s.tape.Draw(len(blobs))
		var what string
		switch s.tape.Weighted(5, 2, 2, 1, 1, 2) {
		case 0:
			off := s.tape.Draw(len(blobs[i]))
			mask := byte(1 << s.tape.Draw(8))
			blobs[i][off] ^= mask
			what = "flip"
		case 1:
			blobs = append(blobs[:i], blobs[i+1:]...)
			what = "drop"
		case 2:
			j := s.tape.Draw(len(blobs))
			blobs[i] = append([]byte(nil), blobs[j]...)
			what = "swap"
		case 3:
			blobs[i] = blobs[i][:len(blobs[i])-1]
			what = "truncate"
		case 4:
			blobs[i] = append(blobs[i], byte(s.tape.Draw(256)))
			what = "extend"
		case 5:
			// replace the value inside the last node by another one of the same length
			last := blobs[len(blobs)-1]
			if len(want) > 0 && bytes.Contains(last, want) {
				p := bytes.LastIndex(last, want)
				last[p+s.tape.Draw(len(want))] ^= 0x55
			} else {
				last[len(last)-1] ^= 0x01
			}
			what = "value"
		}
		s.res.Fault("proof-tamper-" + what)
		s.advers++
		v, err, gv, gerr := s.verifyBoth(root, stored, blobs)
		s.note("tamper %s node %d -> err=%v", what, i, err != nil)
		if err == nil && !bytes.Equal(v, want) {
			s.fail("proof-tamper", "a tampered proof ("+what+") verifies to a different value",
				"key %x tampered result %s genuine %s", raw, fmtVal(v), fmtVal(want))
			return
		}
		if (err == nil) != (gerr == nil) || (err == nil && !bytes.Equal(v, gv)) {
			s.res.Probe("tamper-verdict-differs-from-geth")
		}
		if err != nil {
			s.res.Probe("tampered-proof-rejected")
		} else {
			s.res.Probe("tampered-proof-same-value")
		}
	}
	s.hostileReaderProbe(root, stored, want, rec)
}

// hostileReaderProbe is an observation, never a verdict: VerifyProof does not
// hash what its reader returns, so a reader that is not content-addressed (here:
// the genuine keys, one blob altered) decides the outcome.
func (s *sim) hostileReaderProbe(root hash32, stored, want []byte, rec *proofRec) {
	if len(want) == 0 || len(rec.blobs) == 0 {
		return
	}
	ps := proofSet{}
	for i, b := range rec.blobs {
		ps[string(rec.keys[i])] = append([]byte(nil), b...)
	}
	last := ps[string(rec.keys[len(rec.keys)-1])]
	p := bytes.LastIndex(last, want)
	if p < 0 {
		return
	}
	last[p+len(want)-1] ^= 0x01
	v, err := trie.VerifyProof(common.Hash(root), stored, ps)
	switch {
	case err != nil:
		s.res.Probe("reader-not-content-addressed:rejected")
	case bytes.Equal(v, want):
		s.res.Probe("reader-not-content-addressed:same-value")
	default:
		s.res.Probe("reader-not-content-addressed:different-value-accepted")
	}
}

// range proofs need equal-length keys: fixed and secure modes only.
func (s *sim) opRange() {
	c := s.w.c
	ks := c.keys()
	if s.mode == modeVar || len(ks) == 0 {
		s.opProve()
		return
	}
	if !s.checkHash(s.w, "before range proof") {
		return
	}
	root := c.root()
	n := len(ks)
	i := s.tape.Draw(n)
	j := i + s.tape.Draw(n-i)
	keys := make([][]byte, 0, j-i+1)
	vals := make([][]byte, 0, j-i+1)
	for _, k := range ks[i : j+1] {
		keys = append(keys, []byte(k))
		vals = append(vals, c.kv[k])
	}
	first, last := keys[0], keys[len(keys)-1]
	klen := len(first)
	edge := s.tape.Weighted(4, 2, 2)
	if edge == 1 && i == 0 {
		z := make([]byte, klen)
		if bytes.Compare(z, first) < 0 {
			first = z
		}
	}
	if edge == 2 && j == n-1 {
		f := bytes.Repeat([]byte{0xff}, klen)
		if bytes.Compare(f, last) > 0 {
			last = f
		}
	}
	s.step("range", "%d..%d of %d edge %d", i, j, n, edge)
	var proof proofSet
	whole := i == 0 && j == n-1 && s.tape.Chance(1, 2)
	if !whole {
		rec := &proofRec{}
		if err := s.w.h.Prove(first, rec); err != nil {
			s.fail("prove-error", "Prove failed on a trie whose base root is live", "key %x err %v", first, err)
			return
		}
		if err := s.w.h.Prove(last, rec); err != nil {
			s.fail("prove-error", "Prove failed on a trie whose base root is live", "key %x err %v", last, err)
			return
		}
		proof = newProofSet(rec.blobs)
	}
	verify := func(keys, vals [][]byte) (bool, error) {
		if whole {
			return trie.VerifyRangeProof(common.Hash(root), nil, nil, keys, vals, nil)
		}
		return trie.VerifyRangeProof(common.Hash(root), first, last, keys, vals, proof)
	}
	more, err := verify(keys, vals)
	if err != nil {
		s.fail("range-verify", "a correct range with correct edge proofs is rejected", "range %d..%d of %d first %x last %x err %v", i, j, n, first, last, err)
		return
	}
	if wantMore := j < n-1; more != wantMore && !whole {
		s.fail("range-more", "range proof reports the wrong 'more elements' flag", "range %d..%d of %d more=%v", i, j, n, more)
		return
	}
	// tampered ranges must be rejected
	nm := s.tape.Range(1, 3)
	for m := 0; m < nm; m++ {
		k2 := make([][]byte, len(keys))
		v2 := make([][]byte, len(vals))
		copy(k2, keys)
		copy(v2, vals)
		var what string
		switch s.tape.Weighted(3, 2, 2, 2, 2) {
		case 3:
			// a key the trie does not hold, appended beyond the last edge key
			if whole {
				continue
			}
			nk := append([]byte(nil), last...)
			if bytes.Compare(keys[len(keys)-1], last) > 0 {
				nk = append([]byte(nil), keys[len(keys)-1]...)
			}
			p := klen - 1
			for p >= 0 && nk[p] == 0xff {
				p--
			}
			if p < 0 {
				continue
			}
			nk[p]++
			if _, exists := c.kv[string(nk)]; exists {
				continue
			}
			k2 = append(k2, nk)
			v2 = append(v2, []byte{0x01})
			what = "outside"
		case 4:
			// a key the trie does not hold, prepended before the first edge key
			if whole {
				continue
			}
			nk := append([]byte(nil), first...)
			p := klen - 1
			for p >= 0 && nk[p] == 0x00 {
				p--
			}
			if p < 0 {
				continue
			}
			nk[p]--
			if _, exists := c.kv[string(nk)]; exists {
				continue
			}
			k2 = append([][]byte{nk}, k2...)
			v2 = append([][]byte{{0x01}}, v2...)
			what = "outside"
		case 0:
			x := s.tape.Draw(len(v2))
			nv := append([]byte(nil), v2[x]...)
			nv[s.tape.Draw(len(nv))] ^= 0x01
			v2[x] = nv
			what = "changed value"
		case 1:
			if len(k2) < 2 {
				continue
			}
			x := s.tape.Draw(len(k2))
			k2 = append(k2[:x:x], k2[x+1:]...)
			v2 = append(v2[:x:x], v2[x+1:]...)
			what = "omitted element"
		case 2:
			// insert a key that is not in the trie between two neighbours
			x := s.tape.Draw(len(k2))
			nk := append([]byte(nil), k2[x]...)
			if nk[klen-1] == 0xff {
				continue
			}
			nk[klen-1]++
			if _, exists := c.kv[string(nk)]; exists {
				continue
			}
			if !whole && bytes.Compare(nk, last) > 0 {
				continue
			}
			k2 = append(k2[:x+1:x+1], append([][]byte{nk}, k2[x+1:]...)...)
			v2 = append(v2[:x+1:x+1], append([][]byte{{0x01}}, v2[x+1:]...)...)
			what = "added element"
		}
		s.res.Fault("range-tamper")
		s.advers++
		s.note("tamper %s", what)
		var err error
		var pmsg string
		func() {
			defer func() {
				if p := recover(); p != nil {
					pmsg = fmt.Sprint(p)
				}
			}()
			_, err = verify(k2, v2)
		}()
		if pmsg != "" {
			if what == "outside" {
				s.fail("range-outside-panic", "VerifyRangeProof panics on a range with an extra key outside the proven interval [firstKey,lastKey]",
					"panic %s\nrange %d..%d of %d first %x last %x claimed keys %x", pmsg, i, j, n, first, last, k2)
			} else {
				s.fail("range-tamper-panic", "VerifyRangeProof panics on a tampered range ("+what+"): "+panicClass(pmsg),
					"panic %s\nrange %d..%d of %d first %x last %x claimed keys %x", pmsg, i, j, n, first, last, k2)
			}
			return
		}
		if err == nil && what == "outside" {
			s.fail("range-outside", "a range with an extra key outside the proven interval [firstKey,lastKey], which the trie does not hold, is accepted by VerifyRangeProof",
				"range %d..%d of %d first %x last %x claimed keys %x", i, j, n, first, last, k2)
			return
		} else if err == nil {
			s.fail("range-tamper", "a range that differs from the trie content ("+what+") is accepted by VerifyRangeProof",
				"range %d..%d of %d first %x last %x whole=%v", i, j, n, first, last, whole)
			return
		}
	}
}

// ---------------- iteration ----------------

func (s *sim) opIterate() {
	c := s.w.c
	var start []byte
	ordered := s.mode != modeVar
	if ordered && s.tape.Chance(1, 2) {
		if ex, ok := s.pickExisting(c); ok && s.tape.Chance(1, 2) {
			start = s.storedKey(ex)
		} else if s.mode == modeSecure {
			start = bytes.Repeat([]byte{byte(s.tape.Draw(256))}, 32)
		} else {
			start = s.genKey(c)
		}
	}
	s.step("iterate", "start %x", start)
	var want []string
	for _, k := range c.keys() {
		if start == nil || k >= string(start) {
			want = append(want, k)
		}
	}
	it := trie.NewIterator(s.w.h.NodeIterator(start))
	var got []string
	vals := map[string][]byte{}
	for it.Next() {
		got = append(got, string(it.Key))
		vals[string(it.Key)] = append([]byte(nil), it.Value...)
		if len(got) > maxKeys+8 {
			break
		}
	}
	if it.Err != nil {
		s.fail("iterate-error", "iteration failed on a trie whose base root is live", "err %v", it.Err)
		return
	}
	if !ordered {
		sort.Strings(got)
	}
	if len(got) != len(want) {
		s.fail("iterate", "leaf iteration does not enumerate exactly the stored keys", "got %d keys %x\nwant %d keys %x", len(got), got, len(want), want)
		return
	}
	for i := range got {
		if got[i] != want[i] {
			s.fail("iterate", "leaf iteration does not enumerate exactly the stored keys", "position %d got %x want %x", i, got[i], want[i])
			return
		}
		if !bytes.Equal(vals[got[i]], c.kv[got[i]]) {
			s.fail("iterate-value", "leaf iteration yields a value different from the stored one", "key %x got %s want %s", got[i], fmtVal(vals[got[i]]), fmtVal(c.kv[got[i]]))
			return
		}
	}
	// node level: every node that carries a hash is the Keccak of its blob
	if s.tape.Chance(1, 2) {
		nit := s.w.h.NodeIterator(nil)
		leaves := 0
		for nit.Next(true) {
			if nit.Leaf() {
				leaves++
				continue
			}
			if h := nit.Hash(); h != (common.Hash{}) {
				blob := nit.NodeBlob()
				if k := keccak(blob); blob != nil && k != hash32(h) {
					s.fail("iterate-node", "node iterator reports a node whose hash is not the Keccak of its encoding", "path %x hash %x keccak %x", nit.Path(), h, k)
					return
				}
			}
		}
		if nit.Error() != nil || leaves != len(c.kv) {
			s.fail("iterate", "leaf iteration does not enumerate exactly the stored keys", "node iterator leaves %d want %d err %v", leaves, len(c.kv), nit.Error())
		}
	}
}

// ---------------- StackTrie / DeriveSha ----------------

// prefixFree drops every key that is a proper prefix of another one (StackTrie
// and DeriveSha are specified for prefix-free key sets only).
func prefixFree(kv map[string][]byte) map[string][]byte {
	ks := sortedKeys(kv)
	out := map[string][]byte{}
	for i, k := range ks {
		if i+1 < len(ks) && strings.HasPrefix(ks[i+1], k) {
			continue
		}
		out[k] = kv[k]
	}
	return out
}

func (s *sim) opStack() {
	sub := prefixFree(s.w.c.kv)
	withDB := s.tape.Chance(1, 2)
	s.step("stacktrie", "%d of %d keys db=%v", len(sub), len(s.w.c.kv), withDB)
	want := specRoot(sub)
	if g := gethRoot(sub); g != want {
		s.infra("reference implementations disagree on stacktrie subset: spec %x geth %x", want, g)
		return
	}
	var disk *SimDisk
	var st *trie.StackTrie
	if withDB {
		disk = NewSimDisk()
		st = trie.NewStackTrie(func(owner common.Hash, path []byte, hash common.Hash, blob []byte) {
			disk.Put(hash[:], blob)
		})
	} else {
		st = trie.NewStackTrie(nil)
	}
	for _, k := range sortedKeys(sub) {
		if err := st.Update([]byte(k), sub[k]); err != nil {
			s.fail("stacktrie-error", "StackTrie.Update failed on sorted prefix-free data", "key %x err %v", k, err)
			return
		}
	}
	var got common.Hash
	if withDB {
		var err error
		if got, err = st.Commit(); err != nil {
			s.fail("stacktrie-error", "StackTrie.Commit failed", "err %v", err)
			return
		}
	} else {
		got = st.Hash()
	}
	if hash32(got) != want {
		s.fail("stacktrie-root", "StackTrie root differs from the root of an independent trie for the same sorted data",
			"got %x want %x content %s", got, want, fmtContent(&content{kv: sub}))
		return
	}
	if len(sub) == len(s.w.c.kv) {
		s.checkHash(s.w, "StackTrie comparison")
	}
	if withDB && len(sub) > 0 {
		// what the StackTrie wrote must open as a trie with exactly this content
		db := trie.NewDatabase(disk)
		t, err := trie.New(trie.TrieID(got), db)
		if err != nil {
			s.fail("stacktrie-commit", "nodes written by StackTrie do not open as a trie", "root %x err %v", got, err)
			return
		}
		for _, k := range sortedKeys(sub) {
			v, err := t.Get([]byte(k))
			if err != nil || !bytes.Equal(v, sub[k]) {
				s.fail("stacktrie-commit", "nodes written by StackTrie hold different content", "key %x got %s err %v want %s", k, fmtVal(v), err, fmtVal(sub[k]))
				return
			}
		}
	}
}

type derivList [][]byte

func (l derivList) Len() int                           { return len(l) }
func (l derivList) EncodeIndex(i int, b *bytes.Buffer) { b.Write(l[i]) }

func (s *sim) opDerive() {
	var n int
	switch s.tape.Weighted(4, 3, 2, 1) {
	case 0:
		n = s.tape.Range(0, 4)
	case 1:
		n = s.tape.Range(5, 40)
	case 2:
		n = s.tape.Range(120, 136)
	case 3:
		n = s.tape.Range(250, 262)
	}
	s.step("derivesha", "%d items", n)
	list := make(derivList, n)
	kv := map[string][]byte{}
	seed := s.tape.Draw(256)
	lens := []int{1, 3, 20, 31, 32, 33, 60, 110}
	lsel := s.tape.Draw(len(lens))
	for i := range list {
		v := make([]byte, lens[(lsel+i)%len(lens)])
		for j := range v {
			v[j] = byte(seed + i*31 + j*7)
		}
		list[i] = v
		kv[string(rlpUint(i))] = v
	}
	want := specRoot(kv)
	if g := gethRoot(kv); g != want {
		s.infra("reference implementations disagree on a derived list: spec %x geth %x", want, g)
		return
	}
	a := types.DeriveSha(list, trie.NewStackTrie(nil))
	if hash32(a) != want {
		s.fail("derivesha", "DeriveSha over a StackTrie differs from the root of an independent trie of (rlp(index) -> item)", "n %d got %x want %x", n, a, want)
		return
	}
	b := types.DeriveSha(list, trie.NewEmpty(trie.NewDatabase(NewSimDisk())))
	if hash32(b) != want {
		s.fail("derivesha", "DeriveSha over a Trie differs from the root of an independent trie of (rlp(index) -> item)", "n %d got %x want %x", n, b, want)
	}
}

// ---------------- order / commit independence ----------------

// opReplay rebuilds the working content from scratch in a tape-chosen order, with
// junk keys that are inserted and deleted again, overwritten values and
// intermediate commits, and demands the same root.
func (s *sim) opReplay() {
	c := s.w.c
	ks := c.keys()
	onMain := s.tape.Chance(1, 3)
	s.step("replay", "%d keys main=%v", len(ks), onMain)
	db := s.tdb
	var scratch *trie.Database
	if !onMain {
		scratch = s.newDB(NewSimDisk())
		db = scratch
		defer s.dropDB(scratch)
	}
	h, err := s.open(db, emptyRoot)
	if err != nil {
		s.infra("cannot open the empty trie: %v", err)
		return
	}
	hs := &hstate{h: h, base: emptyRoot, c: newContent()}
	perm := s.tape.Perm(len(ks))
	var junk [][]byte
	for _, pi := range perm {
		k := ks[pi]
		raw, val := c.raw[k], s.userVal(c.kv[k])
		switch s.tape.Weighted(6, 2, 2, 1) {
		case 1: // wrong value first, right value later
			if !s.put(hs, raw, s.genVal()) {
				return
			}
		case 2: // a junk neighbour that will be removed again
			j := s.genKey(c)
			if _, exists := c.kv[string(s.storedKey(j))]; !exists {
				if !s.put(hs, j, s.genVal()) {
					return
				}
				junk = append(junk, j)
			}
		case 3: // delete-and-reinsert
			if !s.put(hs, raw, val) || !s.put(hs, raw, nil) {
				return
			}
		}
		if !s.put(hs, raw, val) {
			return
		}
		if len(junk) > 0 && s.tape.Chance(1, 3) {
			j := junk[len(junk)-1]
			junk = junk[:len(junk)-1]
			if !s.put(hs, j, nil) {
				return
			}
		}
		switch s.tape.Weighted(8, 2, 1) {
		case 1:
			if !s.commitHandle(db, hs, false, "intermediate commit of a replay") {
				return
			}
		case 2:
			if !s.checkHash(hs, "intermediate hash of a replay") {
				return
			}
		}
	}
	for _, j := range junk {
		if !s.put(hs, j, nil) {
			return
		}
	}
	if !hs.c.equal(c) {
		s.infra("replay model diverged from the working content")
		return
	}
	if !s.checkHash(hs, "replay in another order with intermediate commits") {
		return
	}
	s.checkHash(s.w, "working trie compared with its replay")
}

func (s *sim) userVal(stored []byte) []byte {
	if s.mode != modeSecure {
		return stored
	}
	// undo rlpStr
	if len(stored) == 1 && stored[0] < 0x80 {
		return stored
	}
	if stored[0] < 0xb8 {
		return stored[1:]
	}
	return stored[1+int(stored[0]-0xb7):]
}

// opBurst: at least 100 updates without hashing in between (the hasher then
// splits the work over goroutines).
func (s *sim) opBurst() {
	n := s.tape.Range(100, 120)
	s.step("burst", "%d updates", n)
	seed := s.tape.Draw(256)
	var pool [][]byte
	for _, k := range s.w.c.keys() {
		pool = append(pool, s.w.c.raw[k])
	}
	for len(pool) < 24 {
		pool = append(pool, s.genKey(s.w.c))
	}
	for i := 0; i < n; i++ {
		raw := pool[(seed+i*7)%len(pool)]
		v := make([]byte, 1+(seed+i*13)%45)
		for j := range v {
			v[j] = byte(seed + i + j)
		}
		if _, exists := s.w.c.kv[string(s.storedKey(raw))]; !exists && len(s.w.c.kv) >= maxKeys {
			continue
		}
		if i%9 == 8 {
			v = nil
		}
		if !s.put(s.w, raw, v) {
			return
		}
	}
	s.res.Probe("burst-of-100-updates")
	s.checkHash(s.w, "after a burst of updates")
}

// ---------------- disk read faults ----------------

// opFaultRead arms read errors and reads a durable root through a fresh
// Database: every answer is the right value or an error.
func (s *sim) opFaultRead() {
	var cand []*rootRec
	for _, r := range s.roots {
		if r.durable && r.hash != emptyRoot {
			cand = append(cand, r)
		}
	}
	if len(cand) == 0 {
		s.opDBCommit()
		return
	}
	r := cand[s.tape.Draw(len(cand))]
	skip, count := s.tape.Range(0, 6), s.tape.Range(1, 4)
	fresh := s.tape.Chance(1, 2)
	s.step("faultread", "%x skip %d count %d fresh=%v", r.hash[:4], skip, count, fresh)
	db := s.tdb
	if fresh {
		db = s.newDB(s.disk)
		defer s.dropDB(db)
	}
	before := s.disk.Injected
	s.disk.ArmReadFaults(skip, count)
	defer s.disk.Disarm()
	h, err := s.open(db, r.hash)
	if err != nil {
		if !isMissing(err) {
			s.fail("open-error", "opening a root failed with an error that is not MissingNodeError (under injected read errors)", "root %x err %v", r.hash, err)
			return
		}
	} else {
		var failedKeys [][]byte
		for _, k := range r.c.keys() {
			ok, missing := s.getCheck(h, r.c, r.c.raw[k], false, "under injected read errors")
			if !ok {
				return
			}
			if missing {
				failedKeys = append(failedKeys, r.c.raw[k])
			}
		}
		if s.tape.Chance(1, 2) {
			// iteration under faults: complete and right, or an error
			it := trie.NewIterator(h.NodeIterator(nil))
			n := 0
			for it.Next() {
				if w, ok := r.c.kv[string(it.Key)]; !ok || !bytes.Equal(w, it.Value) {
					s.fail("iterate-value", "leaf iteration yields a value different from the stored one", "under injected read errors key %x got %s want %s", it.Key, fmtVal(it.Value), fmtVal(w))
					return
				}
				n++
			}
			if it.Err == nil && n != len(r.c.kv) {
				s.fail("iterate", "leaf iteration ends early without an error under injected read errors", "got %d of %d keys", n, len(r.c.kv))
				return
			}
		}
		s.disk.Disarm()
		// once the disk answers again the same handle must answer correctly
		for _, raw := range failedKeys {
			if ok, _ := s.getCheck(h, r.c, raw, true, "same handle after the read errors stopped"); !ok {
				return
			}
		}
	}
	s.disk.Disarm()
	if s.disk.Injected > before {
		s.res.Fault("disk-read-error")
		s.advers++
	}
	s.checkRoot(db, r, true, "after the read errors stopped")
}

// opFaultUpdate: updates on the working trie while reads fail. A failed update
// must leave the trie as it was.
func (s *sim) opFaultUpdate() {
	skip, count := s.tape.Range(0, 3), s.tape.Range(1, 3)
	s.step("faultupdate", "skip %d count %d", skip, count)
	before := s.disk.Injected
	s.disk.ArmReadFaults(skip, count)
	defer s.disk.Disarm()
	n := s.tape.Range(1, 4)
	for i := 0; i < n; i++ {
		var raw []byte
		if ex, ok := s.pickExisting(s.w.c); ok && s.tape.Chance(2, 3) {
			raw = ex
		} else {
			raw = s.genKey(s.w.c)
		}
		var val []byte
		if s.tape.Chance(1, 2) && len(s.w.c.kv) < maxKeys {
			val = s.genVal()
		}
		err := s.w.h.Put(raw, val)
		s.note("put %x=%s err=%v", raw, fmtVal(val), err != nil)
		if err != nil {
			if !isMissing(err) {
				s.fail("update-error", "update failed with an error that is not MissingNodeError under injected read errors", "key %x err %v", raw, err)
				return
			}
			s.res.Probe("update-failed-under-read-error")
		} else {
			s.w.c.set(s.storedKey(raw), raw, s.storedVal(val))
		}
	}
	s.disk.Disarm()
	if s.disk.Injected > before {
		s.res.Fault("disk-read-error")
		s.advers++
	}
	for _, k := range s.w.c.keys() {
		if ok, _ := s.getCheck(s.w.h, s.w.c, s.w.c.raw[k], true, "after updates under injected read errors"); !ok {
			return
		}
	}
	s.checkHash(s.w, "after updates under injected read errors")
}

// corruption probe (terminal, never a verdict for C07): flip one byte of one
// stored node of a durable root and classify what a fresh reader does.
func (s *sim) corruptionProbe() {
	var cand []*rootRec
	for _, r := range s.roots {
		if r.durable && r.hash != emptyRoot {
			cand = append(cand, r)
		}
	}
	if len(cand) == 0 {
		return
	}
	r := cand[s.tape.Draw(len(cand))]
	disk := s.disk.Fork()
	keys := disk.Keys()
	var nodeKeys []string
	for _, k := range keys {
		if len(k) == 32 {
			nodeKeys = append(nodeKeys, k)
		}
	}
	if len(nodeKeys) == 0 {
		return
	}
	k := nodeKeys[s.tape.Draw(len(nodeKeys))]
	if !disk.Flip([]byte(k), s.tape.Draw(1<<16), byte(1<<s.tape.Draw(8))) {
		return
	}
	s.step("corrupt", "")
	outcome := "not-on-path"
	func() {
		defer func() {
			if p := recover(); p != nil {
				outcome = "panic"
			}
		}()
		db := trie.NewDatabase(disk)
		h, err := s.open(db, r.hash)
		if err != nil {
			outcome = "error"
			return
		}
		for _, sk := range r.c.keys() {
			got, err := h.Get(r.c.raw[sk])
			if err != nil {
				outcome = "error"
				return
			}
			if !bytes.Equal(s.storedVal(got), r.c.kv[sk]) {
				outcome = "silent-wrong-value"
				return
			}
		}
	}()
	s.res.Probe("stored-node-bitflip:" + outcome)
	s.note("bitflip outcome %s", outcome)
}

// ---------------- engine ----------------

type engine struct{}

func (engine) Name() string { return "triesim" }

func firstLine(s string) string {
	if i := strings.IndexByte(s, '\n'); i >= 0 {
		s = s[:i]
	}
	if len(s) > 120 {
		s = s[:120]
	}
	return s
}

func (engine) Run(t *testing.T, tape *core.Tape, opt core.Options) (res *core.RunResult) {
	res = core.NewResult()
	s := &sim{t: t, res: res, tape: tape, h: core.NewHasher(), ah: core.NewHasher(), byHash: map[hash32]*rootRec{}}
	defer func() {
		if r := recover(); r != nil {
			stack := string(debug.Stack())
			if strings.Contains(stack, "github.com/kardiachain/go-kardia/") {
				msg := fmt.Sprint(r)
				// strip hashes and payloads so that the signature is structural
				res.Violate(prop, "panic", "panic in trie code: "+panicClass(msg), msg+"\n"+trimStack(stack))
			} else {
				panic(r) // harness bug: core turns it into an infrastructure report
			}
		}
		s.dropDB(s.tdb)
		res.TraceHash = s.h.Sum()
		res.AbstractHash = s.ah.Sum()
		res.Sample = map[string]interface{}{"mode": modeName[s.mode], "ops": s.ops}
	}()

	embedded0 := specEmbedded
	// configuration
	s.mode = tape.Weighted(4, 3, 3)
	if s.mode == modeFixed {
		s.fixedLen = []int{2, 1, 3, 4, 8, 32}[tape.Draw(6)]
	}
	s.faultCfg = tape.Chance(1, 3)
	s.cleanCache = tape.Chance(1, 4)
	s.preimages = s.mode == modeSecure && tape.Chance(1, 2)
	s.ah.Add("cfg", modeName[s.mode], fmt.Sprint(s.faultCfg, s.cleanCache))
	s.h.Add("cfg", modeName[s.mode], fmt.Sprint(s.fixedLen, s.faultCfg, s.cleanCache, s.preimages))
	res.Tracef("config mode=%s fixedLen=%d faults=%v cleanCache=%v preimages=%v", modeName[s.mode], s.fixedLen, s.faultCfg, s.cleanCache, s.preimages)

	s.disk = NewSimDisk()
	s.tdb = s.newDB(s.disk)
	h0, err := s.open(s.tdb, emptyRoot)
	if err != nil {
		res.Infra = "cannot open the empty trie: " + err.Error()
		return
	}
	s.w = &hstate{h: h0, base: emptyRoot, c: newContent()}
	s.record(emptyRoot, s.w.c)
	if got := hash32(h0.Hash()); got != emptyRoot {
		s.fail("root", "root hash of the empty trie is not the hash of the empty string encoding", "got %x want %x", got, emptyRoot)
		return
	}

	// optional initial population (0 = none), committed as the first root
	var n0 int
	switch tape.Weighted(3, 3, 3, 2) {
	case 1:
		n0 = tape.Range(2, 8)
	case 2:
		n0 = tape.Range(9, 24)
	case 3:
		n0 = tape.Range(25, 56)
	}
	if n0 > 0 {
		s.step("populate", "%d", n0)
		for i := 0; i < n0 && !s.failed; i++ {
			raw := s.genKey(s.w.c)
			val := s.genVal()
			s.note("put %x=%s", raw, fmtVal(val))
			s.put(s.w, raw, val)
		}
		if !s.failed {
			s.opCommit()
		}
		if s.failed {
			return
		}
	}

	nSteps := tape.Range(8, opt.Int("steps", 150))
	for s.stepNo = 0; s.stepNo < nSteps && !s.failed; s.stepNo++ {
		res.Steps++
		wFaultR, wFaultU := 0, 0
		if s.faultCfg {
			wFaultR, wFaultU = 3, 2
		}
		switch tape.Weighted(
			34, // update
			10, // delete
			10, // get
			8,  // hash
			10, // commit
			2,  // reference
			5,  // dereference
			4,  // cap
			4,  // dbcommit
			3,  // copy
			4,  // reopen
			2,  // restart
			5,  // prove
			3,  // range
			3,  // iterate
			2,  // stacktrie
			1,  // derivesha
			2,  // replay
			1,  // burst
			wFaultR, wFaultU,
			2, // accounts (two-layer scenario)
		) {
		case 0:
			s.opUpdate()
		case 1:
			s.opDelete()
		case 2:
			s.opGet()
		case 3:
			s.opHash()
		case 4:
			s.opCommit()
		case 5:
			s.opReference()
		case 6:
			s.opDereference()
		case 7:
			s.opCap()
		case 8:
			s.opDBCommit()
		case 9:
			s.opCopy()
		case 10:
			s.opReopen()
		case 11:
			s.opRestart(false)
		case 12:
			s.opProve()
		case 13:
			s.opRange()
		case 14:
			s.opIterate()
		case 15:
			s.opStack()
		case 16:
			s.opDerive()
		case 17:
			s.opReplay()
		case 18:
			s.opBurst()
		case 19:
			s.opFaultRead()
		case 20:
			s.opFaultUpdate()
		case 21:
			s.opAccounts()
		}
	}
	if s.failed {
		return
	}
	// closing checks: working trie, every live root, then a dirty restart
	s.stepNo = nSteps
	s.step("final", "")
	if !s.checkHash(s.w, "final") || !s.checkLive("final") {
		return
	}
	s.opRestart(true)
	if s.failed {
		return
	}
	if s.faultCfg {
		s.corruptionProbe()
	}
	res.NonTrivial = s.advers > 0 && s.commits > 0 && res.Steps >= 8
	if specEmbedded > embedded0 {
		res.Probe("histories-with-embedded-nodes")
	}
	if s.prefixKeySeen {
		res.Probe("histories-with-a-key-that-is-a-prefix-of-another")
	}
	switch n := s.maxKeysSeen; {
	case n <= 4:
		res.Probe("max-keys:0-4")
	case n <= 16:
		res.Probe("max-keys:5-16")
	case n <= 40:
		res.Probe("max-keys:17-40")
	default:
		res.Probe("max-keys:41-64")
	}
	if s.restarts > 1 {
		res.Probe("histories-with-mid-run-restart")
	}
	return res
}

// panicClass keeps the structural part of a panic message (hashes and payloads erased).
var hexRun = regexp.MustCompile(`(0x)?[0-9a-fA-F]{4,}`)

func panicClass(msg string) string {
	return hexRun.ReplaceAllString(firstLine(msg), "#")
}

func trimStack(st string) string {
	lines := strings.Split(st, "\n")
	var out []string
	for _, l := range lines {
		if strings.Contains(l, "go-kardia/") || strings.Contains(l, "triesim") {
			out = append(out, strings.TrimSpace(l))
		}
		if len(out) > 24 {
			break
		}
	}
	return strings.Join(out, "\n")
}

func TestSim(t *testing.T) { core.Main(t, engine{}) }
