// SimDisk: the engine's own in-memory kaidb.Database. It is an ordered map that
// the harness fully controls: it can be forked (snapshot), it can fail reads on
// demand and it can flip one byte of a stored value. Nothing in it is random.
package triesim

import (
	"bytes"
	"errors"
	"sort"

	"github.com/kardiachain/go-kardia/kai/kaidb"
)

var (
	errNotFound  = errors.New("not found")
	errInjected  = errors.New("simdisk: injected read error")
	errDiskClose = errors.New("simdisk: closed")
)

type SimDisk struct {
	m map[string][]byte

	// read-fault plan: the next faultSkip reads succeed, the following
	// faultCount reads fail, later reads succeed again.
	faultSkip  int
	faultCount int
	// failKeys: reads of these keys fail for as long as the entry exists.
	failKeys map[string]bool

	Reads    int // Get+Has calls
	Writes   int // keys written (directly or through a batch)
	Injected int // read errors that actually fired
	closed   bool
}

func NewSimDisk() *SimDisk {
	return &SimDisk{m: map[string][]byte{}, failKeys: map[string]bool{}}
}

// Fork returns an independent deep copy of the stored content (no fault plan).
func (d *SimDisk) Fork() *SimDisk {
	n := NewSimDisk()
	for k, v := range d.m {
		n.m[k] = append([]byte(nil), v...)
	}
	return n
}

// ArmReadFaults plans count failing reads after skip successful ones.
func (d *SimDisk) ArmReadFaults(skip, count int) { d.faultSkip, d.faultCount = skip, count }

// FailKey makes every read of key fail until Disarm.
func (d *SimDisk) FailKey(key []byte) { d.failKeys[string(key)] = true }

// Disarm removes every planned fault.
func (d *SimDisk) Disarm() {
	d.faultSkip, d.faultCount = 0, 0
	d.failKeys = map[string]bool{}
}

// Flip xors mask into byte off (mod len) of the value stored under key.
func (d *SimDisk) Flip(key []byte, off int, mask byte) bool {
	v, ok := d.m[string(key)]
	if !ok || len(v) == 0 || mask == 0 {
		return false
	}
	v = append([]byte(nil), v...)
	v[off%len(v)] ^= mask
	d.m[string(key)] = v
	return true
}

// Keys returns the stored keys in byte order.
func (d *SimDisk) Keys() []string {
	ks := make([]string, 0, len(d.m))
	for k := range d.m {
		ks = append(ks, k)
	}
	sort.Strings(ks)
	return ks
}

func (d *SimDisk) Len() int { return len(d.m) }

// Peek reads without counting and without faults (harness use only).
func (d *SimDisk) Peek(key []byte) ([]byte, bool) {
	v, ok := d.m[string(key)]
	return v, ok
}

func (d *SimDisk) readFault(key []byte) bool {
	d.Reads++
	if d.failKeys[string(key)] {
		d.Injected++
		return true
	}
	if d.faultCount > 0 {
		if d.faultSkip > 0 {
			d.faultSkip--
			return false
		}
		d.faultCount--
		d.Injected++
		return true
	}
	return false
}

func (d *SimDisk) Has(key []byte) (bool, error) {
	if d.closed {
		return false, errDiskClose
	}
	if d.readFault(key) {
		return false, errInjected
	}
	_, ok := d.m[string(key)]
	return ok, nil
}

func (d *SimDisk) Get(key []byte) ([]byte, error) {
	if d.closed {
		return nil, errDiskClose
	}
	if d.readFault(key) {
		return nil, errInjected
	}
	v, ok := d.m[string(key)]
	if !ok {
		return nil, errNotFound
	}
	return append([]byte(nil), v...), nil
}

func (d *SimDisk) Put(key []byte, value []byte) error {
	if d.closed {
		return errDiskClose
	}
	d.Writes++
	d.m[string(key)] = append([]byte(nil), value...)
	return nil
}

func (d *SimDisk) Delete(key []byte) error {
	if d.closed {
		return errDiskClose
	}
	d.Writes++
	delete(d.m, string(key))
	return nil
}

func (d *SimDisk) Stat(property string) (string, error)     { return "", errors.New("unknown property") }
func (d *SimDisk) Compact(start []byte, limit []byte) error { return nil }
func (d *SimDisk) Close() error                             { return nil }

func (d *SimDisk) NewBatch() kaidb.Batch { return &simBatch{d: d} }

func (d *SimDisk) NewIterator(prefix []byte, start []byte) kaidb.Iterator {
	it := &simIter{pos: -1}
	from := string(append(append([]byte(nil), prefix...), start...))
	for _, k := range d.Keys() {
		if !bytes.HasPrefix([]byte(k), prefix) || k < from {
			continue
		}
		it.keys = append(it.keys, k)
		it.vals = append(it.vals, append([]byte(nil), d.m[k]...))
	}
	return it
}

type batchOp struct {
	k, v []byte
	del  bool
}

type simBatch struct {
	d    *SimDisk
	ops  []batchOp
	size int
}

func (b *simBatch) Put(key, value []byte) error {
	b.ops = append(b.ops, batchOp{append([]byte(nil), key...), append([]byte(nil), value...), false})
	b.size += len(key) + len(value)
	return nil
}

func (b *simBatch) Delete(key []byte) error {
	b.ops = append(b.ops, batchOp{append([]byte(nil), key...), nil, true})
	b.size += len(key)
	return nil
}

func (b *simBatch) ValueSize() int { return b.size }

func (b *simBatch) Write() error {
	if b.d.closed {
		return errDiskClose
	}
	for _, o := range b.ops {
		b.d.Writes++
		if o.del {
			delete(b.d.m, string(o.k))
		} else {
			b.d.m[string(o.k)] = o.v
		}
	}
	return nil
}

func (b *simBatch) Reset() { b.ops, b.size = b.ops[:0], 0 }

func (b *simBatch) Replay(w kaidb.KeyValueWriter) error {
	for _, o := range b.ops {
		var err error
		if o.del {
			err = w.Delete(o.k)
		} else {
			err = w.Put(o.k, o.v)
		}
		if err != nil {
			return err
		}
	}
	return nil
}

type simIter struct {
	keys []string
	vals [][]byte
	pos  int
}

func (it *simIter) Next() bool {
	if it.pos+1 >= len(it.keys) {
		it.pos = len(it.keys)
		return false
	}
	it.pos++
	return true
}
func (it *simIter) Error() error { return nil }
func (it *simIter) Key() []byte {
	if it.pos < 0 || it.pos >= len(it.keys) {
		return nil
	}
	return []byte(it.keys[it.pos])
}
func (it *simIter) Value() []byte {
	if it.pos < 0 || it.pos >= len(it.keys) {
		return nil
	}
	return it.vals[it.pos]
}
func (it *simIter) Release() {}

var _ kaidb.Database = (*SimDisk)(nil)
