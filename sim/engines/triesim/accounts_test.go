// Two-layer scenario: an account trie whose leaves point at storage tries, all in
// one trie.Database. This is the shape in which hashdb's external references
// (Database.Update linking leaves to storage roots, Reference(child,parent),
// cascading Dereference, Commit through external children) are used by the node.
package triesim

import (
	"bytes"
	"fmt"
	"math/big"

	"github.com/kardiachain/go-kardia/lib/common"
	"github.com/kardiachain/go-kardia/trie"
	"github.com/kardiachain/go-kardia/trie/trienode"
	"github.com/kardiachain/go-kardia/types"
)

type acct struct {
	addr  common.Address
	nonce uint64
	bal   uint64
	slots map[string][]byte // raw slot key -> raw value
}

func (a *acct) clone() *acct {
	n := &acct{addr: a.addr, nonce: a.nonce, bal: a.bal, slots: map[string][]byte{}}
	for k, v := range a.slots {
		n.slots[k] = v
	}
	return n
}

func (a *acct) storageKV() map[string][]byte {
	kv := map[string][]byte{}
	for k, v := range a.slots {
		h := keccak([]byte(k))
		kv[string(h[:])] = rlpStr(v)
	}
	return kv
}

var emptyCode = keccak(nil)

func (a *acct) rlp() []byte {
	sr := specRoot(a.storageKV())
	return rlpList(rlpUint(int(a.nonce)), rlpUint(int(a.bal)), rlpStr(sr[:]), rlpStr(emptyCode[:]))
}

type stateVer struct {
	root    hash32
	accts   []*acct
	refs    int
	durable bool
}

func stateRootOf(accts []*acct) hash32 {
	kv := map[string][]byte{}
	for _, a := range accts {
		if a.nonce == 0 {
			continue // not created yet
		}
		h := keccak(a.addr[:])
		kv[string(h[:])] = a.rlp()
	}
	return specRoot(kv)
}

// checkState reads a whole state version through db. must=false tolerates missing nodes.
func (s *sim) checkState(db *trie.Database, v *stateVer, must bool, where string) bool {
	missing := func(err error, what string) bool {
		if !isMissing(err) {
			return s.fail("state-error", "reading a state failed with an error that is not MissingNodeError ("+where+")", "%s: %v", what, err)
		}
		if must {
			return s.fail("state-missing", "a referenced or committed state is not completely readable ("+where+")", "state %x refs=%d durable=%v %s: %v", v.root, v.refs, v.durable, what, err)
		}
		s.res.Probe("unreferenced-state-partly-gone")
		return true
	}
	st, err := trie.NewStateTrie(trie.StateTrieID(common.Hash(v.root)), db)
	if err != nil {
		return missing(err, "open state")
	}
	for _, a := range v.accts {
		got, err := st.GetAccount(a.addr)
		if err != nil {
			return missing(err, fmt.Sprintf("account %x", a.addr[:2]))
		}
		if a.nonce == 0 {
			if got != nil {
				return s.fail("state-get", "state returns an account that was never written ("+where+")", "account %x", a.addr[:2])
			}
			continue
		}
		wantRoot := specRoot(a.storageKV())
		if got == nil || got.Nonce != a.nonce || got.Balance == nil || got.Balance.Cmp(big.NewInt(int64(a.bal))) != 0 || hash32(got.Root) != wantRoot {
			return s.fail("state-get", "state returns an account different from the one written ("+where+")",
				"account %x got %+v want nonce %d bal %d root %x", a.addr[:2], got, a.nonce, a.bal, wantRoot)
		}
		ah := keccak(a.addr[:])
		stor, err := trie.NewStateTrie(trie.StorageTrieID(common.Hash(v.root), common.Hash(ah), got.Root), db)
		if err != nil {
			return missing(err, fmt.Sprintf("open storage of %x", a.addr[:2]))
		}
		for _, k := range sortedKeys(a.slots) {
			val, err := stor.GetStorage(a.addr, []byte(k))
			if err != nil {
				return missing(err, fmt.Sprintf("slot %x of %x", k, a.addr[:2]))
			}
			if !bytes.Equal(val, a.slots[k]) {
				return s.fail("state-get", "storage returns a value different from the one written ("+where+")",
					"account %x slot %x got %s want %s", a.addr[:2], k, fmtVal(val), fmtVal(a.slots[k]))
			}
		}
		if val, err := stor.GetStorage(a.addr, []byte{0xee, 0xee}); err == nil && len(val) != 0 {
			return s.fail("state-get", "storage returns a value for a slot never written ("+where+")", "account %x got %s", a.addr[:2], fmtVal(val))
		}
	}
	return true
}

func (s *sim) opAccounts() {
	t := s.tape
	nAcc := t.Range(2, 5)
	nVer := t.Range(2, 5)
	s.step("accounts", "%d accounts %d versions", nAcc, nVer)
	disk := NewSimDisk()
	db := s.newDB(disk)
	defer func() { s.dropDB(db) }()

	cur := make([]*acct, nAcc)
	for i := range cur {
		cur[i] = &acct{slots: map[string][]byte{}}
		for j := range cur[i].addr {
			cur[i].addr[j] = byte(0x10*(i+1) + j%3)
		}
	}
	curRoot := emptyRoot
	var vers []*stateVer
	live := func(v *stateVer) bool { return v.refs > 0 || v.durable }
	checkAll := func(where string) bool {
		for _, v := range vers {
			if live(v) && !s.checkState(db, v, true, where) {
				return false
			}
		}
		return true
	}

	for vi := 0; vi < nVer && !s.failed; vi++ {
		// --- build the next version on top of curRoot
		st, err := trie.NewStateTrie(trie.StateTrieID(common.Hash(curRoot)), db)
		if err != nil {
			s.fail("state-missing", "a referenced or committed state is not completely readable (base of the next block)", "state %x err %v", curRoot, err)
			return
		}
		merged := trienode.NewMergedNodeSet()
		next := make([]*acct, nAcc)
		for i, a := range cur {
			next[i] = a.clone()
		}
		touched := 0
		for i, a := range next {
			if !(t.Chance(1, 2) || (i == nAcc-1 && touched == 0)) {
				continue
			}
			touched++
			oldRoot := specRoot(cur[i].storageKV())
			ah := keccak(a.addr[:])
			stor, err := trie.NewStateTrie(trie.StorageTrieID(common.Hash(curRoot), common.Hash(ah), common.Hash(oldRoot)), db)
			if err != nil {
				s.fail("state-missing", "a referenced or committed state is not completely readable (storage of the base state)", "state %x account %x err %v", curRoot, a.addr[:2], err)
				return
			}
			if t.Chance(1, 5) && i > 0 {
				// same storage as another account: the two leaves then share one storage trie
				src := next[t.Draw(i)]
				for k := range a.slots {
					if err := stor.DeleteStorage(a.addr, []byte(k)); err != nil {
						s.fail("update-error", "update or delete failed on a trie whose base root is live and no fault is injected", "storage delete: %v", err)
						return
					}
				}
				a.slots = map[string][]byte{}
				for _, k := range sortedKeys(src.slots) {
					if err := stor.UpdateStorage(a.addr, []byte(k), src.slots[k]); err != nil {
						s.fail("update-error", "update or delete failed on a trie whose base root is live and no fault is injected", "storage update: %v", err)
						return
					}
					a.slots[k] = src.slots[k]
				}
				s.note("v%d account %d copies storage", vi, i)
			} else {
				n := t.Range(1, 5)
				for j := 0; j < n; j++ {
					slot := []byte{alphabet[t.Draw(len(alphabet))]}
					if t.Chance(1, 2) {
						slot = append(slot, alphabet[t.Draw(len(alphabet))])
					}
					var val []byte
					if !t.Chance(1, 5) {
						val = s.genVal()
						if len(val) > 80 {
							val = val[:80]
						}
					}
					var err error
					if len(val) == 0 {
						err = stor.DeleteStorage(a.addr, slot)
						delete(a.slots, string(slot))
					} else {
						err = stor.UpdateStorage(a.addr, slot, val)
						a.slots[string(slot)] = val
					}
					if err != nil {
						s.fail("update-error", "update or delete failed on a trie whose base root is live and no fault is injected", "storage slot %x: %v", slot, err)
						return
					}
					s.note("v%d account %d slot %x=%s", vi, i, slot, fmtVal(val))
				}
			}
			sroot, set := stor.Commit(false)
			if want := specRoot(a.storageKV()); hash32(sroot) != want {
				s.fail("root", "root hash differs from the root of an independent trie with the same content (storage trie)", "got %x want %x", sroot, want)
				return
			}
			if set != nil {
				if err := merged.Merge(set); err != nil {
					s.infra("merge storage set: %v", err)
					return
				}
			}
			a.nonce++
			a.bal = uint64(t.Range(0, 1000))
			if err := st.UpdateAccount(a.addr, &types.StateAccount{Nonce: a.nonce, Balance: big.NewInt(int64(a.bal)), Root: sroot, CodeHash: emptyCode[:]}); err != nil {
				s.fail("update-error", "update or delete failed on a trie whose base root is live and no fault is injected", "account update: %v", err)
				return
			}
		}
		root, set := st.Commit(true)
		want := stateRootOf(next)
		if hash32(root) != want {
			s.fail("root", "root hash differs from the root of an independent trie with the same content (account trie)", "got %x want %x", root, want)
			return
		}
		if set != nil {
			if err := merged.Merge(set); err != nil {
				s.infra("merge account set: %v", err)
				return
			}
		}
		if err := db.Update(root, common.Hash(curRoot), merged); err != nil {
			s.fail("db-update", "Database.Update failed on a committed node set", "state %x err %v", root, err)
			return
		}
		db.Reference(root, common.Hash{})
		var ver *stateVer
		for _, v := range vers {
			if v.root == want {
				ver = v
			}
		}
		if ver == nil {
			ver = &stateVer{root: want, accts: next}
			vers = append(vers, ver)
		}
		ver.refs++
		cur, curRoot = next, want
		s.note("v%d state %x", vi, want[:4])
		if !s.checkState(db, ver, true, "right after the block") {
			return
		}

		// --- something adversarial between blocks
		switch t.Weighted(2, 4, 2, 2, 1) {
		case 1: // dereference an older version
			var cand []*stateVer
			for _, v := range vers {
				if v.refs > 0 && !(v.root == curRoot && v.refs == 1 && !v.durable) {
					cand = append(cand, v)
				}
			}
			if len(cand) > 0 {
				v := cand[t.Draw(len(cand))]
				s.note("dereference state %x", v.root[:4])
				db.Dereference(common.Hash(v.root))
				v.refs--
				s.res.Fault("state-dereference")
				s.advers++
				if !checkAll("after Dereference of another state") {
					return
				}
			}
		case 2:
			var limit common.StorageSize
			zero := t.Chance(1, 2)
			if !zero {
				sz, _ := db.Size()
				limit = sz / 2
			}
			s.note("cap zero=%v", zero)
			if err := db.Cap(limit); err != nil {
				s.fail("cap-error", "Database.Cap failed without an injected fault", "err %v", err)
				return
			}
			if zero {
				for _, v := range vers {
					if v.refs > 0 {
						v.durable = true
					}
				}
			}
			s.res.Fault("state-cap")
			if !checkAll("after Cap") {
				return
			}
		case 3:
			var cand []*stateVer
			for _, v := range vers {
				if live(v) {
					cand = append(cand, v)
				}
			}
			v := cand[t.Draw(len(cand))]
			s.note("dbcommit state %x", v.root[:4])
			if err := db.Commit(common.Hash(v.root), false); err != nil {
				s.fail("dbcommit-error", "Database.Commit failed without an injected fault", "err %v", err)
				return
			}
			v.durable = true
			s.res.Fault("state-db-commit")
			if !checkAll("after Database.Commit") {
				return
			}
		case 4:
			s.note("restart")
			s.dropDB(db)
			db = s.newDB(disk)
			s.res.Fault("state-dirty-restart")
			s.advers++
			var last *stateVer
			for _, v := range vers {
				v.refs = 0
				if !s.checkState(db, v, v.durable, "after dirty restart") {
					return
				}
				if v.durable {
					last = v
				}
			}
			if last != nil {
				cur, curRoot = last.accts, last.root
			} else {
				curRoot = emptyRoot
				cur = make([]*acct, nAcc)
				for i := range cur {
					cur[i] = &acct{addr: next[i].addr, slots: map[string][]byte{}}
				}
			}
		}
	}
	if s.failed {
		return
	}
	// closing: dirty restart of the scenario's database
	s.dropDB(db)
	db = s.newDB(disk)
	for _, v := range vers {
		if !s.checkState(db, v, v.durable, "after dirty restart") {
			return
		}
		if v.durable {
			s.res.Probe("durable-state-verified-after-restart")
		}
	}
}
