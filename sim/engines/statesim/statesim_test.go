// Engine statesim (C08): tape-generated histories of world-state operations run
// against the real kai/state.StateDB (journal, state objects, access list,
// transient storage) over a real state.Database + trie database + snapshot tree
// on an in-memory key-value store, and step by step against a reference model
// made of plain values with a stack of deep copies ("revert = restore the copy").
// Roots are compared with (a) the root of the model content built through the
// go-ethereum v1.9.15 trie/rlp and (b) the root obtained by replaying only the
// surviving operations on a fresh StateDB over a fresh database.
package statesim

import (
	"bytes"
	"errors"
	"fmt"
	"math/big"
	"os"
	"runtime"
	"runtime/debug"
	"sort"
	"strings"
	"sync"
	"sync/atomic"
	"testing"
	"testing/synctest"

	"verif/sim/core"

	"github.com/VictoriaMetrics/fastcache"
	gcommon "github.com/ethereum/go-ethereum/common"
	gmem "github.com/ethereum/go-ethereum/ethdb/memorydb"
	grlp "github.com/ethereum/go-ethereum/rlp"
	gtrie "github.com/ethereum/go-ethereum/trie"
	"golang.org/x/crypto/sha3"

	"github.com/kardiachain/go-kardia/kai/kaidb"
	"github.com/kardiachain/go-kardia/kai/kaidb/memorydb"
	"github.com/kardiachain/go-kardia/kai/rawdb"
	"github.com/kardiachain/go-kardia/kai/state"
	"github.com/kardiachain/go-kardia/kai/state/snapshot"
	"github.com/kardiachain/go-kardia/lib/common"
	klog "github.com/kardiachain/go-kardia/lib/log"
	"github.com/kardiachain/go-kardia/types"
)

const prop = "C08"

const (
	maxAddrs = 6
	// one more account, outside the universe the tape draws from: every commit that
	// changes the state also raises its nonce to a number never used before in the
	// history (what block rewards and sender nonces do on a chain), so that a state
	// root is never produced twice. The snapshot tree is keyed by state root and is
	// not meant to see a root again (see the report of this engine).
	cb       = maxAddrs
	nAcc     = maxAddrs + 1
	nSlots   = 4
	maxDepth = 6
)

// ---------------- fixed universe ----------------

var (
	addrs     [nAcc]common.Address
	addrHash  [nAcc]common.Hash
	slots     [nSlots]common.Hash
	slotHash  [nSlots]common.Hash
	vals      [5]common.Hash
	codes     = [][]byte{nil, {0x60, 0x00, 0x55}, {0xfe}, {}}
	codeHash  [4]common.Hash
	emptyCode common.Hash
	emptyRoot common.Hash
	bhash     common.Hash
	big0      = new(big.Int)
	gethDB    = gtrie.NewDatabase(gmem.New())
)

func keccak(b []byte) (h common.Hash) {
	d := sha3.NewLegacyKeccak256()
	d.Write(b)
	d.Sum(h[:0])
	return h
}

func init() {
	debug.SetGCPercent(400) // many small short-lived databases per second; the heap stays small
	for i := range addrs {
		addrs[i][0] = byte(0xa0 + i)
		addrs[i][10] = byte(0x11 * (i + 1))
		addrs[i][19] = byte(0x40 + i)
		addrHash[i] = keccak(addrs[i][:])
	}
	slots[1][31] = 1
	slots[2] = keccak([]byte("statesim slot 2"))
	for i := range slots[3] {
		slots[3][i] = 0xff
	}
	for i := range slots {
		slotHash[i] = keccak(slots[i][:])
	}
	vals[1][31] = 1
	vals[2][31] = 2
	for i := range vals[3] {
		vals[3][i] = byte(0x81 + i)
	}
	vals[4][30] = 1 // 0x0100: trailing zero byte
	for i := range codes {
		codeHash[i] = keccak(codes[i])
	}
	emptyCode = keccak(nil)
	tr, _ := gtrie.New(gcommon.Hash{}, gethDB)
	emptyRoot = common.Hash(tr.Hash())
	bhash = keccak([]byte("statesim block"))
	// A critical log line in product code would os.Exit the worker; surface it.
	klog.Root().SetHandler(klog.FuncHandler(func(r *klog.Record) error {
		if r.Lvl == klog.LvlCrit {
			panic("log.Crit: " + r.Msg)
		}
		return nil
	}))
}

func txHash(n uint64) common.Hash {
	if n == 0 {
		return common.Hash{}
	}
	return keccak([]byte(fmt.Sprintf("statesim tx %d", n)))
}

// ---------------- reference model ----------------

type macct struct {
	nonce     uint64
	balance   *big.Int // never mutated in place
	code      int      // index into codes
	storage   [nSlots]int
	committed [nSlots]int // value at the start of the current transaction
	suicided  bool
}

func (a *macct) hasCode() bool { return len(codes[a.code]) > 0 }
func (a *macct) empty() bool {
	return a.nonce == 0 && a.balance.Sign() == 0 && !a.hasCode()
}

type mlog struct {
	tx   uint64
	addr int
	data byte
}

// mstate is everything a revert has to restore. All fields are values (arrays),
// immutable pointers (balance) or a slice that clone() copies.
type mstate struct {
	exists    [nAcc]bool
	acct      [nAcc]macct
	touched   [nAcc]bool // has a surviving change in the current transaction
	refund    uint64
	logs      []mlog
	alAddr    [nAcc]bool
	alSlot    [nAcc][nSlots]bool
	transient [nAcc][nSlots]int
}

func (m *mstate) clone() mstate {
	c := *m
	c.logs = append([]mlog(nil), m.logs...)
	return c
}

func (m *mstate) getOrNew(a int) *macct {
	if !m.exists[a] {
		m.exists[a] = true
		m.acct[a] = macct{balance: big0}
		m.touched[a] = true
	}
	return &m.acct[a]
}

func (m *mstate) bal(a int) *big.Int {
	if !m.exists[a] {
		return big0
	}
	return m.acct[a].balance
}

type opKind int

const (
	opState opKind = iota
	opAddBal
	opSubBal
	opSetBal
	opNonce
	opCode
	opCreate
	opSuicide
	opAddRefund
	opSubRefund
	opLog
	opALAddr
	opALSlot
	opTransient
	// boundaries
	opPrepare
	opFinalise
	opIRoot
	opCommit
)

var opNames = map[opKind]string{opState: "SetState", opAddBal: "AddBalance", opSubBal: "SubBalance", opSetBal: "SetBalance",
	opNonce: "SetNonce", opCode: "SetCode", opCreate: "CreateAccount", opSuicide: "Suicide", opAddRefund: "AddRefund",
	opSubRefund: "SubRefund", opLog: "AddLog", opALAddr: "AddAddressToAccessList", opALSlot: "AddSlotToAccessList",
	opTransient: "SetTransientState", opPrepare: "Prepare", opFinalise: "Finalise", opIRoot: "IntermediateRoot", opCommit: "Commit"}

type rop struct {
	k   opKind
	a   int // address index
	s   int // slot index
	v   int // value / code index / log byte
	amt *big.Int
	n   uint64 // nonce / refund / tx number
	del bool
}

func (o rop) String() string {
	switch o.k {
	case opState, opTransient:
		return fmt.Sprintf("%s(a%d,s%d,v%d)", opNames[o.k], o.a, o.s, o.v)
	case opAddBal, opSubBal, opSetBal:
		return fmt.Sprintf("%s(a%d,%v)", opNames[o.k], o.a, o.amt)
	case opNonce:
		return fmt.Sprintf("SetNonce(a%d,%d)", o.a, o.n)
	case opCode:
		return fmt.Sprintf("SetCode(a%d,c%d)", o.a, o.v)
	case opCreate, opSuicide, opALAddr:
		return fmt.Sprintf("%s(a%d)", opNames[o.k], o.a)
	case opAddRefund, opSubRefund, opPrepare:
		return fmt.Sprintf("%s(%d)", opNames[o.k], o.n)
	case opLog:
		return fmt.Sprintf("AddLog(a%d,%d)", o.a, o.v)
	case opALSlot:
		return fmt.Sprintf("AddSlotToAccessList(a%d,s%d)", o.a, o.s)
	default:
		return fmt.Sprintf("%s(%v)", opNames[o.k], o.del)
	}
}

// apply executes a transaction-level operation on the model. The return value
// is what Suicide reports.
func (m *mstate) apply(o rop, tx uint64) bool {
	switch o.k {
	case opState:
		ac := m.getOrNew(o.a)
		if ac.storage[o.s] != o.v {
			ac.storage[o.s] = o.v
			m.touched[o.a] = true
		}
	case opAddBal:
		ac := m.getOrNew(o.a)
		if o.amt.Sign() == 0 {
			if ac.empty() {
				m.touched[o.a] = true
			}
			return false
		}
		ac.balance = new(big.Int).Add(ac.balance, o.amt)
		m.touched[o.a] = true
	case opSubBal:
		ac := m.getOrNew(o.a)
		if o.amt.Sign() == 0 {
			return false
		}
		ac.balance = new(big.Int).Sub(ac.balance, o.amt)
		m.touched[o.a] = true
	case opSetBal:
		ac := m.getOrNew(o.a)
		ac.balance = new(big.Int).Set(o.amt)
		m.touched[o.a] = true
	case opNonce:
		ac := m.getOrNew(o.a)
		ac.nonce = o.n
		m.touched[o.a] = true
	case opCode:
		ac := m.getOrNew(o.a)
		ac.code = o.v
		m.touched[o.a] = true
	case opCreate:
		n := macct{balance: big0}
		if m.exists[o.a] {
			n.balance = m.acct[o.a].balance
		}
		m.exists[o.a] = true
		m.acct[o.a] = n
		m.touched[o.a] = true
	case opSuicide:
		if !m.exists[o.a] {
			return false
		}
		m.acct[o.a].suicided = true
		m.acct[o.a].balance = big0
		m.touched[o.a] = true
		return true
	case opAddRefund:
		m.refund += o.n
	case opSubRefund:
		m.refund -= o.n
	case opLog:
		m.logs = append(m.logs, mlog{tx: tx, addr: o.a, data: byte(o.v)})
	case opALAddr:
		m.alAddr[o.a] = true
	case opALSlot:
		m.alAddr[o.a] = true
		m.alSlot[o.a][o.s] = true
	case opTransient:
		m.transient[o.a][o.s] = o.v
	}
	return false
}

// finalise is the end of a transaction: self-destructed accounts disappear,
// touched empty accounts disappear when asked to, storage becomes "committed".
func (m *mstate) finalise(del bool) {
	for a := range m.exists {
		if !m.exists[a] {
			continue
		}
		ac := &m.acct[a]
		if m.touched[a] && (ac.suicided || (del && ac.empty())) {
			m.exists[a] = false
			m.acct[a] = macct{}
			continue
		}
		ac.committed = ac.storage
	}
	m.touched = [nAcc]bool{}
	m.refund = 0
}

type gacct struct {
	Nonce    uint64
	Balance  *big.Int
	Root     gcommon.Hash
	CodeHash []byte
}

func trimZeros(b []byte) []byte {
	for len(b) > 0 && b[0] == 0 {
		b = b[1:]
	}
	return b
}

func storageRoot(st [nSlots]int) common.Hash {
	tr, _ := gtrie.New(gcommon.Hash{}, gethDB)
	for s, v := range st {
		if v != 0 {
			enc, _ := grlp.EncodeToBytes(trimZeros(vals[v][:]))
			tr.Update(slotHash[s][:], enc)
		}
	}
	return common.Hash(tr.Hash())
}

// root is the state root of the model content through the independent trie.
func (m *mstate) root() common.Hash {
	tr, _ := gtrie.New(gcommon.Hash{}, gethDB)
	for a := range m.exists {
		if !m.exists[a] {
			continue
		}
		ac := &m.acct[a]
		ch := emptyCode
		if ac.hasCode() {
			ch = codeHash[ac.code]
		}
		enc, err := grlp.EncodeToBytes(&gacct{ac.nonce, ac.balance, gcommon.Hash(storageRoot(ac.storage)), ch[:]})
		if err != nil {
			panic("model: " + err.Error())
		}
		tr.Update(addrHash[a][:], enc)
	}
	return common.Hash(tr.Hash())
}

func (m *mstate) describe(n int) string {
	var b strings.Builder
	for a := 0; a < nAcc; a++ {
		if a >= n && a != cb {
			continue
		}
		if !m.exists[a] {
			fmt.Fprintf(&b, "a%d:- ", a)
			continue
		}
		ac := &m.acct[a]
		fmt.Fprintf(&b, "a%d:{n=%d b=%v c=%d st=%v cm=%v sd=%v t=%v} ", a, ac.nonce, ac.balance, ac.code, ac.storage, ac.committed, ac.suicided, m.touched[a])
	}
	return b.String()
}

// ---------------- product side ----------------

func applyImpl(sdb *state.StateDB, o rop) (ret bool, root common.Hash, err error) {
	switch o.k {
	case opState:
		sdb.SetState(addrs[o.a], slots[o.s], vals[o.v])
	case opAddBal:
		sdb.AddBalance(addrs[o.a], new(big.Int).Set(o.amt))
	case opSubBal:
		sdb.SubBalance(addrs[o.a], new(big.Int).Set(o.amt))
	case opSetBal:
		sdb.SetBalance(addrs[o.a], new(big.Int).Set(o.amt))
	case opNonce:
		sdb.SetNonce(addrs[o.a], o.n)
	case opCode:
		var c []byte
		if codes[o.v] != nil {
			c = append([]byte{}, codes[o.v]...)
		}
		sdb.SetCode(addrs[o.a], c)
	case opCreate:
		sdb.CreateAccount(addrs[o.a])
	case opSuicide:
		ret = sdb.Suicide(addrs[o.a])
	case opAddRefund:
		sdb.AddRefund(o.n)
	case opSubRefund:
		sdb.SubRefund(o.n)
	case opLog:
		sdb.AddLog(&types.Log{Address: addrs[o.a], Data: []byte{byte(o.v)}})
	case opALAddr:
		sdb.AddAddressToAccessList(addrs[o.a])
	case opALSlot:
		sdb.AddSlotToAccessList(addrs[o.a], slots[o.s])
	case opTransient:
		sdb.SetTransientState(addrs[o.a], slots[o.s], vals[o.v])
	case opPrepare:
		sdb.Prepare(txHash(o.n), bhash, int(o.n))
	case opFinalise:
		sdb.Finalise(o.del)
	case opIRoot:
		root = sdb.IntermediateRoot(o.del)
	case opCommit:
		root, err = sdb.Commit(o.del)
	}
	return
}

// replayRoot applies only the surviving operations to a fresh state over a
// fresh database (no snapshot tree, a new StateDB after every commit) and
// returns the last committed root.
func replayRoot(ops []rop) (root common.Hash, err error) {
	db := state.NewDatabase(memorydb.New())
	root = emptyRoot
	sdb, err := state.New(root, db, nil)
	if err != nil {
		return root, err
	}
	for _, o := range ops {
		_, r, e := applyImpl(sdb, o)
		if e != nil {
			return root, e
		}
		if o.k == opCommit {
			root = r
			if sdb, err = state.New(root, db, nil); err != nil {
				return root, err
			}
		}
	}
	return root, nil
}

type msnap struct {
	id    int
	m     mstate
	opLen int
}

// handle is one StateDB together with its model.
type handle struct {
	sdb      *state.StateDB
	m        mstate
	snaps    []msnap
	ops      []rop // surviving operations since genesis
	tx       uint64
	inTx     int  // operations/snapshots since the last transaction boundary
	isCopy   bool // obtained through Copy (for signatures)
	midCopy  bool // copied in the middle of a transaction
	via      string
	lastRoot common.Hash // root of the last commit / the root it was opened on
	// GetLogs annotates the logs it returns with the block number it is given; every
	// handle uses its own number, so a log object shared between a copy and its
	// original shows up as a foreign annotation.
	blockNo   uint64
	annotated int
}

type wrec struct {
	m       mstate // only exists/acct are meaningful
	ops     []rop
	flushed bool
}

// ---------------- the store, and the gate that steps the snapshot generator ----------------

// sched is shared by all gates of one history. parked is true while the main
// goroutine waits (synctest.Wait) for others; while it is false every other
// goroutine of the bubble is durably blocked, so a store access can only come
// from the main goroutine and passes without further checks.
type sched struct{ parked atomic.Bool }

// gate belongs to one incarnation of the node (the objects between two
// restarts). A snapshot generator goroutine of that incarnation stops at every
// store access until the main goroutine hands it a token; after a restart the
// gate is dead and the generator exits at once (a crashed process writes nothing).
type gate struct {
	s      *sched
	active bool
	dead   atomic.Bool
	tokens chan struct{}
	kill   chan struct{}
	killed atomic.Int32
}

var paranoid = os.Getenv("VERIF_STATESIM_PARANOID") != ""

// inGenerator reports whether the calling goroutine is a snapshot generator
// (its outermost frames are snapshot.(*diskLayer).generate).
func inGenerator() bool {
	var pcs [512]uintptr
	n := runtime.Callers(2, pcs[:])
	for i := n - 1; i >= 0 && i >= n-4; i-- {
		pc := pcs[i]
		v, ok := genPC.Load(pc)
		if !ok {
			f := runtime.FuncForPC(pc - 1)
			v = f != nil && strings.Contains(f.Name(), "(*diskLayer).generate")
			genPC.Store(pc, v)
		}
		if v.(bool) {
			return true
		}
	}
	return false
}

var genPC sync.Map // return address -> is a frame of the generator entry function

func (g *gate) pass() {
	if !g.active {
		return
	}
	if !g.s.parked.Load() {
		if paranoid && inGenerator() {
			panic("statesim: generator goroutine runs while the main goroutine does")
		}
		return
	}
	if !inGenerator() {
		return
	}
	if !g.dead.Load() {
		select {
		case <-g.tokens:
		case <-g.kill:
		}
	}
	if g.dead.Load() {
		g.killed.Add(1)
		runtime.Goexit()
	}
}

type gatedb struct {
	*memorydb.Database
	g *gate
}

func (d *gatedb) Has(key []byte) (bool, error)   { d.g.pass(); return d.Database.Has(key) }
func (d *gatedb) Get(key []byte) ([]byte, error) { d.g.pass(); return d.Database.Get(key) }
func (d *gatedb) Put(key, value []byte) error    { d.g.pass(); return d.Database.Put(key, value) }
func (d *gatedb) Delete(key []byte) error        { d.g.pass(); return d.Database.Delete(key) }
func (d *gatedb) NewBatch() kaidb.Batch          { return &gatebatch{d.Database.NewBatch(), d.g} }
func (d *gatedb) NewIterator(prefix, start []byte) kaidb.Iterator {
	d.g.pass()
	return &gateiter{d.Database.NewIterator(prefix, start), d.g}
}

type gatebatch struct {
	kaidb.Batch
	g *gate
}

func (b *gatebatch) Write() error { b.g.pass(); return b.Batch.Write() }

type gateiter struct {
	kaidb.Iterator
	g *gate
}

func (it *gateiter) Next() bool { it.g.pass(); return it.Iterator.Next() }

// incarnation: everything that lives in memory between two restarts.
type incarnation struct {
	g          *gate
	kv         *gatedb
	tree       *snapshot.Tree
	journalled bool // Journal aborted the generator for good
	// collided: a commit produced a state root that already had a layer in the tree
	// (the state went back to an earlier content). The tree is keyed by root, the older
	// layer is no longer reachable through it and the bookkeeping of Cap (children and
	// stale layers are found by root) is off from here on. Cannot happen on a chain
	// (nonces, rewards); the engine stops flattening such a tree by hand.
	collided bool
}

type node struct {
	disk   *memorydb.Database // the bytes that survive a restart
	sched  *sched
	async  bool
	cur    *incarnation
	incs   []*incarnation
	db     state.Database
	tree   *snapshot.Tree
	caches []*fastcache.Cache
	stuck  bool // a product call never returned
}

// boot starts a new incarnation over the stored bytes; the previous one is
// dead from here on.
func (n *node) boot() {
	if n.cur != nil {
		n.cur.g.dead.Store(true)
		close(n.cur.g.kill)
	}
	g := &gate{s: n.sched, active: n.async, tokens: make(chan struct{}), kill: make(chan struct{})}
	n.cur = &incarnation{g: g, kv: &gatedb{n.disk, g}}
	n.incs = append(n.incs, n.cur)
	n.db = state.NewDatabase(n.cur.kv)
	n.tree = nil
}

func (n *node) openTree(root common.Hash) error {
	t, err := snapshot.New(snapshot.Config{CacheSize: 1, AsyncBuild: n.async}, n.cur.kv, n.db.TrieDB(), root)
	if err != nil {
		return err
	}
	n.tree = t
	n.cur.tree = t
	return nil
}

func (n *node) noteCache() {
	if n.tree == nil {
		return
	}
	c := n.tree.VerifDiskCache()
	if c == nil {
		return
	}
	for _, x := range n.caches {
		if x == c {
			return
		}
	}
	n.caches = append(n.caches, c)
}

// cleanup leaves no goroutine behind: generators waiting at a gate exit,
// generators that finished are released through Disable.
func (n *node) cleanup() {
	defer func() { recover() }()
	n.noteCache()
	if n.cur != nil && !n.cur.g.dead.Load() {
		n.cur.g.dead.Store(true)
		close(n.cur.g.kill)
	}
	n.sched.parked.Store(true)
	synctest.Wait()
	n.sched.parked.Store(false)
	for _, inc := range n.incs {
		if n.stuck {
			break
		}
		if inc.tree != nil && !inc.journalled && inc.g.killed.Load() == 0 {
			inc.tree.Disable()
		}
	}
	for _, c := range n.caches {
		c.Reset()
	}
}

type violation struct{ oracle, sig, detail string }

type runner struct {
	res    *core.RunResult
	tape   *core.Tape
	h, ah  *core.Hasher
	ops    []string
	n      int // addresses in use
	node   *node
	worlds map[common.Hash]*wrec
	order  []common.Hash // commit order, for tape-driven picks
	main   *handle
	shadow *handle
	life   int // steps the shadow still lives
	sparse bool
	stepNo int
	// allowMid: a copy taken inside a transaction may itself be finalised and
	// committed (off by default: the product documents that state is only ever
	// copied between transactions, see StateDB.Copy).
	allowMid bool
	async    bool // snapshot generation runs in the background, stepped by the tape
	genAlive bool // a generator may be waiting at the gate
	genWork  int  // store accesses granted to generators
	blockNos uint64
	blockCtr uint64 // nonce of the extra account, raised by every commit
	pace     int    // how often the tape lets the generator run

	reverts, commits, undone int
}

func (r *runner) step(f string, a ...interface{}) {
	s := fmt.Sprintf(f, a...)
	if len(r.ops) < 60 {
		r.ops = append(r.ops, s)
	}
	r.res.Tracef("%s", s)
	r.h.Add(s)
	if streamTrace {
		fmt.Fprintln(os.Stderr, s)
	}
}

var streamTrace = os.Getenv("VERIF_STATESIM_DUMP") == "2"

func firstLine(s string) string {
	if i := strings.IndexByte(s, '\n'); i >= 0 {
		s = s[:i]
	}
	if len(s) > 140 {
		s = s[:140]
	}
	return s
}

// guard runs product code; a panic there is a finding.
func (r *runner) guard(what string, f func()) (ok bool) {
	defer func() {
		if p := recover(); p != nil {
			msg := fmt.Sprint(p)
			r.res.Violate(prop, "panic", "panic in state code during "+what+": "+scrub(firstLine(msg)), msg)
			if r.node != nil {
				r.node.stuck = true // the panic may have left locks held
			}
			ok = false
		}
	}()
	f()
	return true
}

// call runs a product call that may start, abort or wait for a snapshot
// generator. With background generation it runs on a helper goroutine while the
// main goroutine hands the generator exactly the store accesses the call waits for.
func (r *runner) call(what string, f func()) bool {
	if !r.async {
		return r.guard(what, f)
	}
	done := make(chan struct{})
	var pv interface{}
	sc := r.node.sched
	sc.parked.Store(true)
	go func() {
		defer close(done)
		defer func() { pv = recover() }()
		f()
	}()
	ok := true
	for {
		synctest.Wait()
		select {
		case <-done:
		default:
			select {
			case r.node.cur.g.tokens <- struct{}{}:
				r.genWork++
				continue
			default:
			}
			r.res.Violate(prop, "deadlock", "state code blocks forever during "+what, "the call neither returns nor waits for a running snapshot generator")
			r.node.stuck = true // the blocked call may hold locks of the tree: nothing can be stopped any more
			ok = false
		}
		break
	}
	sc.parked.Store(false)
	r.genAlive = true
	if pv != nil {
		msg := fmt.Sprint(pv)
		r.res.Violate(prop, "panic", "panic in state code during "+what+": "+scrub(firstLine(msg)), msg)
		r.node.stuck = true // the panic may have left locks of the tree held
		return false
	}
	return ok
}

// stepGen lets the background generator make up to k store accesses.
func (r *runner) stepGen(k int) int {
	g := r.node.cur.g
	sc := r.node.sched
	sc.parked.Store(true)
	n := 0
	for n < k {
		synctest.Wait()
		select {
		case g.tokens <- struct{}{}:
			n++
			continue
		default:
			r.genAlive = false
		}
		break
	}
	synctest.Wait()
	sc.parked.Store(false)
	r.genWork += n
	return n
}

// advance is the tape's decision on generator progress after a step.
func (r *runner) advance() {
	if !r.async || !r.genAlive || r.node.tree == nil {
		return
	}
	var k int
	switch r.pace {
	case 0: // quick generator
		k = []int{0, 1, 3, 10, 1 << 20}[r.tape.Weighted(2, 2, 2, 2, 2)]
	case 1:
		k = []int{0, 1, 3, 10}[r.tape.Weighted(12, 2, 1, 1)]
	default: // a generator that hardly gets to run: blocks pile up on top of it
		k = []int{0, 1, 2}[r.tape.Weighted(40, 2, 1)]
	}
	if k == 0 {
		return
	}
	n := r.stepGen(k)
	r.step("generator +%d", n)
	if n > 0 {
		r.res.Fault("generator-step")
	}
}

// generating asks the tree whether its disk layer is still being generated.
func (r *runner) generating() bool {
	if r.node.tree == nil {
		return false
	}
	it, err := r.node.tree.AccountIterator(r.node.tree.DiskRoot(), common.Hash{})
	if err == nil {
		it.Release()
		return false
	}
	return errors.Is(err, snapshot.ErrNotConstructed)
}

// scrub removes hex strings and numbers from a panic line so that it can serve
// as a structural signature.
func scrub(s string) string {
	var b strings.Builder
	for i := 0; i < len(s); i++ {
		c := s[i]
		if c >= '0' && c <= '9' {
			if b.Len() == 0 || b.String()[b.Len()-1] != '#' {
				b.WriteByte('#')
			}
			continue
		}
		b.WriteByte(c)
	}
	return b.String()
}

func (h *handle) where() string {
	if h.midCopy {
		return " on a copy taken inside a transaction"
	}
	if h.isCopy {
		return " on a copy"
	}
	return ""
}

// check compares every getter with the model; only != nil restricts the
// per-account part to the given addresses.
func (r *runner) check(h *handle, after string, only []int) bool {
	var v *violation
	m := &h.m
	fail := func(getter, detail string) {
		if v == nil {
			v = &violation{"getter:" + getter, getter + " differs from the reference model after " + after + h.where() + h.via, detail}
		}
	}
	sdb := h.sdb
	ok := r.guard("getters after "+after, func() {
		list := only
		if list == nil {
			list = make([]int, r.n, r.n+1)
			for i := range list {
				list[i] = i
			}
			list = append(list, cb)
		}
		for _, a := range list {
			ad := addrs[a]
			ex := m.exists[a]
			var ac macct
			if ex {
				ac = m.acct[a]
			} else {
				ac = macct{balance: big0}
			}
			if got := sdb.Exist(ad); got != ex {
				fail("Exist", fmt.Sprintf("a%d impl %v model %v", a, got, ex))
			}
			if got, want := sdb.Empty(ad), !ex || ac.empty(); got != want {
				fail("Empty", fmt.Sprintf("a%d impl %v model %v", a, got, want))
			}
			if got := sdb.GetBalance(ad); got.Cmp(ac.balance) != 0 {
				fail("GetBalance", fmt.Sprintf("a%d impl %v model %v", a, got, ac.balance))
			}
			if got := sdb.GetNonce(ad); got != ac.nonce {
				fail("GetNonce", fmt.Sprintf("a%d impl %v model %v", a, got, ac.nonce))
			}
			wantCode := codes[ac.code]
			sizeFirst := (r.stepNo+a)%2 == 0
			if sizeFirst {
				if got := sdb.GetCodeSize(ad); got != len(wantCode) {
					fail("GetCodeSize", fmt.Sprintf("a%d impl %v model %v", a, got, len(wantCode)))
				}
			}
			if got := sdb.GetCode(ad); !bytes.Equal(got, wantCode) {
				fail("GetCode", fmt.Sprintf("a%d impl %x model %x", a, got, wantCode))
			}
			if !sizeFirst {
				if got := sdb.GetCodeSize(ad); got != len(wantCode) {
					fail("GetCodeSize", fmt.Sprintf("a%d impl %v model %v", a, got, len(wantCode)))
				}
			}
			wantHash := common.Hash{}
			if ex {
				wantHash = emptyCode
				if ac.hasCode() {
					wantHash = codeHash[ac.code]
				}
			}
			if got := sdb.GetCodeHash(ad); got != wantHash {
				fail("GetCodeHash", fmt.Sprintf("a%d impl %x model %x", a, got, wantHash))
			}
			if got := sdb.HasSuicided(ad); got != ac.suicided {
				fail("HasSuicided", fmt.Sprintf("a%d impl %v model %v", a, got, ac.suicided))
			}
			for s := 0; s < nSlots; s++ {
				if !ex && only == nil && s != (r.stepNo+a)%nSlots {
					// an account the model does not have: all storage getters take the same
					// "no such object" path, one rotating slot per step keeps it covered
					if got := sdb.GetTransientState(ad, slots[s]); got != vals[m.transient[a][s]] {
						fail("GetTransientState", fmt.Sprintf("a%d s%d impl %x model v%d", a, s, got, m.transient[a][s]))
					}
					ap, sp := sdb.SlotInAccessList(ad, slots[s])
					if ap != m.alAddr[a] || sp != m.alSlot[a][s] {
						fail("SlotInAccessList", fmt.Sprintf("a%d s%d impl (%v,%v) model (%v,%v)", a, s, ap, sp, m.alAddr[a], m.alSlot[a][s]))
					}
					continue
				}
				if got := sdb.GetState(ad, slots[s]); got != vals[ac.storage[s]] {
					fail("GetState", fmt.Sprintf("a%d s%d impl %x model v%d", a, s, got, ac.storage[s]))
				}
				if got := sdb.GetCommittedState(ad, slots[s]); got != vals[ac.committed[s]] {
					fail("GetCommittedState", fmt.Sprintf("a%d s%d impl %x model v%d", a, s, got, ac.committed[s]))
				}
				if got := sdb.GetTransientState(ad, slots[s]); got != vals[m.transient[a][s]] {
					fail("GetTransientState", fmt.Sprintf("a%d s%d impl %x model v%d", a, s, got, m.transient[a][s]))
				}
				ap, sp := sdb.SlotInAccessList(ad, slots[s])
				if ap != m.alAddr[a] || sp != m.alSlot[a][s] {
					fail("SlotInAccessList", fmt.Sprintf("a%d s%d impl (%v,%v) model (%v,%v)", a, s, ap, sp, m.alAddr[a], m.alSlot[a][s]))
				}
			}
			if got := sdb.AddressInAccessList(ad); got != m.alAddr[a] {
				fail("AddressInAccessList", fmt.Sprintf("a%d impl %v model %v", a, got, m.alAddr[a]))
			}
		}
		if got := sdb.GetRefund(); got != m.refund {
			fail("GetRefund", fmt.Sprintf("impl %d model %d", got, m.refund))
		}
		if h.blockNo == 0 {
			r.blockNos++
			h.blockNo = r.blockNos
		}
		logs := sdb.Logs()
		sort.Slice(logs, func(i, j int) bool { return logs[i].Index < logs[j].Index })
		for i, l := range logs {
			if i < h.annotated && l.BlockHeight != h.blockNo {
				fail("GetLogs", fmt.Sprintf("log %d carries block number %d, this state annotated it with %d", i, l.BlockHeight, h.blockNo))
			}
		}
		h.annotated = len(logs)
		if len(logs) != len(m.logs) {
			fail("Logs", fmt.Sprintf("impl has %d logs, model %d", len(logs), len(m.logs)))
		} else {
			for i, l := range logs {
				ml := m.logs[i]
				if l.Index != uint(i) || l.TxHash != txHash(ml.tx) || l.TxIndex != uint(ml.tx) || l.Address != addrs[ml.addr] || !bytes.Equal(l.Data, []byte{ml.data}) {
					fail("Logs", fmt.Sprintf("log %d impl {idx %d tx %x/%d addr %x data %x} model {tx %d addr a%d data %x}", i, l.Index, l.TxHash[:4], l.TxIndex, l.Address[:2], []byte(l.Data), ml.tx, ml.addr, ml.data))
					break
				}
			}
			// per-transaction view
			seen := map[uint64]int{}
			for _, ml := range m.logs {
				seen[ml.tx]++
			}
			for tx, cnt := range seen {
				if got := len(sdb.GetLogs(txHash(tx), h.blockNo, bhash)); got != cnt {
					fail("GetLogs", fmt.Sprintf("tx %d impl %d logs model %d", tx, got, cnt))
				}
			}
		}
		if err := sdb.Error(); err != nil {
			fail("Error", "memoized database error: "+err.Error())
		}
	})
	if !ok {
		return false
	}
	if v != nil {
		r.res.Violate(prop, v.oracle, v.sig, v.detail+"\nmodel: "+m.describe(r.n))
		return false
	}
	return true
}

// txOp executes one transaction-level operation on a handle and its model.
func (r *runner) txOp(h *handle, o rop) bool {
	r.stepNo++
	r.res.Steps++
	var got bool
	if !r.guard(opNames[o.k], func() { got, _, _ = applyImpl(h.sdb, o) }) {
		return false
	}
	want := h.m.apply(o, h.tx)
	h.ops = append(h.ops, o)
	h.inTx++
	r.step("%s -> %v", o, got)
	r.ah.Add(opNames[o.k])
	if got != want {
		r.res.Violate(prop, "suicide-return", "Suicide reports a different result than the reference model"+h.where(), fmt.Sprintf("%s impl %v model %v", o, got, want))
		return false
	}
	var only []int
	if r.sparse {
		only = []int{o.a}
	}
	if !r.check(h, opNames[o.k], only) {
		return false
	}
	return r.checkShadow()
}

func (r *runner) checkShadow() bool {
	if r.shadow == nil {
		return true
	}
	return r.check(r.shadow, "a write to its sibling", nil)
}

func (r *runner) snapshot(h *handle) bool {
	var id int
	if !r.guard("Snapshot", func() { id = h.sdb.Snapshot() }) {
		return false
	}
	h.snaps = append(h.snaps, msnap{id: id, m: h.m.clone(), opLen: len(h.ops)})
	h.inTx++
	r.step("Snapshot -> %d (depth %d)", id, len(h.snaps))
	r.ah.Add("Snapshot")
	return true
}

func (r *runner) revert(h *handle, idx int) bool {
	r.stepNo++
	r.res.Steps++
	sn := h.snaps[idx]
	if !r.guard("RevertToSnapshot", func() { h.sdb.RevertToSnapshot(sn.id) }) {
		return false
	}
	und := len(h.ops) - sn.opLen
	h.m = sn.m
	h.ops = h.ops[:sn.opLen]
	h.snaps = h.snaps[:idx]
	r.step("RevertToSnapshot(%d) undoing %d ops", sn.id, und)
	r.ah.Add("Revert")
	r.reverts++
	if und > 0 {
		r.undone++
		r.res.Fault("revert")
	} else {
		r.res.Fault("revert-empty")
	}
	if !r.check(h, "RevertToSnapshot", nil) {
		return false
	}
	return r.checkShadow()
}

// boundary ends the current transaction with Finalise / IntermediateRoot /
// Commit, compares roots and starts the next transaction.
func (r *runner) boundary(h *handle, k opKind, del bool) bool {
	if k == opCommit {
		// the "block": unless the commit would leave the state as it was (and the tape
		// wants to see exactly that), the nonce of the extra account moves on
		pm := h.m.clone()
		pm.finalise(del)
		if pm.root() != h.lastRoot || r.tape.Chance(1, 2) {
			r.blockCtr++
			if !r.txOp(h, rop{k: opNonce, a: cb, n: r.blockCtr}) {
				return false
			}
		} else {
			r.res.Probe("commit-without-change")
		}
	}
	r.stepNo++
	r.res.Steps++
	o := rop{k: k, del: del}
	var root common.Hash
	var err error
	run := r.guard
	had := map[common.Hash]bool{}
	if k == opCommit {
		run = r.call
		if r.node.tree != nil {
			for _, rt := range r.order {
				if rt != h.lastRoot && r.node.tree.Snapshot(rt) != nil {
					had[rt] = true
				}
			}
		}
	}
	if !run(opNames[k], func() { _, root, err = applyImpl(h.sdb, o) }) {
		return false
	}
	before := h.m.clone()
	h.m.finalise(del)
	h.ops = append(h.ops, o)
	h.snaps = nil
	h.inTx = 0
	r.ah.Add(opNames[k], fmt.Sprint(del))
	for a := 0; a < r.n; a++ {
		if before.exists[a] && !h.m.exists[a] {
			if before.acct[a].suicided {
				r.res.Probe("self-destruct-finalised")
			} else {
				r.res.Probe("empty-account-deleted")
			}
		}
	}
	if err != nil {
		r.step("%s -> error", o)
		r.res.Violate(prop, "commit-error", "Commit fails on a valid history"+h.where(), err.Error())
		return false
	}
	if k == opFinalise {
		r.step("%s", o)
	} else {
		want := h.m.root()
		r.step("%s -> %x", o, root[:6])
		if root != want {
			r.res.Violate(prop, "root:model", opNames[k]+" root differs from the root of the reference content built through an independent trie"+h.where()+h.via,
				fmt.Sprintf("impl %x model %x\nmodel: %s", root, want, h.m.describe(r.n)))
			return false
		}
	}
	if k == opCommit {
		r.commits++
		if had[root] && !r.node.cur.collided {
			r.node.cur.collided = true
			r.res.Probe("state-root-revisited-in-snapshot-tree")
		}
		h.lastRoot = root
		rr, rerr := common.Hash{}, error(nil)
		ops := append([]rop(nil), h.ops...)
		if !r.guard("replay of surviving operations", func() { rr, rerr = replayRoot(ops) }) {
			return false
		}
		if rerr != nil || rr != root {
			r.res.Violate(prop, "root:replay", "committed root differs from the root of the surviving operations applied to a fresh state"+h.where()+h.via,
				fmt.Sprintf("committed %x replay %x err %v", root, rr, rerr))
			return false
		}
		if _, ok := r.worlds[root]; !ok {
			r.order = append(r.order, root)
		}
		wm := h.m.clone()
		r.worlds[root] = &wrec{m: wm, ops: ops, flushed: r.worlds[root] != nil && r.worlds[root].flushed}
		r.node.noteCache()
		if !r.snapCheck(root, "Commit") {
			return false
		}
	}
	// next transaction
	h.tx++
	p := rop{k: opPrepare, n: h.tx}
	if !r.guard("Prepare", func() { applyImpl(h.sdb, p) }) {
		return false
	}
	h.ops = append(h.ops, p)
	if !r.check(h, opNames[k], nil) {
		return false
	}
	return r.checkShadow()
}

// snapCheck reads the content of a committed root directly from the snapshot
// layer registered for it.
func (r *runner) snapCheck(root common.Hash, after string) bool {
	if r.node.tree == nil {
		return true
	}
	w := r.worlds[root]
	if w == nil {
		return true
	}
	var v *violation
	ok := r.guard("snapshot layer reads", func() {
		layer := r.node.tree.Snapshot(root)
		if layer == nil {
			return
		}
		r.res.Probe("snapshot-layer-read")
		for a := 0; a < nAcc && v == nil; a++ {
			if a >= r.n && a != cb {
				continue
			}
			acc, err := layer.Account(addrHash[a])
			if err != nil {
				if errors.Is(err, snapshot.ErrSnapshotStale) || errors.Is(err, snapshot.ErrNotCoveredYet) {
					r.res.Probe("snapshot-layer-" + strings.ReplaceAll(err.Error(), " ", "-"))
					continue
				}
				v = &violation{"snapshot-layer", "snapshot layer fails to read an account after " + after, err.Error()}
				return
			}
			ex := w.m.exists[a]
			if (acc != nil) != ex {
				v = &violation{"snapshot-layer", "snapshot layer disagrees with the committed content on account existence after " + after, fmt.Sprintf("a%d layer has=%v model exists=%v", a, acc != nil, ex)}
				return
			}
			if ex {
				ac := w.m.acct[a]
				wantRoot := storageRoot(ac.storage)
				gotRoot := emptyRoot
				if len(acc.Root) > 0 {
					gotRoot = common.BytesToHash(acc.Root)
				}
				wantCH := []byte(nil)
				if ac.hasCode() {
					wantCH = codeHash[ac.code][:]
				}
				gotCH := acc.CodeHash
				if bytes.Equal(gotCH, emptyCode[:]) {
					gotCH = nil
				}
				if acc.Nonce != ac.nonce || acc.Balance.Cmp(ac.balance) != 0 || gotRoot != wantRoot || !bytes.Equal(gotCH, wantCH) {
					v = &violation{"snapshot-layer", "snapshot layer returns account fields that differ from the committed content after " + after,
						fmt.Sprintf("a%d layer {n=%d b=%v root=%x ch=%x} model {n=%d b=%v root=%x ch=%x}", a, acc.Nonce, acc.Balance, gotRoot[:4], gotCH, ac.nonce, ac.balance, wantRoot[:4], wantCH)}
					return
				}
			}
			for s := 0; s < nSlots; s++ {
				enc, err := layer.Storage(addrHash[a], slotHash[s])
				if err != nil {
					continue
				}
				want := 0
				if ex {
					want = w.m.acct[a].storage[s]
				}
				var got common.Hash
				if len(enc) > 0 {
					var raw []byte
					if e := grlp.DecodeBytes(enc, &raw); e != nil {
						v = &violation{"snapshot-layer", "snapshot layer returns an undecodable storage value after " + after, e.Error()}
						return
					}
					got.SetBytes(raw)
				}
				if got != vals[want] {
					what := "snapshot layer returns a storage value that differs from the committed content after "
					if !ex {
						what = "snapshot layer returns storage of an account that does not exist after "
					}
					v = &violation{"snapshot-layer", what + after, fmt.Sprintf("a%d s%d layer %x model v%d", a, s, got, want)}
					return
				}
			}
		}
	})
	if !ok {
		return false
	}
	if v != nil {
		r.res.Violate(prop, v.oracle, v.sig, v.detail+"\nmodel: "+w.m.describe(r.n))
		return false
	}
	return true
}

// open creates a fresh StateDB on a committed root.
func (r *runner) open(root common.Hash, withSnaps bool, why string) bool {
	w := r.worlds[root]
	var sdb *state.StateDB
	var err error
	var tree *snapshot.Tree
	if withSnaps {
		tree = r.node.tree
	}
	hasLayer := false
	if !r.guard("state.New", func() {
		if tree != nil {
			hasLayer = tree.Snapshot(root) != nil
		}
		sdb, err = state.New(root, r.node.db, tree)
	}) {
		return false
	}
	via := "trie"
	if hasLayer {
		via = "snapshot"
		r.res.Probe("reopen-through-snapshot-layer")
		if r.async && r.generating() {
			r.res.Probe("reopen-while-generating")
		}
	}
	r.step("open %x via %s (%s)", root[:6], via, why)
	r.ah.Add("open", via, why)
	if err != nil {
		r.res.Violate(prop, "reopen", "state.New fails on a committed root ("+why+")", err.Error())
		return false
	}
	h := &handle{sdb: sdb, ops: append([]rop(nil), w.ops...), via: "", lastRoot: root}
	h.m.exists = w.m.exists
	h.m.acct = w.m.acct
	h.tx = r.main.tx + 1
	p := rop{k: opPrepare, n: h.tx}
	applyImpl(sdb, p)
	h.ops = append(h.ops, p)
	r.main = h
	r.stepNo++
	if !r.check(h, "reopen("+via+", "+why+")", nil) {
		return false
	}
	// the content just verified came through this path: keep it in later signatures
	if hasLayer {
		h.via = " [state opened through a snapshot layer]"
	}
	return true
}

type engine struct{}

func (engine) Name() string { return "statesim" }

var amounts = []*big.Int{big.NewInt(0), big.NewInt(1), big.NewInt(3), big.NewInt(1 << 40), new(big.Int).Lsh(big.NewInt(5), 70)}
var nonces = []uint64{0, 1, 2, 1 << 63}

func (r *runner) genTxOp(h *handle) rop {
	t := r.tape
	m := &h.m
	k := []opKind{opState, opAddBal, opSubBal, opSetBal, opNonce, opCode, opCreate, opSuicide, opAddRefund, opSubRefund, opLog, opALAddr, opALSlot, opTransient}[t.Weighted(7, 4, 2, 1, 2, 2, 2, 2, 1, 1, 1, 1, 1, 2)]
	o := rop{k: k}
	switch k {
	case opAddRefund:
		o.n = uint64(t.Range(0, 5))
		return o
	case opSubRefund:
		if m.refund == 0 {
			o.n = 0
		} else {
			o.n = uint64(t.Range(0, int(min(m.refund, 5))))
		}
		return o
	}
	o.a = t.Draw(r.n)
	switch k {
	case opState, opTransient:
		o.s = t.Draw(nSlots)
		o.v = t.Draw(len(vals))
	case opALSlot:
		o.s = t.Draw(nSlots)
	case opAddBal, opSetBal:
		o.amt = amounts[t.Draw(len(amounts))]
	case opSubBal:
		b := m.bal(o.a)
		switch t.Draw(3) {
		case 0:
			o.amt = big0
		case 1:
			o.amt = new(big.Int).Set(b) // everything
		default:
			o.amt = new(big.Int).Rsh(b, 1)
		}
	case opNonce:
		o.n = nonces[t.Draw(len(nonces))]
	case opCode:
		o.v = t.Draw(len(codes))
	case opLog:
		o.v = t.Draw(4)
	}
	return o
}

func (engine) Run(t *testing.T, tape *core.Tape, opt core.Options) (res *core.RunResult) {
	res = core.NewResult()
	r := &runner{res: res, tape: tape, h: core.NewHasher(), ah: core.NewHasher(), worlds: map[common.Hash]*wrec{}}
	if os.Getenv("VERIF_STATESIM_PROGRESS") != "" {
		fmt.Fprintf(os.Stderr, "run %d\n", opt.RunIndex)
	}
	var harness interface{}
	func() {
		defer func() {
			// goroutines left behind by product code make the bubble panic at exit
			if p := recover(); p != nil {
				if strings.Contains(fmt.Sprint(p), "deadlock") {
					res.Probe("goroutines-left-in-bubble")
					if paranoid {
						res.Infra = fmt.Sprintf("goroutines left in bubble: %v\n%s", p, strings.Join(res.TraceTail, "\n"))
					}
					return
				}
				panic(p)
			}
		}()
		synctest.Test(t, func(*testing.T) {
			defer func() {
				harness = recover()
				if os.Getenv("VERIF_STATESIM_DUMP") != "" {
					fmt.Fprintf(os.Stderr, "%s\nviolations: %v\n", strings.Join(res.TraceTail, "\n"), res.Violations)
				}
				if r.node != nil {
					r.node.cleanup()
				}
			}()
			r.run(opt)
		})
	}()
	if harness != nil {
		panic(harness) // reported as infrastructure trouble by core
	}
	res.TraceHash = r.h.Sum()
	res.AbstractHash = r.ah.Sum()
	res.Sample = map[string]interface{}{"ops": r.ops}
	return res
}

func (r *runner) run(opt core.Options) {
	t, res := r.tape, r.res
	r.n = t.Range(4, maxAddrs)
	useSnaps := t.Chance(2, 3)
	copyAnywhere := t.Chance(1, 4)
	r.allowMid = opt.Int("midtxcopy", 0) == 1
	r.sparse = t.Chance(1, 3)
	profile := t.Draw(4)
	nSteps := t.Range(5, opt.Int("steps", 120))

	r.async = useSnaps && t.Chance(1, 2)
	if v := opt.Int("async", -1); v >= 0 { // debugging aid: force the generation mode
		r.async = useSnaps && v == 1
	}
	if r.async {
		r.pace = t.Draw(3)
	}
	nd := &node{disk: memorydb.New(), sched: &sched{}, async: r.async}
	nd.boot()
	r.node = nd
	r.worlds[emptyRoot] = &wrec{flushed: true}
	r.order = append(r.order, emptyRoot)
	if useSnaps {
		var err error
		if !r.call("snapshot.New", func() { err = nd.openTree(emptyRoot) }) {
			return
		}
		nd.noteCache()
		if err != nil {
			res.Infra = "snapshot.New on an empty database: " + err.Error()
			return
		}
	}
	r.step("universe %d addrs, snaps=%v async=%v copyAnywhere=%v sparse=%v profile=%d", r.n, useSnaps, r.async, copyAnywhere, r.sparse, profile)
	r.ah.Add(fmt.Sprint(useSnaps, r.async, copyAnywhere, profile))
	r.main = &handle{}
	if !r.open(emptyRoot, useSnaps, "genesis") {
		return
	}

	// weights: txop snapshot revert macro finalise iroot commit copy reopen restart cap flush
	w := []int{20, 3, 3, 2, 2, 1, 2, 1, 1, 1, 1, 1}
	switch profile {
	case 1: // revert heavy
		w[1], w[2], w[3] = 6, 6, 4
	case 2: // commit / reopen heavy
		w[6], w[8], w[9], w[10], w[11] = 4, 3, 2, 2, 2
	case 3: // long transactions
		w[0], w[4], w[5] = 30, 1, 1
	}

	for s := 0; s < nSteps && !res.Failed(); s++ {
		kind := t.Weighted(w...)
		if kind >= 4 && kind != 10 && kind != 11 {
			if !r.settle() {
				break
			}
		}
		h := r.main
		switch kind {
		case 0:
			r.txOp(h, r.genTxOp(h))
		case 1:
			if len(h.snaps) < maxDepth {
				r.snapshot(h)
			}
		case 2:
			if len(h.snaps) > 0 {
				// 0 = innermost (the most common EVM case)
				r.revert(h, len(h.snaps)-1-t.Draw(len(h.snaps)))
			}
		case 3:
			r.macro(h)
		case 4:
			r.boundary(h, opFinalise, t.Chance(1, 2))
		case 5:
			r.boundary(h, opIRoot, t.Chance(1, 2))
		case 6:
			if !r.boundary(h, opCommit, t.Chance(1, 2)) {
				break
			}
			r.afterCommit(useSnaps)
		case 7:
			r.copyStep(copyAnywhere)
		case 8:
			r.reopenStep(useSnaps)
		case 9:
			r.restartStep(useSnaps)
		case 10:
			r.capStep()
		case 11:
			r.flushStep(t.Draw(len(r.order)))
		}
		if !res.Failed() {
			r.advance()
		}
		if r.shadow != nil && !res.Failed() {
			r.life--
			if r.life <= 0 && r.settle() && r.shadow != nil {
				r.retireShadow()
			}
		}
	}
	if res.Failed() || !r.settle() {
		return
	}
	// epilogue: commit what is there and read it back both ways
	if r.shadow != nil {
		if !r.retireShadow() {
			return
		}
	}
	if !r.boundary(r.main, opCommit, t.Chance(1, 2)) {
		return
	}
	last := r.main.lastRoot
	if !r.open(last, false, "final") {
		return
	}
	if useSnaps {
		if !r.open(last, true, "final") {
			return
		}
		// let a background generator finish, then the whole tree must be right
		if r.async {
			r.step("generator runs to completion +%d", r.stepGen(1<<30))
			if !r.open(last, true, "final, generation complete") {
				return
			}
		}
		for _, rt := range r.order {
			if !r.snapCheck(rt, "the end of the history") {
				return
			}
		}
		if nd.tree.Snapshot(last) != nil && !nd.tree.VerifLinksToStale(last) {
			var verr error
			if !r.call("snapshot Verify", func() { verr = nd.tree.Verify(last) }) {
				return
			}
			if errors.Is(verr, snapshot.ErrNotConstructed) {
				// the generator stalled: the trie under the disk layer did not survive a restart
				// ("missing trie"), it waits for the next flatten. Reads fall back to the trie.
				res.Probe("snapshot-generator-stalled")
			} else if verr != nil {
				res.Violate(prop, "snapshot-verify", "snapshot tree content does not hash to the committed root at the end of the history", verr.Error())
				return
			}
			if verr == nil {
				res.Probe("snapshot-verified")
			}
		}
	}
	res.NonTrivial = r.undone > 0 && r.commits > 0 && res.Steps >= 10
}

// macro is the multi-step pattern with the abort placed inside it:
// snapshot, create, set storage, (set code), self-destruct, (add balance),
// revert after a tape-chosen number of steps (0 = never).
func (r *runner) macro(h *handle) {
	t := r.tape
	a := t.Draw(r.n)
	seq := []rop{{k: opCreate, a: a}, {k: opState, a: a, s: t.Draw(nSlots), v: 1 + t.Draw(len(vals)-1)}}
	if t.Chance(1, 2) {
		seq = append(seq, rop{k: opCode, a: a, v: 1 + t.Draw(2)})
	}
	seq = append(seq, rop{k: opSuicide, a: a})
	if t.Chance(1, 2) {
		seq = append(seq, rop{k: opAddBal, a: a, amt: amounts[1+t.Draw(2)]})
	}
	if t.Chance(1, 3) {
		seq = append(seq, rop{k: opCreate, a: a})
	}
	abortAt := 0
	if len(h.snaps) < maxDepth {
		abortAt = t.Draw(len(seq) + 1)
	}
	r.ah.Add("macro", fmt.Sprint(len(seq), abortAt))
	if abortAt > 0 {
		if !r.snapshot(h) {
			return
		}
	}
	idx := len(h.snaps) - 1
	for i, o := range seq {
		if !r.txOp(h, o) {
			return
		}
		if abortAt == i+1 {
			r.res.Fault("abort-inside-create-store-destruct")
			r.revert(h, idx)
			return
		}
	}
}

func (r *runner) afterCommit(useSnaps bool) {
	root := r.main.lastRoot
	switch r.tape.Weighted(2, 1, 2) {
	case 0: // keep using the committed StateDB
		r.res.Probe("continue-after-commit")
	case 1:
		r.open(root, false, "after commit")
	case 2:
		r.open(root, useSnaps, "after commit")
	}
}

func (r *runner) copyStep(anywhere bool) {
	h := r.main
	t := r.tape
	if r.shadow != nil {
		// swap the roles: continue on the sibling, the current one is watched
		if t.Chance(1, 2) {
			if !anywhere && r.shadow.inTx > 0 {
				return
			}
			r.step("swap siblings")
			r.ah.Add("swap")
			r.main, r.shadow = r.shadow, r.main
			r.life = t.Range(1, 8)
			r.res.Probe("sibling-swap")
			return
		}
		if !r.retireShadow() {
			return
		}
	}
	if h.inTx > 0 && !anywhere {
		if !r.boundary(h, opFinalise, t.Chance(1, 2)) {
			return
		}
	}
	mid := h.inTx > 0
	var c *state.StateDB
	if !r.guard("Copy", func() { c = h.sdb.Copy() }) {
		return
	}
	r.stepNo++
	r.res.Steps++
	cp := &handle{sdb: c, m: h.m.clone(), ops: append([]rop(nil), h.ops...), tx: h.tx, isCopy: true, midCopy: mid || h.midCopy, via: h.via, lastRoot: h.lastRoot}
	// Copy does not carry the transaction context: set it again
	p := rop{k: opPrepare, n: cp.tx}
	applyImpl(c, p)
	cp.ops = append(cp.ops, p)
	cp.inTx = h.inTx
	r.step("Copy (inside tx: %v)", mid)
	r.ah.Add("Copy", fmt.Sprint(mid))
	if mid {
		r.res.Probe("copy-inside-transaction")
	}
	if !r.check(cp, "Copy", nil) || !r.check(h, "Copy", nil) {
		return
	}
	if t.Chance(1, 2) {
		r.main, r.shadow = cp, h
		r.step("continue on the copy")
	} else {
		r.shadow = cp
	}
	r.life = t.Range(1, 8)
}

// restricted: a copy taken inside a transaction is used for independence
// checks only, unless midtxcopy=1.
func (r *runner) restricted(h *handle) bool { return h != nil && h.midCopy && !r.allowMid }

// settle makes sure the current StateDB may end its transaction: a restricted
// copy is abandoned in favour of the original it was taken from.
func (r *runner) settle() bool {
	if !r.restricted(r.main) {
		return true
	}
	cp := r.main
	r.main, r.shadow = r.shadow, nil
	r.step("abandon the copy, back to the original")
	r.ah.Add("abandon")
	r.stepNo++
	return r.check(cp, "transaction operations", nil) && r.check(r.main, "writes to its copy", nil)
}

// retireShadow ends the life of the watched sibling: last look, then
// nothing / IntermediateRoot / Commit against its own model.
func (r *runner) retireShadow() bool {
	sh := r.shadow
	r.shadow = nil
	if !r.check(sh, "writes to its sibling", nil) {
		return false
	}
	t := r.tape
	if r.restricted(sh) {
		r.step("drop sibling")
		return true
	}
	switch t.Draw(3) {
	case 0:
		r.step("drop sibling")
		return true
	case 1:
		r.step("sibling:")
		return r.boundary(sh, opIRoot, t.Chance(1, 2))
	default:
		r.step("sibling:")
		return r.boundary(sh, opCommit, t.Chance(1, 2))
	}
}

func (r *runner) reopenStep(useSnaps bool) {
	t := r.tape
	root := r.order[len(r.order)-1-t.Draw(len(r.order))]
	if r.shadow != nil {
		if !r.retireShadow() {
			return
		}
	}
	if root != r.order[len(r.order)-1] {
		r.res.Probe("reopen-older-root")
	}
	r.open(root, useSnaps && t.Chance(2, 3), "reopen")
}

func (r *runner) flushStep(back int) bool {
	root := r.order[len(r.order)-1-back]
	var err error
	if !r.guard("trie database commit", func() { err = r.node.db.TrieDB().Commit(root, false) }) {
		return false
	}
	r.step("flush trie %x", root[:6])
	r.ah.Add("flush")
	if err != nil {
		r.res.Violate(prop, "flush", "trie database fails to persist a committed root", err.Error())
		return false
	}
	r.worlds[root].flushed = true
	return true
}

func (r *runner) capStep() {
	if r.node.tree == nil {
		return
	}
	t := r.tape
	root := r.order[len(r.order)-1-t.Draw(len(r.order))]
	layers := t.Draw(3)
	var err error
	gen := r.async && r.generating()
	if r.node.cur.collided {
		r.step("Cap(%x,%d) skipped: a state root was revisited", root[:6], layers)
		return
	}
	// A fork whose lower layers were flattened by an earlier Cap on a sibling is dead:
	// Cap asserts on it ("parent diff layer is stale"). Not a legal call, not made.
	if r.node.tree.VerifLinksToStale(root) {
		r.step("Cap(%x,%d) skipped: dead fork", root[:6], layers)
		r.res.Probe("snapshot-dead-fork")
		return
	}
	if !r.call("snapshot Cap", func() { err = r.node.tree.Cap(root, layers) }) {
		return
	}
	if gen && err == nil {
		r.res.Probe("cap-while-generating")
	}
	r.node.noteCache()
	r.step("Cap(%x,%d) -> err=%v", root[:6], layers, err != nil)
	r.ah.Add("cap", fmt.Sprint(layers, err != nil))
	if err == nil {
		r.res.Fault("snapshot-cap")
		if layers == 0 {
			r.res.Probe("snapshot-flattened-to-disk")
		}
	}
	// every root that still has a layer must read back its own content
	for _, rt := range r.order {
		if !r.snapCheck(rt, "Cap") {
			return
		}
	}
	// the live StateDB may now sit on a stale layer
	r.stepNo++
	if !r.check(r.main, "snapshot Cap", nil) {
		return
	}
	r.checkShadow()
}

// restartStep drops every in-memory object (StateDB, state.Database with its
// dirty trie nodes, snapshot tree with its diff layers) and reopens from the
// bytes in the key-value store.
func (r *runner) restartStep(useSnaps bool) {
	t := r.tape
	nd := r.node
	clean := t.Chance(1, 2)
	if r.shadow != nil {
		r.shadow = nil
		r.step("drop sibling (restart)")
	}
	var target common.Hash
	if clean {
		// orderly shutdown: journal the snapshot tree for the head, persist the head trie
		target = r.order[len(r.order)-1]
		if nd.tree != nil {
			var err error
			var base common.Hash
			if nd.tree.Snapshot(target) != nil && nd.tree.VerifLinksToStale(target) {
				// the head sits on a fork whose lower layers were flattened away by a Cap on a
				// sibling: Journal refuses (ErrSnapshotStale), the node logs that and shuts
				// down without a journal; the snapshot is rebuilt at the next start
				r.step("no snapshot journal: head is on a dead fork")
				r.res.Probe("snapshot-dead-fork")
			} else if nd.tree.Snapshot(target) != nil {
				nd.cur.journalled = true
				if !r.call("snapshot Journal", func() { base, err = nd.tree.Journal(target) }) {
					return
				}
			}
			if err != nil {
				r.res.Violate(prop, "snapshot-journal", "snapshot tree fails to journal a committed root", err.Error())
				return
			}
			// as the node does on shutdown: the trie under the disk layer is persisted as well
			if w := r.worlds[base]; w != nil && base != target {
				for i, rt := range r.order {
					if rt == base {
						if !r.flushStep(len(r.order) - 1 - i) {
							return
						}
					}
				}
			}
		}
		if !r.flushStep(0) {
			return
		}
	} else {
		// crash: the newest root whose trie reached the store
		target = emptyRoot
		for i := len(r.order) - 1; i >= 0; i-- {
			if r.worlds[r.order[i]].flushed {
				target = r.order[i]
				break
			}
		}
		r.res.Fault("dirty-restart")
	}
	// forget what never reached the store
	var keep []common.Hash
	for _, rt := range r.order {
		if r.worlds[rt].flushed {
			keep = append(keep, rt)
		} else {
			delete(r.worlds, rt)
		}
	}
	// the target becomes the head
	r.order = nil
	for _, rt := range keep {
		if rt != target {
			r.order = append(r.order, rt)
		}
	}
	r.order = append(r.order, target)
	r.step("restart clean=%v at %x", clean, target[:6])
	r.ah.Add("restart", fmt.Sprint(clean))
	nd.noteCache()
	if useSnaps {
		var gen struct {
			Wiping   bool
			Done     bool
			Marker   []byte
			Accounts uint64
			Slots    uint64
			Storage  uint64
		}
		if blob := rawdb.ReadSnapshotGenerator(nd.disk); len(blob) > 0 && grlp.DecodeBytes(blob, &gen) == nil && !gen.Done {
			if len(gen.Marker) > 0 {
				r.res.Probe("restart-with-generator-marker-inside-state")
			} else {
				r.res.Probe("restart-with-generator-at-start")
			}
		}
	}
	nd.boot()
	if r.async {
		// the generator of the dead incarnation is gone before anything else happens
		nd.sched.parked.Store(true)
		synctest.Wait()
		nd.sched.parked.Store(false)
	}
	if useSnaps {
		var err error
		if !r.call("snapshot.New after restart", func() { err = nd.openTree(target) }) {
			return
		}
		nd.noteCache()
		if err != nil {
			r.res.Violate(prop, "snapshot-load", "snapshot tree cannot be opened after a restart", err.Error())
			return
		}
		if !r.snapCheck(target, "restart") {
			return
		}
	}
	why := "dirty restart"
	if clean {
		why = "clean restart"
	}
	// every persisted root must still open through the trie
	for _, rt := range r.order[:len(r.order)-1] {
		if t.Chance(1, 2) {
			if !r.open(rt, false, why) {
				return
			}
		}
	}
	r.open(target, useSnaps && t.Chance(2, 3), why)
}

func TestSim(t *testing.T) { core.Main(t, engine{}) }
