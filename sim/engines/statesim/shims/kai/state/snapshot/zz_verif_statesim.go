package snapshot

import "github.com/VictoriaMetrics/fastcache"

// VerifDiskCache re-exports the clean cache of the tree's disk layer. The
// statesim engine creates thousands of short-lived trees per process; the cache
// keeps its chunks off-heap until Reset is called, and nothing exported does that.
func (t *Tree) VerifDiskCache() *fastcache.Cache {
	t.lock.RLock()
	defer t.lock.RUnlock()
	if dl := t.disklayer(); dl != nil {
		return dl.cache
	}
	return nil
}
