package snapshot

import (
	"github.com/VictoriaMetrics/fastcache"
	"github.com/kardiachain/go-kardia/lib/common"
)

// VerifDiskCache re-exports the clean cache of the tree's disk layer. The
// statesim engine creates thousands of short-lived trees per process; the cache
// keeps its chunks off-heap until Reset is called, and nothing exported does that.
func (t *Tree) VerifDiskCache() *fastcache.Cache {
	t.lock.RLock()
	defer t.lock.RUnlock()
	if dl := t.disklayer(); dl != nil {
		return dl.cache
	}
	return nil
}

// VerifLinksToStale reports whether the layer registered for root, or a layer
// underneath it, has already been flattened away (unexported Stale/Parent). Cap
// asserts (panics) when asked to flatten such a dead fork a second time; the
// engine uses this accessor to stay inside that contract.
func (t *Tree) VerifLinksToStale(root common.Hash) bool {
	t.lock.RLock()
	defer t.lock.RUnlock()
	for l := t.layers[root]; l != nil; l = l.Parent() {
		if l.Stale() {
			return true
		}
	}
	return false
}
