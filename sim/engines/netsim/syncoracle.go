package netsim

import (
	"fmt"
	"time"

	bcr "github.com/kardiachain/go-kardia/blockchain"
	kproto "github.com/kardiachain/go-kardia/proto/kardiachain/types"
	"github.com/kardiachain/go-kardia/trie"
	"github.com/kardiachain/go-kardia/types"

	"verif/sim/kit"
)

// The sync oracle (C01, second clause): at the end of a run a fresh node catches
// up on the committed chain through the REAL block-sync processor state machine,
// fed by a lying peer that mixes genuine blocks with forgeries (a fork block
// vouched for only by the Byzantine validators, successors whose LastCommit is
// for another block, short of quorum, or relabelled from another height).
// It may only ever adopt blocks the correct validators committed, and genuine
// pairs must make it progress.

var syncForgeries = []string{"genuine", "fork-with-byzantine-commit", "fork-with-genuine-successor", "successor-commit-below-quorum", "successor-commit-other-height", "successor-commit-bad-signature"}

func (s *Sim) syncOracle() {
	live := s.liveNodes()
	if len(live) == 0 {
		return
	}
	x := live[0]
	for _, n := range live {
		if n.BOper.Height() > x.BOper.Height() {
			x = n
		}
	}
	H := x.BOper.Height()
	if H < 3 {
		return
	}
	f, err := s.newReplayer(300, "archive")
	if err != nil {
		return
	}
	defer s.stopNode(f)
	f.Exec.SetEventBus(f.Bus)
	proc := bcr.VerifNewProcessor(f.BOper, f.Exec, f.InitialS)
	peerGood, peerBad := kit.PeerID(900), kit.PeerID(901)
	attempts := 0
	queued := map[uint64]string{} // height -> peer that supplied the queued block (the scheduler requests each height once)
	for proc.Height()+2 <= H && attempts < int(H)*4 {
		attempts++
		h := proc.Height() + 1
		first, second := x.BOper.LoadBlock(h), x.BOper.LoadBlock(h+1)
		if first == nil || second == nil {
			return
		}
		kind := "genuine"
		if len(s.byz) > 0 || s.tape.Chance(1, 3) {
			kind = syncForgeries[s.tape.Draw(len(syncForgeries))]
		}
		e1, e2 := first, second
		forged := false
		switch kind {
		case "fork-with-byzantine-commit", "fork-with-genuine-successor":
			hdr := first.Header()
			hdr.GasLimit++
			fork := types.NewBlock(hdr, first.Transactions(), first.LastCommit(), first.Evidence().Evidence, trie.NewStackTrie(nil))
			e1, forged = fork, true
			if kind == "fork-with-byzantine-commit" {
				fid := types.BlockID{Hash: fork.Hash(), PartsHeader: fork.MakePartSet(types.BlockPartSizeBytes).Header()}
				vals := s.mon.c03.valsAt[h]
				if vals == nil {
					continue
				}
				sigs := make([]types.CommitSig, vals.Size())
				for i := range sigs {
					sigs[i] = types.NewCommitSigAbsent()
				}
				for _, b := range s.byz {
					if idx, _ := vals.GetByAddress(b.Addr); idx >= 0 {
						v := s.byzVote(b, vals, h, 1, kproto.PrecommitType, fid, time.Now())
						if v != nil {
							sigs[idx] = types.CommitSig{BlockIDFlag: types.BlockIDFlagCommit, ValidatorAddress: b.Addr, Timestamp: v.Timestamp, Signature: v.Signature}
						}
					}
				}
				c := types.NewCommit(h, 1, fid, sigs)
				e2 = types.NewBlock(second.Header(), second.Transactions(), c, second.Evidence().Evidence, trie.NewStackTrie(nil))
			}
		case "successor-commit-below-quorum", "successor-commit-other-height", "successor-commit-bad-signature":
			lc := second.LastCommit()
			c := *lc
			c.Signatures = append([]types.CommitSig(nil), lc.Signatures...)
			switch kind {
			case "successor-commit-below-quorum":
				vals := s.mon.c03.valsAt[h]
				if vals == nil || vals.Size() != len(c.Signatures) {
					continue
				}
				var tot, have int64
				for i, v := range vals.Validators {
					tot += v.VotingPower
					if c.Signatures[i].ForBlock() {
						have += v.VotingPower
					}
				}
				for i, v := range vals.Validators {
					if !quorumOK(have, tot) {
						break
					}
					if c.Signatures[i].ForBlock() {
						have -= v.VotingPower
						c.Signatures[i] = types.NewCommitSigAbsent()
					}
				}
			case "successor-commit-other-height":
				if h < 2 {
					continue
				}
				prev := first.LastCommit()
				c = *prev
			case "successor-commit-bad-signature":
				for i := range c.Signatures {
					if !c.Signatures[i].Absent() {
						sg := append([]byte(nil), c.Signatures[i].Signature...)
						sg[3] ^= 8
						c.Signatures[i].Signature = sg
						break
					}
				}
			}
			e2 = types.NewBlock(second.Header(), second.Transactions(), &c, second.Evidence().Evidence, trie.NewStackTrie(nil))
		}
		peer := peerGood
		if kind != "genuine" {
			peer = peerBad
			s.res.Fault("sync-forgery:" + kind)
			s.ah.Add("sync", kind)
		}
		if _, ok := queued[h]; ok {
			// the block for h is already queued (it was the successor of the last adopted block):
			// only the successor can still be chosen
			if forged {
				continue
			}
		} else {
			if err := proc.Enqueue(peer, e1); err != nil {
				s.res.Violate("C18", "sync-processor-panic", "the block-sync processor panicked on a peer's block: "+sanitizeSig(firstLine(err.Error())), err.Error())
				return
			}
			queued[h] = string(peer)
		}
		if err := proc.Enqueue(peer, e2); err != nil {
			s.res.Violate("C18", "sync-processor-panic", "the block-sync processor panicked on a peer's block: "+sanitizeSig(firstLine(err.Error())), err.Error())
			return
		}
		queued[h+1] = string(peer)
		before := proc.Height()
		res, ph, perr := proc.Process()
		s.trace("SYNC h%d offered %s -> %s", h, kind, res)
		if perr != nil {
			if forged || kind != "genuine" {
				s.res.Probe("c01-sync-forgery-made-processor-fail")
			}
			s.res.Violate("C01", "sync-processor-failure", "the block-sync processor failed while handling "+kind+" blocks: "+sanitizeSig(firstLine(perr.Error())),
				fmt.Sprintf("height %d: %v", h, perr))
			return
		}
		if res == "processed" {
			delete(queued, ph)
		} else if res == "verification-failure" {
			// the processor purges everything the two offending peers supplied
			p1, p2 := queued[h], queued[h+1]
			for hh, pp := range queued {
				if pp == p1 || pp == p2 {
					delete(queued, hh)
				}
			}
		}
		if res == "processed" {
			got := f.BOper.LoadBlock(ph)
			want := x.BOper.LoadBlock(ph)
			if got == nil || want == nil || got.Hash() != want.Hash() {
				s.res.Violate("C01", "sync-adopted-foreign-block", "a node catching up by block sync adopted a block the correct validators did not commit: offered "+kind,
					fmt.Sprintf("height %d: adopted %s, committed %s", ph, short(got.Hash()), short(want.Hash())))
				return
			}
			if kind != "genuine" && kind != "successor-commit-other-height" {
				// the first block was genuine but its justification was not: it must not have been applied on that basis
				s.res.Violate("C01", "sync-accepted-bad-justification", "block sync applied a block on the strength of a commit that does not justify it: "+kind,
					fmt.Sprintf("height %d", ph))
				return
			}
			s.res.Probe("c01-sync-block-adopted")
		} else if kind == "genuine" && proc.Height() == before {
			s.res.Violate("C01", "sync-refuses-genuine-blocks", "block sync does not adopt a genuine block with a genuine successor", fmt.Sprintf("height %d: %s", h, res))
			return
		} else if kind != "genuine" {
			s.res.Probe("c01-sync-forgery-refused")
		}
	}
}
