package netsim

import (
	"fmt"

	"github.com/gogo/protobuf/proto"
	"github.com/kardiachain/go-kardia/consensus"
	"github.com/kardiachain/go-kardia/lib/crypto"
	kcons "github.com/kardiachain/go-kardia/proto/kardiachain/consensus"
)

// describeWire gives a deterministic short description of reactor-originated
// bytes for the trace (decoded with the product's own decoder where possible).
func describeWire(ch byte, b []byte) string {
	if ch >= 0x20 && ch <= 0x23 {
		var pb kcons.Message
		if err := proto.Unmarshal(b, &pb); err == nil {
			if m, err := consensus.MsgFromProto(&pb); err == nil {
				switch mm := m.(type) {
				case *consensus.NewRoundStepMessage:
					return fmt.Sprintf("NewRoundStep h%d r%d s%d", mm.Height, mm.Round, mm.Step)
				case *consensus.HasVoteMessage:
					return fmt.Sprintf("HasVote h%d r%d t%d i%d", mm.Height, mm.Round, mm.Type, mm.Index)
				case *consensus.NewValidBlockMessage:
					return fmt.Sprintf("NewValidBlock h%d r%d commit=%v", mm.Height, mm.Round, mm.IsCommit)
				case *consensus.VoteSetBitsMessage:
					return fmt.Sprintf("VoteSetBits h%d r%d t%d", mm.Height, mm.Round, mm.Type)
				case *consensus.VoteSetMaj23Message:
					return fmt.Sprintf("VoteSetMaj23 h%d r%d t%d", mm.Height, mm.Round, mm.Type)
				default:
					return fmt.Sprintf("%T", m)
				}
			}
		}
	}
	return fmt.Sprintf("ch%02x len%d %x", ch, len(b), crypto.Keccak256(b)[:4])
}
