// Engine netsim: a network of real go-kardia nodes (consensus state machine,
// WAL, block executor, KVM/staking, stores, inbound reactors) inside one
// synctest bubble. The simulator owns the network, the disks, the signers and
// the outbound gossip; every decision comes from the tape.
package netsim

import (
	"container/heap"
	"fmt"
	"os"
	"path/filepath"
	"runtime/debug"
	"sort"
	"strings"
	"sync"
	"syscall"
	"testing"
	"testing/synctest"
	"time"

	"verif/sim/core"
	"verif/sim/kit"

	"github.com/kardiachain/go-kardia/configs"
	cstypes "github.com/kardiachain/go-kardia/consensus/types"
	"github.com/kardiachain/go-kardia/lib/common"
	"github.com/kardiachain/go-kardia/mainchain/blockchain"
	"github.com/kardiachain/go-kardia/mainchain/genesis"
	"github.com/kardiachain/go-kardia/mainchain/tx_pool"
	"github.com/kardiachain/go-kardia/types"
)

// Msg is one message in flight: real wire bytes for a real Reactor.Receive.
type Msg struct {
	Src, Dst int
	Ch       byte
	Bytes    []byte
	At       time.Duration
	Seq      uint64
	Desc     string // for the trace (kind + salient fields), deterministic
	Key      string // gossip de-duplication key ("" for reactor-originated sends)
	Byz      bool
	Meta     msgMeta // structured description (consensus gossip and Byzantine senders)
	NoFilter bool    // not subject to the director (a Byzantine sender's own timing)
	Front    bool    // delivered before everything else deliverable at the same instant, no network fault
}

type msgHeap []*Msg

func (h msgHeap) Len() int { return len(h) }
func (h msgHeap) Less(i, j int) bool {
	if h[i].At != h[j].At {
		return h[i].At < h[j].At
	}
	if h[i].Front != h[j].Front {
		return h[i].Front
	}
	return h[i].Seq < h[j].Seq
}
func (h msgHeap) Swap(i, j int)       { h[i], h[j] = h[j], h[i] }
func (h *msgHeap) Push(x interface{}) { *h = append(*h, x.(*Msg)) }
func (h *msgHeap) pushMsg(m *Msg) { heap.Push(h, m) }
func (h *msgHeap) Pop() interface{} {
	old := *h
	n := len(old)
	x := old[n-1]
	*h = old[:n-1]
	return x
}

// RunCfg is the swarm configuration drawn at the start of a run.
type RunCfg struct {
	NVal       int     `json:"validators"`
	NByz       int     `json:"byzantine"`
	NFull      int     `json:"full_nodes"`
	Stakes     []int64 `json:"stake_kai"`
	ByzIdx     []int   `json:"byzantine_idx"`
	Heights    int     `json:"target_heights"`
	DropPct    int     `json:"drop_pct"`
	DupPct     int     `json:"dup_pct"`
	DelayPct   int     `json:"delay_pct"`
	LongPct    int     `json:"long_delay_pct"`
	CorruptPct int     `json:"corrupt_pct"`
	Partition  bool    `json:"partitions"`
	Restarts   bool    `json:"restarts"`
	Txs        bool    `json:"txs"`
	Staking    bool    `json:"staking_txs"`
	Galaxias   bool    `json:"galaxias"`
	EmptyIntv  int     `json:"create_empty_blocks_interval_ms"`
	SkipCommit bool    `json:"skip_timeout_commit"`
	TimeoutMs  int     `json:"timeout_base_ms"`
	WAL        bool    `json:"real_wal"`
	ByzStrat   []string `json:"byzantine_strategies"`
	Garbage    bool    `json:"garbage_sender"`
	LateJoin   bool    `json:"late_joiner"`
	CacheKinds []string `json:"cache_configs"`
	SyncSuffix bool    `json:"synchronous_suffix"`
	Forger     bool    `json:"forger"`
	Relabel    bool    `json:"part_relabeller"`
	NoisePct   int     `json:"noise_pct"`
	TxPct      int     `json:"tx_pct"`
	Filters    bool    `json:"message_class_filters"`
	EvForger   bool    `json:"evidence_forger"`
	Director   bool    `json:"round_director"`
	IDTwins    bool    `json:"byzantine_vote_for_block_id_twins"`
	InvalidHeavy bool  `json:"every_second_byzantine_proposal_invalid"`
	WalHeadLimit int   `json:"wal_head_size_limit"` // crash mode: 0 = the product's default (10 MB, never reached)
}

// Sim is one run.
type Sim struct {
	t    *testing.T
	tape *core.Tape
	res  *core.RunResult
	opt  core.Options
	cfg  RunCfg

	start   time.Time
	spec    kit.Spec
	gen     *genesis.Genesis
	reg     *kit.Registry
	nodes   []*kit.Node // index = node id (validators first, then full nodes); nil while crashed
	disks   []*kit.Disk
	walDirs []string
	epochs  []int
	valKeys []int // node id -> validator index in spec (or -1)
	isByz   []bool

	mu      sync.Mutex
	outbox  []*Msg
	q       msgHeap
	seq     uint64
	until   map[string]time.Duration // gossip key -> not before
	retries map[string]int
	cut     map[[2]int]bool // directed link cut
	phase   int             // 1 adversarial, 2 synchronous suffix

	h   *core.Hasher
	ah  *core.Hasher
	mon *monitors

	byz        []*Byz
	blocks     map[string]*knownBlock
	blocksByH  map[uint64][]*knownBlock
	forged     map[string]string
	bogusParts map[int]int
	learnedSaved map[int]int
	filters    []*classFilter
	dir        *director
	baitSilent map[uint64]uint32 // height -> last round in which lock-bait validators still vote (late-polka plan)
	afterQ     func() // crash engine: poll for WAL rotation at quiescent points
	holdDst    int           // crash engine: node that gets no proposal / parts until holdUntil (-1 = none)
	holdUntil  time.Duration
	dirNextH   uint64
	healAt     time.Duration
	cleanStop  bool
	userNonce      map[int]uint64
	txSubmitted    int
	txUser         int
	contracts      []common.Address
	pendingCreates [][2]interface{}
	forceCreate    string // workload: program of the contract creation that must come next
	followUps      []common.Address // workload: addresses worth sending money to again later
	violBase   int

	steps     int
	maxSteps  int
	wallStart time.Duration
	maxWall   time.Duration
	scratch  string
	stopped  bool
	faultsOn bool
}

var debugTape = os.Getenv("VERIF_DEBUG_TAPE") != ""

func (s *Sim) now() time.Duration { return time.Since(s.start) }

// failedNow: a violation was recorded since the current base (known findings
// recorded earlier in a crash-point enumeration do not stop later points).
// A violation of ANOTHER property than the one being checked does not end the run (it is reported
// as a note): the run goes on so that the checked property's own oracles get their chance - a broken
// locking rule is a C03 violation first and only later, perhaps, a C01 one. A handful of foreign
// violations is enough, though.
func (s *Sim) failedNow() bool {
	own, foreign := 0, 0
	for _, v := range s.res.Violations[s.violBase:] {
		if v.Property == s.opt.Property || s.opt.Property == "" || s.opt.Mode == "crash" {
			own++
		} else {
			foreign++
		}
	}
	return own > 0 || foreign >= 6
}

// wallNow reads the real clock (time.Now is the fake clock inside the bubble).
// It is used only for the per-run watchdog, never for a decision that affects
// the simulated execution other than giving up.
func wallNow() time.Duration {
	var tv syscall.Timeval
	_ = syscall.Gettimeofday(&tv)
	return time.Duration(tv.Sec)*time.Second + time.Duration(tv.Usec)*time.Microsecond
}

func (s *Sim) trace(f string, a ...interface{}) {
	line := fmt.Sprintf("%8.3fs ", s.now().Seconds()) + fmt.Sprintf(f, a...)
	s.res.Tracef("%s", line)
	s.h.Add(line)
	if s.opt.Verbose {
		fmt.Println(line)
	}
}

// out is SimPeer's hook: real reactor code sends through it (Broadcast
// goroutines, TrySend). It only appends to the outbox.
func (s *Sim) out(owner, remote int, ch byte, b []byte) bool {
	s.mu.Lock()
	defer s.mu.Unlock()
	if s.stopped {
		return false
	}
	s.outbox = append(s.outbox, &Msg{Src: owner, Dst: remote, Ch: ch, Bytes: b})
	return true
}

func consensusCfg(base int, emptyIntv int, skip bool) *configs.ConsensusConfig {
	ms := func(x int) time.Duration { return time.Duration(x) * time.Millisecond }
	return &configs.ConsensusConfig{
		TimeoutPropose:              ms(3 * base),
		TimeoutProposeDelta:         ms(base / 2),
		TimeoutPrevote:              ms(base),
		TimeoutPrevoteDelta:         ms(base / 2),
		TimeoutPrecommit:            ms(base),
		TimeoutPrecommitDelta:       ms(base / 2),
		TimeoutCommit:               ms(base),
		IsSkipTimeoutCommit:         skip,
		IsCreateEmptyBlocks:         true,
		CreateEmptyBlocksInterval:   ms(emptyIntv),
		PeerGossipSleepDuration:     ms(100),
		PeerQueryMaj23SleepDuration: ms(2000),
	}
}

func cacheCfg(kind string) *blockchain.CacheConfig {
	c := &blockchain.CacheConfig{TrieCleanLimit: 16, TrieDirtyLimit: 16, TrieTimeLimit: 5 * time.Minute, SnapshotLimit: 0, SnapshotWait: true}
	switch kind {
	case "archive":
		c.TrieDirtyDisabled = true
	case "archive-snap":
		c.TrieDirtyDisabled = true
		c.SnapshotLimit = 16
	case "snap":
		c.SnapshotLimit = 16
	case "tiny-cache":
		c.TrieCleanLimit = 0
		c.TrieDirtyLimit = 1
	case "preimages":
		c.Preimages = true
		c.TrieDirtyDisabled = true
	}
	return c
}

func (s *Sim) nodeCfg(id int) kit.NodeCfg {
	cfg := kit.NodeCfg{
		ID: id, Genesis: s.gen, Cache: cacheCfg(s.cfg.CacheKinds[id]),
		Cons: consensusCfg(s.cfg.TimeoutMs, s.cfg.EmptyIntv, s.cfg.SkipCommit), Disk: s.disks[id], Registry: s.reg,
		Epoch: s.epochs[id], Out: s.out,
		TxPool: tx_pool.TxPoolConfig{Broadcast: true, MaxTxsBatchSize: tx_pool.DefaultTxPoolConfig.MaxTxsBatchSize, GlobalSlots: 64, GlobalQueue: 256, AccountSlots: 16, AccountQueue: 64, Lifetime: time.Hour, Rejournal: time.Hour},
	}
	if vi := s.valKeys[id]; vi >= 0 {
		cfg.Key = s.spec.ValKeys[vi]
	}
	if s.cfg.WAL {
		cfg.WalDir = s.walDirs[id]
	}
	return cfg
}

// startNode builds and starts node id from its current disk image.
func (s *Sim) startNode(id int) error {
	n, err := kit.NewNode(s.nodeCfg(id))
	if err != nil {
		return err
	}
	if !s.cfg.WAL {
		n.CS.VerifSetWAL(nopWAL{})
		n.CS.VerifSetDoWALCatchup(false)
	}
	s.nodes[id] = n
	if err := n.TxR.Start(); err != nil {
		return err
	}
	if err := n.EvR.Start(); err != nil {
		return err
	}
	for j := range s.nodes {
		if j != id {
			n.Connect(j)
		}
	}
	if err := n.Mgr.Start(); err != nil {
		return fmt.Errorf("consensus manager start: %w", err)
	}
	return nil
}

func (s *Sim) correct(id int) bool { return id < len(s.isByz) && !s.isByz[id] }

// liveNodes returns running correct nodes (validators and full nodes) in id order.
func (s *Sim) liveNodes() []*kit.Node {
	var out []*kit.Node
	for id, n := range s.nodes {
		if n != nil && !n.Stopped && !s.isByz[id] {
			out = append(out, n)
		}
	}
	return out
}

// schedule puts a message on the wire with tape-chosen faults.
func (s *Sim) schedule(m *Msg) {
	calm := s.calm(m)
	if !calm && s.cut[[2]int{m.Src, m.Dst}] {
		s.res.Fault("partition-drop")
		if m.Key != "" {
			s.backoff(m.Key, true)
		}
		return
	}
	if s.directed(m) {
		s.directorHold(m)
		return
	}
	if s.holdDst >= 0 && m.Dst == s.holdDst && (m.Meta.T == 3 || m.Meta.T == 4) && s.now() < s.holdUntil {
		// crash engine: the restarted node does not get the round's proposal again for a while
		s.res.Fault("proposal-withheld-from-restarted-node")
		if m.Key != "" {
			s.until[m.Key] = s.now() + 40*time.Millisecond
		}
		return
	}
	if m.Front {
		m.At = s.now()
		s.seq++
		m.Seq = s.seq
		heap.Push(&s.q, m)
		return
	}
	if !calm && s.filtered(m) {
		s.res.Fault("class-filter-drop")
		if m.Key != "" {
			s.backoff(m.Key, true)
		}
		return
	}
	delay := time.Duration(0)
	if s.faultsOn && !calm {
		c := s.cfg
		if c.DropPct > 0 && s.tape.Chance(c.DropPct, 100) {
			s.res.Fault("drop")
			s.ah.Add("drop")
			if m.Key != "" {
				s.backoff(m.Key, true)
			}
			return
		}
		if c.DelayPct > 0 && s.tape.Chance(c.DelayPct, 100) {
			delay = time.Duration(1+s.tape.Draw(s.cfg.TimeoutMs)) * time.Millisecond
			s.res.Fault("delay")
		}
		if c.LongPct > 0 && s.tape.Chance(c.LongPct, 100) {
			delay = time.Duration(s.cfg.TimeoutMs*(1+s.tape.Draw(8))) * time.Millisecond
			s.res.Fault("long-delay")
			s.ah.Add("long")
		}
		if c.CorruptPct > 0 && s.tape.Chance(c.CorruptPct, 100) && len(m.Bytes) > 0 {
			b := append([]byte(nil), m.Bytes...)
			switch s.tape.Draw(3) {
			case 0:
				i := s.tape.Draw(len(b))
				b[i] ^= 1 << uint(s.tape.Draw(8))
			case 1:
				b = b[:s.tape.Draw(len(b))]
			default:
				b = append(b, s.tape.Bytes(1+s.tape.Draw(8))...)
			}
			m.Bytes = b
			m.Desc += "+corrupt"
			s.res.Fault("corrupt")
			s.ah.Add("corrupt")
		}
		if c.DupPct > 0 && s.tape.Chance(c.DupPct, 100) {
			d := *m
			d.At = s.now() + delay + time.Duration(1+s.tape.Draw(2*s.cfg.TimeoutMs))*time.Millisecond
			s.seq++
			d.Seq = s.seq
			d.Key = ""
			heap.Push(&s.q, &d)
			s.res.Fault("duplicate")
			s.ah.Add("dup")
		}
	}
	m.At = s.now() + delay
	s.seq++
	m.Seq = s.seq
	heap.Push(&s.q, m)
	if m.Key != "" {
		s.until[m.Key] = m.At + time.Hour // in flight: cleared on delivery
	}
}

func (s *Sim) backoff(key string, lost bool) {
	r := s.retries[key]
	s.retries[key] = r + 1
	d := 100 * time.Millisecond
	if !lost {
		d = 300 * time.Millisecond
	}
	for i := 0; i < r && d < 5*time.Second; i++ {
		d *= 2
	}
	if s.phase == 2 {
		d = 20 * time.Millisecond
	}
	s.until[key] = s.now() + d
}

// flushOutbox moves reactor-originated sends into the network in canonical order.
func (s *Sim) flushOutbox() {
	s.mu.Lock()
	ob := s.outbox
	s.outbox = nil
	s.mu.Unlock()
	if len(ob) == 0 {
		return
	}
	sort.SliceStable(ob, func(i, j int) bool {
		a, b := ob[i], ob[j]
		if a.Src != b.Src {
			return a.Src < b.Src
		}
		if a.Dst != b.Dst {
			return a.Dst < b.Dst
		}
		if a.Ch != b.Ch {
			return a.Ch < b.Ch
		}
		return string(a.Bytes) < string(b.Bytes)
	})
	for _, m := range ob {
		m.Desc = describeWire(m.Ch, m.Bytes)
		s.schedule(m)
	}
}

// deliver hands one message to the destination's real reactor.
func (s *Sim) deliver(m *Msg) {
	if m.Key != "" {
		s.backoff(m.Key, false)
	}
	if m.Dst >= len(s.nodes) || s.nodes[m.Dst] == nil || s.nodes[m.Dst].Stopped {
		return
	}
	n := s.nodes[m.Dst]
	p := n.Peers[m.Src]
	if p == nil || !p.IsRunning() {
		// the destination dropped this peer earlier; reconnect lazily (new PeerState)
		p = n.Connect(m.Src)
		s.res.Probe("peer-reconnected")
	}
	s.trace("deliver %d->%d %s", m.Src, m.Dst, m.Desc)
	s.mon.noteDelivery(n, m)
	if m.Ch == 0x38 {
		s.mon.noteEvidenceDelivery(n, m)
	}
	func() {
		defer func() {
			if r := recover(); r != nil {
				s.mon.receivePanic(n, m, r, string(debug.Stack()))
			}
		}()
		switch {
		case m.Ch >= 0x20 && m.Ch <= 0x23:
			n.Mgr.Receive(m.Ch, p, m.Bytes)
		case m.Ch == 0x38:
			n.EvR.Receive(m.Ch, p, m.Bytes)
		case m.Ch == 0x30:
			n.TxR.Receive(m.Ch, p, m.Bytes)
		case m.Ch == 0x40:
			n.BcR.Receive(m.Ch, p, m.Bytes)
		default:
			n.Mgr.Receive(m.Ch, p, m.Bytes)
		}
	}()
}

// RoundStateOf reads a node's round state at quiescence.
func rsOf(n *kit.Node) *cstypes.RoundState { return n.CS.GetRoundState() }

func (s *Sim) heightOf(n *kit.Node) uint64 { return rsOf(n).Height }

func (s *Sim) buildGenesis() {
	c := s.cfg
	s.spec = kit.Spec{ChainID: "verif-chain", Time: s.start, NetworkID: 2424, Galaxias: c.Galaxias}
	for i := 0; i < c.NVal; i++ {
		s.spec.ValKeys = append(s.spec.ValKeys, kit.Key(fmt.Sprintf("val-%d", i)))
	}
	s.spec.StakeKAI = c.Stakes
	for i := 0; i < 4; i++ {
		s.spec.UserKeys = append(s.spec.UserKeys, kit.Key(fmt.Sprintf("user-%d", i)))
	}
	s.gen = kit.BuildGenesis(s.spec)
}

// loop is the simulator's main loop. It returns when the goal is reached, the
// step/time caps hit, or an own-property violation was recorded.
func (s *Sim) loop(goal func() bool, maxSim time.Duration) {
	tick := 20 * time.Millisecond
	deadline := s.now() + maxSim
	for s.steps < s.maxSteps {
		if s.steps%256 == 0 && wallNow()-s.wallStart > s.maxWall {
			s.res.Inconclusive = true
			s.res.Probe("wall-cap-hit")
			return
		}
		synctest.Wait()
		if s.afterQ != nil {
			s.afterQ()
		}
		if debugTape {
			st := ""
			for _, n := range s.liveNodes() {
				rs := rsOf(n)
				st += fmt.Sprintf(" n%d:h%d/r%d/s%d/p%v/pend%d", n.ID, rs.Height, rs.Round, rs.Step, rs.Proposal != nil, n.TxPool.PendingSize())
			}
			for _, m := range s.q {
				st += fmt.Sprintf(" [%d>%d %s @%.3f]", m.Src, m.Dst, m.Desc, m.At.Seconds())
			}
			fmt.Printf("      Q tape=%d step=%d q=%d%s\n", s.tape.Used(), s.steps, len(s.q), st)
		}
		s.flushOutbox()
		s.mon.afterQuiescence()
		if s.failedNow() {
			return
		}
		if goal() {
			return
		}
		if s.now() > deadline {
			return
		}
		s.maybePartition()
		s.maybeFilter()
		s.directorStep()
		s.learnAll()
		s.workloadStep()
		s.gossip()
		s.adversaryStep()
		now := s.now()
		if len(s.q) > 0 && s.q[0].At <= now {
			m := heap.Pop(&s.q).(*Msg)
			// tape-chosen reordering among messages deliverable at this instant
			if s.faultsOn && len(s.q) > 0 && s.q[0].At <= now && s.tape.Chance(1, 4) {
				var ready []*Msg
				for len(s.q) > 0 && s.q[0].At <= now && len(ready) < 8 {
					ready = append(ready, heap.Pop(&s.q).(*Msg))
				}
				k := s.tape.Draw(len(ready) + 1)
				if k > 0 {
					m, ready[k-1] = ready[k-1], m
					s.res.Fault("reorder")
				}
				for _, r := range ready {
					heap.Push(&s.q, r)
				}
			}
			s.steps++
			s.deliver(m)
			continue
		}
		// nothing deliverable now: let simulated time pass (product timers fire here)
		d := tick
		if len(s.q) > 0 && s.q[0].At-now < d {
			d = s.q[0].At - now
		}
		if d <= 0 {
			d = time.Millisecond
		}
		s.steps++
		time.Sleep(d)
	}
	s.res.Inconclusive = true
}

func (s *Sim) stopAll() {
	s.mu.Lock()
	s.stopped = true
	s.mu.Unlock()
	for _, n := range s.nodes {
		if n == nil {
			continue
		}
		s.stopNode(n)
	}
}

func (s *Sim) stopNode(n *kit.Node) {
	if n.Stopped {
		return
	}
	n.Stopped = true
	func() {
		defer func() { recover() }()
		_ = n.EvR.Stop()
		_ = n.TxR.Stop()
		_ = n.Mgr.Stop()
		_ = n.Bus.Stop()
		n.TxPool.Stop()
		if s.cleanStop {
			// what backend.Stop does for an orderly shutdown: flush recent state
			n.Exec.Stop()
			n.BC.Stop()
		}
	}()
	closeWAL(n)
	func() {
		defer func() { recover() }()
		n.BC.VerifReleaseCaches()
	}()
}

func (s *Sim) mkScratch() {
	s.scratch = filepath.Join(s.opt.Scratch, fmt.Sprintf("run-%d", s.opt.RunIndex))
	os.RemoveAll(s.scratch)
	os.MkdirAll(s.scratch, 0o755)
}

func short(h common.Hash) string { return h.Hex()[2:10] }

func voteKey(v *types.Vote) string {
	return fmt.Sprintf("v/%d/%d/%d/%d/%s", v.Height, v.Round, v.Type, v.ValidatorIndex, short(v.BlockID.Hash))
}

func joinInts(a []int) string {
	var p []string
	for _, x := range a {
		p = append(p, fmt.Sprint(x))
	}
	return strings.Join(p, ",")
}
