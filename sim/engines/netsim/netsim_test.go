package netsim

import (
	"fmt"
	"os"
	"os/signal"
	"path/filepath"
	"runtime/pprof"
	"sort"
	"strings"
	"syscall"
	"testing"
	"testing/synctest"
	"time"

	"verif/sim/core"
	"verif/sim/kit"

	"github.com/kardiachain/go-kardia/lib/log"
)

type engine struct{}

func (engine) Name() string { return "netsim" }

func TestMain(m *testing.M) {
	// lib/autofile calls signal.Notify inside the bubble; the first registration
	// must happen outside any bubble.
	signal.Notify(make(chan os.Signal, 1), syscall.SIGHUP)
	// cmn.Kill() sends SIGTERM to the process: trap it so a fail-stop of one
	// simulated node does not end the worker; monitors look at killCount.
	ch := make(chan os.Signal, 8)
	signal.Notify(ch, syscall.SIGTERM)
	go func() {
		for range ch {
			kit.KillCount.Add(1)
		}
	}()
	// does backend.go finish an interrupted commit at start-up? (kit.NewNode mirrors backend.go)
	if src, err := os.ReadFile(filepath.Join(repoRoot(), "mainchain", "backend.go")); err == nil {
		kit.FinishInterruptedCommit = strings.Contains(string(src), "blockExec.ApplyBlock(state, meta.BlockID, block)")
	}
	os.Exit(m.Run())
}

func repoRoot() string {
	if r := os.Getenv("VERIF_REPO"); r != "" {
		return r
	}
	return "/repo"
}

func drawCfg(t *core.Tape, opt core.Options) RunCfg {
	c := RunCfg{}
	c.NVal = []int{4, 4, 1, 2, 3, 5, 6, 7}[t.Weighted(6, 4, 1, 1, 2, 2, 1, 1)]
	if v := opt.Int("nval", 0); v > 0 {
		c.NVal = v
	}
	for i := 0; i < c.NVal; i++ {
		st := int64(12_500_000)
		switch t.Weighted(4, 2, 1) {
		case 1:
			st += int64(t.Draw(8)) * 2_500_000
		case 2:
			st += int64(t.Draw(30)) * 12_500_000
		}
		c.Stakes = append(c.Stakes, st)
	}
	c.Heights = 3 + t.Draw(opt.Int("maxheights", 6))
	c.TimeoutMs = []int{200, 100, 500, 1000}[t.Weighted(4, 2, 2, 1)]
	c.EmptyIntv = []int{0, 300, 1500}[t.Weighted(4, 2, 1)]
	c.SkipCommit = t.Chance(1, 4)
	if c.NVal == 1 {
		// a lone validator with skip_timeout_commit and no empty-block interval commits
		// in zero simulated time forever (legitimate product behaviour, but the fake
		// clock then never advances and the simulator never regains control)
		c.SkipCommit = false
	}
	c.WAL = t.Chance(1, 3)
	c.Galaxias = t.Chance(1, 4)
	kinds := []string{"default", "archive", "snap", "archive-snap", "tiny-cache", "preimages"}
	for i := 0; i < c.NVal+2; i++ {
		c.CacheKinds = append(c.CacheKinds, kinds[t.Draw(len(kinds))])
	}
	if opt.Int("faults", 1) > 0 {
		if t.Chance(2, 3) {
			c.DropPct = []int{0, 2, 5, 10, 25}[t.Draw(5)]
		}
		if t.Chance(1, 2) {
			c.DupPct = []int{0, 2, 10}[t.Draw(3)]
		}
		if t.Chance(2, 3) {
			c.DelayPct = []int{0, 10, 30, 60}[t.Draw(4)]
		}
		if t.Chance(1, 2) {
			c.LongPct = []int{0, 1, 3, 8}[t.Draw(4)]
		}
		if t.Chance(1, 4) {
			c.CorruptPct = []int{0, 1, 3}[t.Draw(3)]
		}
		c.Partition = t.Chance(1, 3)
	}
	c.SyncSuffix = true
	// Byzantine validators: any subset with strictly less than 1/3 of the power
	if opt.Int("byz", 1) > 0 && c.NVal >= 4 && t.Chance(2, 3) {
		var tot, have int64
		for _, x := range c.Stakes {
			tot += x
		}
		order := t.Perm(c.NVal)
		for _, i := range order {
			if (have+c.Stakes[i])*3 < tot && t.Chance(2, 3) {
				have += c.Stakes[i]
				c.ByzIdx = append(c.ByzIdx, i)
				c.ByzStrat = append(c.ByzStrat, byzStrategies[t.Draw(len(byzStrategies))])
			}
		}
		sort.Sort(byIdx{c.ByzIdx, c.ByzStrat})
		c.NByz = len(c.ByzIdx)
	}
	if opt.Int("noise", 1) > 0 {
		c.Forger = t.Chance(1, 3)
		c.Relabel = t.Chance(1, 4)
		c.Garbage = t.Chance(1, 4)
		c.NoisePct = []int{2, 5, 15}[t.Draw(3)]
		c.EvForger = t.Chance(1, 4)
	}
	c.Filters = opt.Int("faults", 1) > 0 && t.Chance(1, 2)
	c.Txs = t.Chance(1, 2)
	c.TxPct = []int{3, 10, 30}[t.Draw(3)]
	c.Director = opt.Int("faults", 1) > 0 && c.NVal >= 3 && t.Chance(1, 3)
	c.IDTwins = t.Chance(1, 3)
	emphDirector := t.Chance(2, 3)
	emphStrat := t.Draw(3)
	if opt.Mode == "crash" {
		c.Director = false
		c.NVal = []int{1, 4, 4, 2}[t.Draw(4)]
		c.Stakes = c.Stakes[:0]
		for i := 0; i < c.NVal; i++ {
			c.Stakes = append(c.Stakes, 12_500_000)
		}
		c.Heights = 3 + t.Draw(2)
		c.CacheKinds = c.CacheKinds[:0]
		for i := 0; i < c.NVal; i++ {
			c.CacheKinds = append(c.CacheKinds, []string{"archive", "default", "archive-snap", "snap", "preimages", "tiny-cache"}[t.Weighted(4, 3, 1, 1, 1, 1)])
		}
		c.WAL = true
		c.ByzIdx, c.ByzStrat, c.NByz = nil, nil, 0
		c.Forger, c.Relabel, c.Garbage, c.EvForger, c.Filters, c.Partition = false, false, false, false, false, false
		c.DropPct, c.DupPct, c.DelayPct, c.LongPct, c.CorruptPct = 0, 0, 0, 0, 0
		if c.NVal == 1 {
			c.SkipCommit = false
		}
		c.TimeoutMs = []int{200, 100}[t.Draw(2)]
		c.Galaxias = false
		c.WalHeadLimit = []int{0, 1500, 4000, 12000}[t.Weighted(2, 2, 2, 1)]
	}
	// per-property emphasis (after all draws, so the tape layout is the same for every property)
	switch opt.Property {
	case "C18":
		c.Garbage = true
		if c.NoisePct < 15 {
			c.NoisePct = 15
		}
	case "C11":
		c.Forger = true
		if c.NoisePct < 15 {
			c.NoisePct = 15
		}
	case "C13":
		c.Relabel = true
		if c.NoisePct < 15 {
			c.NoisePct = 15
		}
	case "C06", "C09":
		c.Txs = true
		if c.TxPct < 10 {
			c.TxPct = 10
		}
		if len(c.ByzStrat) > 0 {
			c.ByzStrat[0] = "tx-mixer"
		}
	case "C19":
		c.EvForger = true
		c.IDTwins = c.IDTwins || len(c.Stakes)%2 == 0
		if c.NoisePct < 15 {
			c.NoisePct = 15
		}
		// make sure somebody equivocates
		if len(c.ByzStrat) > 0 {
			c.ByzStrat[0] = "equivocate"
		}
	case "C01", "C03", "C04":
		c.InvalidHeavy = opt.Property == "C03" && emphStrat == 0
		if c.NVal >= 4 && opt.Int("faults", 1) > 0 {
			if opt.Property != "C04" {
				c.Filters = true
			}
			if emphDirector {
				c.Director = true
			}
			if len(c.ByzIdx) == 0 && emphDirector && emphStrat > 0 && opt.Int("byz", 1) > 0 {
				// the structured plans of the director need a helping Byzantine validator: the one with the
				// smallest stake turns Byzantine (if that is less than a third)
				var tot int64
				mi := 0
				for i, x := range c.Stakes {
					tot += x
					if x < c.Stakes[mi] {
						mi = i
					}
				}
				if c.Stakes[mi]*3 < tot {
					c.ByzIdx, c.ByzStrat, c.NByz = []int{mi}, []string{"echo"}, 1
				}
			}
			if len(c.ByzStrat) > 0 && emphStrat > 0 {
				c.ByzStrat[0] = []string{"", "lock-bait", "late-proposer"}[emphStrat]
			}
		}
	}
	return c
}

func (engine) Run(t *testing.T, tape *core.Tape, opt core.Options) (res *core.RunResult) {
	res = core.NewResult()
	s := &Sim{t: t, tape: tape, res: res, opt: opt, h: core.NewHasher(), ah: core.NewHasher(),
		until: map[string]time.Duration{}, retries: map[string]int{}, cut: map[[2]int]bool{},
		blocks: map[string]*knownBlock{}, blocksByH: map[uint64][]*knownBlock{}, forged: map[string]string{}, bogusParts: map[int]int{}, learnedSaved: map[int]int{}, userNonce: map[int]uint64{}}
	s.cfg = drawCfg(tape, opt)
	s.holdDst = -1
	s.txUser = tape.Draw(4)
	if opt.Verbose && os.Getenv("VERIF_LOGS") != "" {
		kit.LogSink = func(lvl log.Lvl, msg string, ctx []interface{}) {
			fmt.Printf("      LOG[%v] %s %v\n", lvl, msg, ctx)
		}
	}
	s.maxSteps = opt.Int("maxsteps", 60000)
	s.wallStart = wallNow()
	s.maxWall = time.Duration(opt.Int("maxwall", 180)) * time.Second
	s.mkScratch()
	defer os.RemoveAll(s.scratch)
	defer func() {
		res.TraceHash = s.h.Sum()
		res.AbstractHash = s.ah.Sum()
		res.Sample = map[string]interface{}{"config": s.cfg, "first_events": head(res.TraceTail, 40)}
	}()
	// hard watchdog from outside the bubble (real clock): a run in which simulated
	// time cannot advance (a node spinning at one instant) never returns control
	// to the simulator; give up on the whole worker with a diagnostic (infrastructure,
	// exit 2 in the driver) instead of hanging until the global timeout.
	done := make(chan struct{})
	defer close(done)
	go func() {
		select {
		case <-done:
		case <-time.After(4 * s.maxWall):
			fmt.Fprintf(os.Stderr, "WATCHDOG: run %d of engine netsim did not return within %v of wall time (simulated time not advancing?) replay=%v steps=%d config=%+v\n", opt.RunIndex, 4*s.maxWall, opt.Replay, s.steps, s.cfg)
			_ = pprof.Lookup("goroutine").WriteTo(os.Stderr, 1)
			os.Exit(3)
		}
	}()
	func() {
		defer func() {
			if r := recover(); r != nil {
				msg := fmt.Sprint(r)
				if strings.Contains(msg, "deadlock: main bubble goroutine has exited") {
					return // product goroutines leaked by design (ticker, autofile); see DESIGN 2.2
				}
				panic(r)
			}
		}()
		synctest.Test(t, func(t *testing.T) {
			if opt.Mode == "crash" {
				defer func() {
					if r := recover(); r != nil {
						s.res.Infra = fmt.Sprintf("simulator panic: %v", r)
						panic(r)
					}
				}()
				s.runCrash()
				return
			}
			s.run()
		})
	}()
	return res
}

type byIdx struct {
	idx []int
	st  []string
}

func (b byIdx) Len() int           { return len(b.idx) }
func (b byIdx) Less(i, j int) bool { return b.idx[i] < b.idx[j] }
func (b byIdx) Swap(i, j int) {
	b.idx[i], b.idx[j] = b.idx[j], b.idx[i]
	b.st[i], b.st[j] = b.st[j], b.st[i]
}

func head(a []string, n int) []string {
	if len(a) > n {
		return a[:n]
	}
	return a
}

func (s *Sim) run() {
	defer func() {
		if r := recover(); r != nil {
			s.res.Infra = fmt.Sprintf("simulator panic: %v", r)
			panic(r)
		}
	}()
	s.start = time.Now()
	c := s.cfg
	total := c.NVal + c.NFull
	s.buildGenesis()
	s.reg = &kit.Registry{}
	s.nodes = make([]*kit.Node, total)
	s.disks = make([]*kit.Disk, total)
	s.walDirs = make([]string, total)
	s.epochs = make([]int, total)
	s.valKeys = make([]int, total)
	s.isByz = make([]bool, total)
	s.mon = newMonitors(s)
	for id := 0; id < total; id++ {
		s.disks[id] = kit.NewDisk()
		s.walDirs[id] = filepath.Join(s.scratch, fmt.Sprintf("node-%d", id))
		s.valKeys[id] = -1
		if id < c.NVal {
			s.valKeys[id] = id
		}
	}
	for _, b := range c.ByzIdx {
		s.isByz[b] = true
	}
	s.setupByz()
	s.ah.Add("cfg", fmt.Sprint(c.NVal, c.NByz, c.DropPct > 0, c.DupPct > 0, c.DelayPct > 0, c.LongPct > 0, c.CorruptPct > 0, c.Partition, c.WAL))
	for id := 0; id < total; id++ {
		if s.isByz[id] {
			continue
		}
		if err := s.startNode(id); err != nil {
			s.res.Violate("C04", "fresh-start", "a correct node cannot start from the genesis file", fmt.Sprintf("node %d: %v", id, err))
			return
		}
	}
	s.trace("started %d validators stakes=%v cfg timeouts=%dms", c.NVal, c.Stakes, c.TimeoutMs)
	defer s.stopAll()

	// phase 1: adversarial prefix
	s.phase = 1
	s.faultsOn = true
	target := uint64(c.Heights)
	goal := func() bool {
		// the adversarial phase also ends when anybody is far ahead (a lagging node is the
		// synchronous suffix's business; heights stay well below 50, see phase2)
		for _, n := range s.liveNodes() {
			if s.heightOf(n) > target+12 || s.heightOf(n) >= 38 {
				return true
			}
		}
		for _, n := range s.liveNodes() {
			if s.heightOf(n) <= target {
				return false
			}
		}
		return true
	}
	budget := time.Duration(c.Heights) * time.Duration(c.TimeoutMs) * time.Millisecond * 60
	s.loop(goal, budget)
	if s.failedNow() || s.res.Inconclusive {
		return
	}
	s.phase2()
	if !s.failedNow() && !s.res.Inconclusive {
		s.replayOracle()
	}
	if !s.failedNow() && !s.res.Inconclusive {
		s.syncOracle()
	}
	s.res.SimTimeS = s.now().Seconds()
	s.res.Steps = s.steps
	nf := 0
	for _, v := range s.res.Faults {
		nf += v
	}
	s.res.NonTrivial = nf > 0 && len(s.mon.committed) >= 2
}

// phase2 is the synchronous suffix: faults stop, everything is delivered at once.
func (s *Sim) phase2() {
	s.phase = 2
	s.faultsOn = false
	for k := range s.cut {
		delete(s.cut, k)
	}
	for k := range s.until {
		delete(s.until, k)
	}
	// flush the wire: everything still in flight arrives now
	for _, m := range s.q {
		m.At = s.now()
	}
	startH := map[int]uint64{}
	var maxH uint64
	for _, n := range s.liveNodes() {
		h := s.heightOf(n)
		startH[n.ID] = h
		if h > maxH {
			maxH = h
		}
	}
	s.trace("PHASE2 start, max height %d", maxH)
	p2start := s.now()
	goal := func() bool {
		// Heights are capped below 50: every 50th block the product fetches a blacklist over HTTP.
		for _, n := range s.liveNodes() {
			if s.heightOf(n) >= 44 {
				return true
			}
		}
		for _, n := range s.liveNodes() {
			if s.heightOf(n) < maxH+3 {
				return false
			}
		}
		// C19: evidence a correct node already held when the network started to behave must get committed.
		return len(s.mon.evidenceOutstanding(p2start)) == 0
	}
	// generous bound: 20 x rotation (<= number of validators x small power ratio) rounds of the longest round time
	rounds := 20 * (s.cfg.NVal + 4)
	per := time.Duration(s.cfg.TimeoutMs) * time.Millisecond * 8
	if s.cfg.EmptyIntv > 0 {
		per += time.Duration(s.cfg.EmptyIntv) * time.Millisecond
	}
	s.loop(goal, time.Duration(rounds)*per*3)
	if s.failedNow() {
		return
	}
	if s.res.Inconclusive {
		return
	}
	if out := s.mon.evidenceOutstanding(p2start); len(out) > 0 {
		progressed := true
		for _, n := range s.liveNodes() {
			if s.heightOf(n) < maxH+3 {
				progressed = false
			}
		}
		if progressed && s.now()-p2start < 35*time.Second {
			s.res.Probe("c19-height-cap-before-evidence-bound")
			progressed = false
		}
		if progressed {
			h := out[0]
			holders := ""
			for _, n := range s.liveNodes() {
				if n.EvPool.VerifIsPending(s.mon.c19.evs[h]) {
					holders += fmt.Sprint(n.ID, " ")
				}
			}
			s.res.Violate("C19", "evidence-never-committed", "evidence of real double-signing held by a correct node is not committed within the bound although the chain progresses",
				fmt.Sprintf("evidence %s (h%d) first pending at node %d at %.1fs; pending now at nodes [%s]; chain advanced %d+ heights in the synchronous suffix",
					short(h), s.mon.c19.evs[h].Height(), s.mon.c19.holder[h], s.mon.c19.firstSeen[h].Seconds(), holders, 3))
			return
		}
	}
	if !goal() {
		var st []string
		for _, n := range s.liveNodes() {
			rs := rsOf(n)
			st = append(st, fmt.Sprintf("node %d h%d r%d %s", n.ID, rs.Height, rs.Round, rs.Step))
		}
		s.res.Violate("C04", "no-progress", "no commit within the bound in the synchronous suffix", strings.Join(st, "; "))
	}
}

func TestSim(t *testing.T) { core.Main(t, engine{}) }
