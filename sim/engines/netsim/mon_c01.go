package netsim

import (
	"fmt"

	"verif/sim/kit"

	"github.com/kardiachain/go-kardia/lib/common"
)

// C01, seen from above. The agreement monitor in monitors.go waits for two different blocks to be
// handed to block stores; a broken locking rule gets there only after a long choreography. The
// simulator also knows every precommit anybody ever SIGNED (delivered or not, Byzantine or not).
// Once validators with +2/3 of the power have signed precommits for a block B in round R of a
// height, more than 1/3 of the power is correct validators locked on B (Byzantine power is below
// 1/3); no other block can gather +2/3 prevotes in a later round of that height unless one of them
// prevotes it, which the protocol forbids without a later polka - which in turn cannot form. So a
// correct validator never precommits C != B in a round after R. If one does, agreement is already
// lost in all but name (whoever receives B's precommits commits B, the others can commit C).

type c01state struct {
	idx     int
	signers map[uint64]map[uint32]map[common.Hash]map[common.Address]bool // h -> r -> block -> who signed a precommit
	quorumR map[uint64]uint32                                             // h -> earliest round with +2/3 signed precommits for a block
	quorumB map[uint64]common.Hash
	correct map[uint64][]*kit.SigRecord // h -> block precommits of correct validators
}

func newC01() *c01state {
	return &c01state{signers: map[uint64]map[uint32]map[common.Hash]map[common.Address]bool{}, quorumR: map[uint64]uint32{},
		quorumB: map[uint64]common.Hash{}, correct: map[uint64][]*kit.SigRecord{}}
}

func (m *monitors) checkQuorumLock() {
	s := m.s
	c := m.c01
	recs := s.reg.All()
	for ; c.idx < len(recs); c.idx++ {
		r := recs[c.idx]
		if r.Kind != "precommit" || r.BlockHash.IsZero() || r.ChainID != s.spec.ChainID {
			continue
		}
		vals := m.c03.valsAt[r.Height]
		if vals == nil {
			continue // the height went by between two quiescent points: nothing to count with
		}
		h := r.Height
		if c.signers[h] == nil {
			c.signers[h] = map[uint32]map[common.Hash]map[common.Address]bool{}
		}
		if c.signers[h][r.Round] == nil {
			c.signers[h][r.Round] = map[common.Hash]map[common.Address]bool{}
		}
		if c.signers[h][r.Round][r.BlockHash] == nil {
			c.signers[h][r.Round][r.BlockHash] = map[common.Address]bool{}
		}
		c.signers[h][r.Round][r.BlockHash][r.Signer] = true
		var sum int64
		for a := range c.signers[h][r.Round][r.BlockHash] {
			if _, v := vals.GetByAddress(a); v != nil {
				sum += v.VotingPower
			}
		}
		if quorumOK(sum, vals.TotalVotingPower()) {
			if qr, ok := c.quorumR[h]; !ok || r.Round < qr {
				c.quorumR[h], c.quorumB[h] = r.Round, r.BlockHash
				s.res.Probe("c01-block-with-two-thirds-of-signed-precommits")
			}
		}
		if !r.Forged {
			c.correct[h] = append(c.correct[h], r)
		}
		qr, ok := c.quorumR[h]
		if !ok {
			continue
		}
		for _, p := range c.correct[h] {
			if p.Round > qr && p.BlockHash != c.quorumB[h] {
				s.res.Violate("C01", "precommit-after-quorum", "a correct validator precommitted another block in a later round of a height in which +2/3 of the power had already signed precommits for a block",
					fmt.Sprintf("h%d: %s has +2/3 signed precommits in round %d; validator %x precommitted %s in round %d", h, short(c.quorumB[h]), qr, p.Signer[:3], short(p.BlockHash), p.Round))
				return
			}
		}
	}
}
