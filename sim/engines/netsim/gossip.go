package netsim

import (
	"fmt"

	"verif/sim/kit"

	"github.com/kardiachain/go-kardia/consensus"
	cstypes "github.com/kardiachain/go-kardia/consensus/types"
	cmn "github.com/kardiachain/go-kardia/lib/common"
	kproto "github.com/kardiachain/go-kardia/proto/kardiachain/types"
	"github.com/kardiachain/go-kardia/types"
	"github.com/kardiachain/go-kardia/types/evidence"
)

// The gossip model replaces the reactor's three free-running outbound
// goroutines per peer (gossipDataRoutine, gossipVotesRoutine,
// queryMaj23Routine). At every quiescent point, for every connected ordered
// pair (a -> b) it offers b what a holds and b lacks, read through public
// accessors. Messages are the product's own wire encoding and enter b through
// its real Reactor.Receive.

func (s *Sim) offer(a, b int, ch byte, msg consensus.Message, key, desc string) {
	full := fmt.Sprintf("%d>%d/%s", a, b, key)
	if t, ok := s.until[full]; ok && s.now() < t {
		return
	}
	bz := consensus.MustEncode(msg)
	s.schedule(&Msg{Src: a, Dst: b, Ch: ch, Bytes: bz, Desc: desc, Key: full, Meta: metaOf(msg)})
}

// metaOf describes a consensus message for the director.
func metaOf(msg consensus.Message) msgMeta {
	switch m := msg.(type) {
	case *consensus.VoteMessage:
		return msgMeta{H: m.Vote.Height, R: m.Vote.Round, T: int(m.Vote.Type), I: int(m.Vote.ValidatorIndex)}
	case *consensus.ProposalMessage:
		return msgMeta{H: m.Proposal.Height, R: m.Proposal.Round, T: 3}
	case *consensus.BlockPartMessage:
		return msgMeta{H: m.Height, R: m.Round, T: 4}
	}
	return msgMeta{}
}

func hasVote(rs *cstypes.RoundState, v *types.Vote) bool {
	if rs.Votes == nil {
		return true
	}
	var vs *types.VoteSet
	if v.Type == kproto.PrevoteType {
		vs = rs.Votes.Prevotes(v.Round)
	} else {
		vs = rs.Votes.Precommits(v.Round)
	}
	if vs == nil {
		return false
	}
	if int(v.ValidatorIndex) >= vs.Size() {
		return true
	}
	ex := vs.GetByIndex(v.ValidatorIndex)
	return ex != nil
}

func (s *Sim) offerVotes(a, b int, rb *cstypes.RoundState, vs *types.VoteSet) {
	if vs == nil {
		return
	}
	n := vs.Size()
	for i := 0; i < n; i++ {
		v := vs.GetByIndex(uint32(i))
		if v == nil {
			continue
		}
		if hasVote(rb, v) {
			continue
		}
		s.offer(a, b, consensus.VoteChannel, &consensus.VoteMessage{Vote: v}, voteKey(v),
			fmt.Sprintf("Vote h%d r%d t%d i%d %s", v.Height, v.Round, v.Type, v.ValidatorIndex, short(v.BlockID.Hash)))
	}
}

// offerMaj23 models queryMaj23Routine + the VoteSetBits exchange: a node that
// holds +2/3 for a block id claims it (real VoteSetMaj23Message through the
// peer's real Receive, which makes the peer keep conflicting votes for that id)
// and then supplies the votes for that id which the peer lacks for that id.
// Without it an equivocating validator could hide a polka from a locked node forever.
func (s *Sim) offerMaj23(a, b int, rb *cstypes.RoundState, vs *types.VoteSet, h uint64, r uint32, t kproto.SignedMsgType) {
	if vs == nil {
		return
	}
	maj, ok := vs.TwoThirdsMajority()
	if !ok {
		return
	}
	var theirs *types.VoteSet
	if rb.Votes != nil {
		if t == kproto.PrevoteType {
			theirs = rb.Votes.Prevotes(r)
		} else {
			theirs = rb.Votes.Precommits(r)
		}
	}
	if theirs == nil {
		return
	}
	if m2, ok2 := theirs.TwoThirdsMajority(); ok2 && m2.Equal(maj) {
		return
	}
	s.offer(a, b, consensus.StateChannel, &consensus.VoteSetMaj23Message{Height: h, Round: r, Type: t, BlockID: maj},
		fmt.Sprintf("maj23/%d/%d/%d/%s", h, r, t, short(maj.Hash)), fmt.Sprintf("VoteSetMaj23 h%d r%d t%d %s", h, r, t, short(maj.Hash)))
	have := theirs.BitArrayByBlockID(maj)
	for _, v := range vs.VerifVotesForBlock(maj) {
		if have != nil && have.GetIndex(int(v.ValidatorIndex)) {
			continue
		}
		s.offer(a, b, consensus.VoteChannel, &consensus.VoteMessage{Vote: v}, "m"+voteKey(v),
			fmt.Sprintf("Maj23Vote h%d r%d t%d i%d %s", v.Height, v.Round, v.Type, v.ValidatorIndex, short(v.BlockID.Hash)))
	}
}

func (s *Sim) offerParts(a, b int, rb *cstypes.RoundState, ps *types.PartSet, h uint64, round uint32) {
	if ps == nil || rb.ProposalBlockParts == nil || !rb.ProposalBlockParts.HasHeader(ps.Header()) {
		return
	}
	have := rb.ProposalBlockParts.BitArray()
	for i := 0; i < int(ps.Total()); i++ {
		if have.GetIndex(i) {
			continue
		}
		p := ps.GetPart(i)
		if p == nil {
			continue
		}
		s.offer(a, b, consensus.DataChannel, &consensus.BlockPartMessage{Height: h, Round: round, Part: p},
			fmt.Sprintf("p/%d/%s/%d", h, short(ps.Header().Hash), i), fmt.Sprintf("Part h%d r%d #%d/%d %s", h, round, i, ps.Total(), short(ps.Header().Hash)))
	}
}

func (s *Sim) gossip() {
	live := s.liveNodes()
	rss := map[int]*cstypes.RoundState{}
	for _, n := range live {
		if n.Mgr.WaitSync() {
			continue
		}
		rss[n.ID] = rsOf(n)
	}
	for _, na := range live {
		ra := rss[na.ID]
		if ra == nil {
			continue
		}
		for _, nb := range live {
			if na.ID == nb.ID {
				continue
			}
			rb := rss[nb.ID]
			if rb == nil {
				continue
			}
			s.gossipPair(na, nb, ra, rb)
		}
	}
}

// gossipEvidence models the evidence reactor's per-peer broadcast routine: a offers b the
// pending evidence b neither holds nor has committed, once b has reached the evidence's height
// (the real routine waits for that too). The message is the reactor's own encoding and enters
// b through the real evidence reactor's Receive.
func (s *Sim) gossipEvidence(na, nb *kit.Node, rb *cstypes.RoundState) {
	pend, _ := na.EvPool.PendingEvidence(1 << 20)
	for _, ev := range pend {
		if rb.Height <= ev.Height() || nb.EvPool.VerifIsPending(ev) || nb.EvPool.VerifIsCommitted(ev) {
			continue
		}
		key := fmt.Sprintf("%d>%d/ev/%s", na.ID, nb.ID, short(ev.Hash()))
		if t, ok := s.until[key]; ok && s.now() < t {
			continue
		}
		bz, err := evidence.VerifEncodeMsg([]types.Evidence{ev})
		if err != nil {
			continue
		}
		s.schedule(&Msg{Src: na.ID, Dst: nb.ID, Ch: 0x38, Bytes: bz, Desc: fmt.Sprintf("Evidence %s h%d", short(ev.Hash()), ev.Height()), Key: key})
	}
}

func (s *Sim) gossipPair(na, nb *kit.Node, ra, rb *cstypes.RoundState) {
	a, b := na.ID, nb.ID
	s.gossipEvidence(na, nb, rb)
	switch {
	case ra.Height == rb.Height:
		if ra.Proposal != nil && rb.Proposal == nil && ra.Proposal.Round == rb.Round {
			p := ra.Proposal
			s.offer(a, b, consensus.DataChannel, &consensus.ProposalMessage{Proposal: p},
				fmt.Sprintf("prop/%d/%d/%s", p.Height, p.Round, short(p.POLBlockID.Hash)),
				fmt.Sprintf("Proposal h%d r%d pol%d %s", p.Height, p.Round, p.POLRound, short(p.POLBlockID.Hash)))
		}
		for _, ps := range []*types.PartSet{ra.ProposalBlockParts, ra.LockedBlockParts, ra.ValidBlockParts} {
			s.offerParts(a, b, rb, ps, ra.Height, ra.Round)
		}
		if ra.Votes != nil {
			maxR := ra.Round + 1
			for r := uint32(1); r <= maxR; r++ {
				s.offerVotes(a, b, rb, ra.Votes.Prevotes(r))
				s.offerVotes(a, b, rb, ra.Votes.Precommits(r))
				s.offerMaj23(a, b, rb, ra.Votes.Prevotes(r), ra.Height, r, kproto.PrevoteType)
				s.offerMaj23(a, b, rb, ra.Votes.Precommits(r), ra.Height, r, kproto.PrecommitType)
			}
		}
	case ra.Height > rb.Height:
		// b is behind: the commit for b's height and the stored block parts
		var commit *types.Commit
		if ra.Height == rb.Height+1 {
			commit = na.BOper.LoadSeenCommit(rb.Height)
		} else {
			commit = na.BOper.LoadBlockCommit(rb.Height)
		}
		if commit != nil {
			// the product's queryMaj23Routine claims the commit's majority for a peer
			// that is catching up, so that it keeps votes conflicting with what an
			// equivocator told it earlier
			var theirs *types.VoteSet
			if rb.Votes != nil {
				theirs = rb.Votes.Precommits(commit.Round)
			}
			if theirs != nil {
				if m2, ok2 := theirs.TwoThirdsMajority(); !ok2 || !m2.Equal(commit.BlockID) {
					s.offer(a, b, consensus.StateChannel, &consensus.VoteSetMaj23Message{Height: commit.Height, Round: commit.Round, Type: kproto.PrecommitType, BlockID: commit.BlockID},
						fmt.Sprintf("maj23/%d/%d/2/%s", commit.Height, commit.Round, short(commit.BlockID.Hash)),
						fmt.Sprintf("VoteSetMaj23 h%d r%d t2 %s (catchup)", commit.Height, commit.Round, short(commit.BlockID.Hash)))
				}
			}
			var have *cmn.BitArray
			if theirs != nil {
				have = theirs.BitArrayByBlockID(commit.BlockID)
			}
			for i := range commit.Signatures {
				if commit.Signatures[i].Absent() {
					continue
				}
				v := commit.GetVote(uint32(i))
				if v == nil {
					continue
				}
				if v.BlockID.Equal(commit.BlockID) {
					if have != nil && have.GetIndex(i) {
						continue
					}
				} else if hasVote(rb, v) {
					continue
				}
				s.offer(a, b, consensus.VoteChannel, &consensus.VoteMessage{Vote: v}, "c"+voteKey(v),
					fmt.Sprintf("CommitVote h%d r%d i%d %s", v.Height, v.Round, v.ValidatorIndex, short(v.BlockID.Hash)))
			}
		}
		if rb.ProposalBlockParts != nil {
			if meta := na.BOper.LoadBlockMeta(rb.Height); meta != nil && rb.ProposalBlockParts.HasHeader(meta.BlockID.PartsHeader) {
				have := rb.ProposalBlockParts.BitArray()
				for i := 0; i < int(meta.BlockID.PartsHeader.Total); i++ {
					if have.GetIndex(i) {
						continue
					}
					p := na.BOper.LoadBlockPart(rb.Height, i)
					if p == nil {
						continue
					}
					s.offer(a, b, consensus.DataChannel, &consensus.BlockPartMessage{Height: rb.Height, Round: rb.Round, Part: p},
						fmt.Sprintf("p/%d/%s/%d", rb.Height, short(meta.BlockID.PartsHeader.Hash), i),
						fmt.Sprintf("StoredPart h%d #%d/%d %s", rb.Height, i, meta.BlockID.PartsHeader.Total, short(meta.BlockID.PartsHeader.Hash)))
				}
			}
		}
	}
}
