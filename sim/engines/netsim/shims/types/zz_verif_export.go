package types

// Added at build time through go -overlay by /verif. The Byzantine proposer of
// the simulator needs blocks whose header disagrees with their body.

// WithHeaderForVerif returns a block with the same body and the given header.
func (b *Block) WithHeaderForVerif(h *Header) *Block {
	return &Block{header: CopyHeader(h), transactions: b.transactions, dualEvents: b.dualEvents, lastCommit: b.lastCommit, evidence: b.evidence}
}

// VerifVotesForBlock returns the votes this set holds for one block id
// (including conflicting votes kept because a peer claimed a majority).
func (voteSet *VoteSet) VerifVotesForBlock(blockID BlockID) []*Vote {
	if voteSet == nil {
		return nil
	}
	voteSet.mtx.Lock()
	defer voteSet.mtx.Unlock()
	bv, ok := voteSet.votesByBlock[blockID.Key()]
	if !ok {
		return nil
	}
	var out []*Vote
	for _, v := range bv.votes {
		if v != nil {
			out = append(out, v)
		}
	}
	return out
}
