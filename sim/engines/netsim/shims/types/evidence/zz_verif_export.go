package evidence

// Added at build time through go -overlay by /verif. Re-exports only.

import "github.com/kardiachain/go-kardia/types"

var VerifDecodeMsg = decodeMsg
var VerifEncodeMsg = encodeMsg

// VerifVerify runs the pool's verification of one piece of evidence (read-only).
func (evpool *Pool) VerifVerify(ev types.Evidence) error { return evpool.verify(ev) }

func (evpool *Pool) VerifIsPending(ev types.Evidence) bool   { return evpool.isPending(ev) }
func (evpool *Pool) VerifIsCommitted(ev types.Evidence) bool { return evpool.isCommitted(ev) }
