package blockchain

// Added at build time through go -overlay by /verif.

// VerifReleaseCaches frees the off-heap caches of a chain the simulator drops.
func (bc *BlockChain) VerifReleaseCaches() {
	bc.triedb.VerifReleaseCache()
	bc.snaps.VerifReleaseCaches()
}
