package blockchain

// Added at build time through go -overlay by /verif. Lets the simulator drive the
// real block-sync processor state machine (pcState) event by event.

import (
	"fmt"

	"github.com/kardiachain/go-kardia/kai/state/cstate"
	"github.com/kardiachain/go-kardia/lib/p2p"
	"github.com/kardiachain/go-kardia/types"
)

type VerifProcessor struct{ st *pcState }

func VerifNewProcessor(store blockStore, applier blockApplier, state cstate.LatestBlockState) *VerifProcessor {
	return &VerifProcessor{st: newPcState(newProcessorContext(store, applier, state))}
}

// Enqueue hands the processor a block received from a peer (what the scheduler's scBlockReceived does).
func (p *VerifProcessor) Enqueue(peer p2p.ID, b *types.Block) (err error) {
	defer func() {
		if r := recover(); r != nil {
			err = fmt.Errorf("panic: %v", r)
		}
	}()
	_, err = p.st.handle(scBlockReceived{peerID: peer, block: b})
	return err
}

// Process fires one rProcessBlock; it returns "processed", "verification-failure", "noop" or "finished".
func (p *VerifProcessor) Process() (kind string, height uint64, err error) {
	defer func() {
		if r := recover(); r != nil {
			err = fmt.Errorf("panic: %v", r)
		}
	}()
	ev, err := p.st.handle(rProcessBlock{})
	switch e := ev.(type) {
	case pcBlockProcessed:
		return "processed", e.height, err
	case pcBlockVerificationFailure:
		return "verification-failure", e.height, err
	case pcFinished:
		return "finished", 0, err
	}
	return "noop", 0, err
}

func (p *VerifProcessor) Height() uint64 { return p.st.height() }
func (p *VerifProcessor) QueueLen() int  { return len(p.st.queue) }
