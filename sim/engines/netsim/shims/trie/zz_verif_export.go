package trie

// Added at build time through go -overlay by /verif.

// VerifReleaseCache returns the clean-node cache's off-heap chunks (fastcache
// mmaps 64 MB blocks that only Reset() gives back; the simulator creates and
// drops thousands of databases per process).
func (db *Database) VerifReleaseCache() {
	if db != nil && db.cleans != nil {
		db.cleans.Reset()
	}
}
