package p2p

// Added at build time through go -overlay by /verif. A no-op Transport so that a
// real, un-started Switch can back StopPeerForError/Broadcast (peerConfig is
// unexported, so the interface cannot be implemented outside the package).

type verifNopTransport struct{}

func (verifNopTransport) NetAddress() NetAddress                      { return NetAddress{} }
func (verifNopTransport) Accept(peerConfig) (Peer, error)             { select {} }
func (verifNopTransport) Dial(NetAddress, peerConfig) (Peer, error)   { return nil, ErrRejected{} }
func (verifNopTransport) Cleanup(Peer)                                {}

func VerifNopTransport() Transport { return verifNopTransport{} }

// VerifAddPeer registers an already initialised peer with the switch's peer set
// (what addPeer does after the handshake), so Broadcast reaches it.
func (sw *Switch) VerifAddPeer(p Peer) error { return sw.peers.Add(p) }
func (sw *Switch) VerifRemovePeer(p Peer)    { sw.peers.Remove(p) }
