package consensus

// Added at build time through go -overlay by /verif (never part of the product
// tree). Re-exports only; no logic.

import (
	"github.com/kardiachain/go-kardia/kai/state/cstate"
)

type VerifMsgInfo = msgInfo
type VerifTimeoutInfo = timeoutInfo

// VerifSetWAL installs a WAL before Start (what tests do with cs.wal = ...).
func (cs *ConsensusState) VerifSetWAL(w WAL) { cs.wal = w }

// VerifWAL returns the WAL in use.
func (cs *ConsensusState) VerifWAL() WAL { return cs.wal }

// VerifState returns the consensus state's LatestBlockState (state until height-1).
func (cs *ConsensusState) VerifState() cstate.LatestBlockState {
	cs.mtx.RLock()
	defer cs.mtx.RUnlock()
	return cs.state
}

// VerifDone is closed when the receive routine has exited (stop or CONSENSUS FAILURE).
func (cs *ConsensusState) VerifDone() <-chan struct{} { return cs.done }

// VerifQueueLens reports the backlog of the peer and internal queues.
func (cs *ConsensusState) VerifQueueLens() (int, int) {
	return len(cs.peerMsgQueue), len(cs.internalMsgQueue)
}

func (cs *ConsensusState) VerifSetDoWALCatchup(b bool) { cs.doWALCatchup = b }

var VerifRepairWalFile = repairWalFile

func (conR *ConsensusManager) VerifConS() *ConsensusState { return conR.conS }
