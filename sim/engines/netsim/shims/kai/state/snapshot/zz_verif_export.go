package snapshot

// Added at build time through go -overlay by /verif.

// VerifReleaseCaches returns the disk layers' off-heap cache chunks (see trie shim).
func (t *Tree) VerifReleaseCaches() {
	if t == nil {
		return
	}
	t.lock.Lock()
	defer t.lock.Unlock()
	for _, l := range t.layers {
		if dl, ok := l.(*diskLayer); ok && dl.cache != nil {
			dl.cache.Reset()
		}
	}
}
