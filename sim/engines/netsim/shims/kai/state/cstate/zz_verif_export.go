package cstate

// Added at build time through go -overlay by /verif. Re-exports only.

var VerifBeginBlockInfo = getBeginBlockValidatorInfo
