package netsim

import (
	"bytes"
	"fmt"
	"io"
	"os"
	"path/filepath"
	"sort"
	"strings"
	"testing/synctest"
	"time"

	"verif/sim/core"
	"verif/sim/kit"

	"github.com/kardiachain/go-kardia/consensus"
	"github.com/kardiachain/go-kardia/kai/state/cstate"
	"github.com/kardiachain/go-kardia/lib/common"
	"github.com/kardiachain/go-kardia/lib/log"
	"github.com/kardiachain/go-kardia/types"
)

// ---------------- recording WAL ----------------

// recWAL delegates everything to the real BaseWAL and, after every fsync it
// can see, snapshots the WAL directory and puts a mark into the victim's write
// log, so that WAL and database writes are in one total order.
type recWAL struct {
	inner *consensus.BaseWAL
	dir   string
	log   *kit.WriteLog
	snaps []map[string][]byte // durable contents at each observed fsync
	on    bool
	// sizeAt[i] = size of each WAL file on disk just before write-log entry i was made: what
	// a torn image for a crash before entry i may contain beyond the last fsync
	sizeAt map[int]map[string]int64
}

func (w *recWAL) noteSizes(idx int) {
	if !w.on {
		return
	}
	m := map[string]int64{}
	ents, _ := os.ReadDir(w.dir)
	for _, e := range ents {
		if fi, err := e.Info(); err == nil {
			m[e.Name()] = fi.Size()
		}
	}
	w.sizeAt[idx] = m
}

// pollRotation: the autofile group rotates its head (flush, fsync, close, rename) when a
// periodic check finds it at its size limit. That check runs on the group's own ticker, whose
// order relative to the writers the simulator does not decide, so the simulator makes the
// same check itself at quiescent points (tape-chosen small limit) and calls the group's own
// RotateFile. The directory right after a rotation - everything durable in wal.NNN, no head
// file yet - is one more state a crash can leave behind.
func (w *recWAL) pollRotation(limit int64) bool {
	if limit <= 0 {
		return false
	}
	g := w.inner.Group()
	if g.ReadGroupInfo().HeadSize < limit {
		return false
	}
	g.RotateFile()
	w.snapshot("rotate")
	return true
}

func sigTag(msg consensus.WALMessage) string {
	if mi, ok := msg.(consensus.VerifMsgInfo); ok {
		switch m := mi.Msg.(type) {
		case *consensus.VoteMessage:
			return fmt.Sprintf("sig:%x", m.Vote.Signature)
		case *consensus.ProposalMessage:
			return fmt.Sprintf("sig:%x", m.Proposal.Signature)
		}
	}
	if eh, ok := msg.(consensus.EndHeightMessage); ok {
		return fmt.Sprintf("endheight:%d", eh.Height)
	}
	return ""
}

func (w *recWAL) snapshot(tag string) {
	if !w.on {
		return
	}
	snap := map[string][]byte{}
	ents, _ := os.ReadDir(w.dir)
	for _, e := range ents {
		if b, err := os.ReadFile(filepath.Join(w.dir, e.Name())); err == nil {
			snap[e.Name()] = b
		}
	}
	w.snaps = append(w.snaps, snap)
	w.log.MarkEvent("wal-fsync "+tag, int64(len(w.snaps)-1))
}

func (w *recWAL) Write(m consensus.WALMessage) error { return w.inner.Write(m) }
func (w *recWAL) WriteSync(m consensus.WALMessage) error {
	err := w.inner.WriteSync(m)
	if err == nil {
		w.snapshot(sigTag(m))
	}
	return err
}
func (w *recWAL) FlushAndSync() error {
	err := w.inner.FlushAndSync()
	if err == nil {
		w.snapshot("flush")
	}
	return err
}
func (w *recWAL) SearchForEndHeight(h int64, o *consensus.WALSearchOptions) (io.ReadCloser, bool, error) {
	return w.inner.SearchForEndHeight(h, o)
}
func (w *recWAL) Start() error {
	err := w.inner.Start()
	if err == nil {
		w.snapshot("start")
	}
	return err
}
func (w *recWAL) Stop() error { return w.inner.Stop() }
func (w *recWAL) Wait()       { w.inner.Wait() }

func walDirOf(base string) string { return filepath.Join(base, "cs.wal") }

// openRecWAL creates the real WAL on the node's directory wrapped by the recorder.
func openRecWAL(base string, log *kit.WriteLog, record bool, headLimit int) (*recWAL, error) {
	_ = headLimit // rotation is driven by the simulator (pollRotation), the group keeps its defaults
	inner, err := consensus.NewWAL(filepath.Join(walDirOf(base), "wal"))
	if err != nil {
		return nil, err
	}
	// Nothing is durable except what an explicit fsync covered: the periodic
	// flush ticker is moved out of the run (see DESIGN, crash engine assumptions).
	inner.SetFlushInterval(time.Hour)
	w := &recWAL{inner: inner, dir: walDirOf(base), log: log, on: record, sizeAt: map[int]map[string]int64{}}
	if record {
		log.BeforeAdd = w.noteSizes
	}
	return w, nil
}

func writeSnapshot(base string, snap map[string][]byte) error {
	d := walDirOf(base)
	os.RemoveAll(d)
	if err := os.MkdirAll(d, 0o755); err != nil {
		return err
	}
	for name, b := range snap {
		if err := os.WriteFile(filepath.Join(d, name), b, 0o600); err != nil {
			return err
		}
	}
	return nil
}

func copyDirFiles(dir string) map[string][]byte {
	snap := map[string][]byte{}
	ents, _ := os.ReadDir(dir)
	for _, e := range ents {
		if b, err := os.ReadFile(filepath.Join(dir, e.Name())); err == nil {
			snap[e.Name()] = b
		}
	}
	return snap
}

// ---------------- crash engine ----------------

type crashRef struct {
	victim     int
	log        []kit.Entry
	snaps      []map[string][]byte
	sizeAt     map[int]map[string]int64 // WAL file sizes on disk just before each log entry
	refBlocks  map[uint64]common.Hash
	refStates  map[uint64]cstate.LatestBlockState // victim's state with LastBlockHeight == key
	sigs       []*kit.SigRecord                   // victim's signatures in the reference run
	otherDisks map[int]*kit.Disk
	otherWALs  map[int]map[string][]byte
	maxH       uint64
	archive    bool
	heightAt   []uint64 // victim's committed height (blocks saved) as of each log index
}

// describeEntry gives a structural description of what the write just before the
// crash point was (for signatures: no keys, no hashes).
func describeEntry(e kit.Entry) string {
	if e.Mark != "" {
		f := strings.Fields(e.Mark)
		if len(f) > 1 {
			t := f[1]
			if i := strings.IndexByte(t, ':'); i > 0 {
				t = t[:i]
			}
			return f[0] + " " + t
		}
		return e.Mark
	}
	kinds := map[string]bool{}
	for _, op := range e.Ops {
		k := op.Key
		// key classes by their leading letters (schema prefixes)
		n := 0
		for n < len(k) && n < 24 && ((k[n] >= 'a' && k[n] <= 'z') || (k[n] >= 'A' && k[n] <= 'Z') || k[n] == '-') {
			n++
		}
		p := k[:n]
		if n <= 1 {
			if len(k) == 32 {
				p = "trie-node"
			} else if n == 1 {
				p = k[:1]
			} else {
				p = "raw"
			}
		}
		kinds[p] = true
	}
	var ks []string
	for k := range kinds {
		ks = append(ks, k)
	}
	sort.Strings(ks)
	if len(e.Ops) > 1 {
		return "batch{" + strings.Join(ks, ",") + "}"
	}
	return "put{" + strings.Join(ks, ",") + "}"
}

func (s *Sim) startNodeCrash(id int, record bool) error {
	cfg := s.nodeCfg(id)
	cfg.WalDir = s.walDirs[id]
	n, err := kit.NewNode(cfg)
	if err != nil {
		return err
	}
	w, err := openRecWAL(s.walDirs[id], s.disks[id].Log, record, s.cfg.WalHeadLimit)
	if err != nil {
		return err
	}
	n.CS.VerifSetWAL(w)
	n.WAL = w
	if err := w.Start(); err != nil {
		return fmt.Errorf("wal start: %w", err)
	}
	s.nodes[id] = n
	if err := n.TxR.Start(); err != nil {
		return err
	}
	if err := n.EvR.Start(); err != nil {
		return err
	}
	for j := range s.nodes {
		if j != id {
			n.Connect(j)
		}
	}
	if err := n.Mgr.Start(); err != nil {
		return fmt.Errorf("consensus manager start: %w", err)
	}
	return nil
}

// runCrash: reference run, then every crash point of the chosen window.
func (s *Sim) runCrash() {
	s.start = time.Now()
	c := &s.cfg
	total := c.NVal
	s.buildGenesis()
	s.reg = &kit.Registry{}
	s.nodes = make([]*kit.Node, total)
	s.disks = make([]*kit.Disk, total)
	s.walDirs = make([]string, total)
	s.epochs = make([]int, total)
	s.valKeys = make([]int, total)
	s.isByz = make([]bool, total)
	s.mon = newMonitors(s)
	victim := 0
	if total > 1 {
		victim = s.tape.Draw(total)
	}
	for id := 0; id < total; id++ {
		s.disks[id] = kit.NewDisk()
		s.walDirs[id] = filepath.Join(s.scratch, fmt.Sprintf("ref-node-%d", id))
		s.valKeys[id] = id
	}
	s.disks[victim].Log.On = true
	for id := 0; id < total; id++ {
		if err := s.startNodeCrash(id, id == victim); err != nil {
			s.res.Violate("C04", "fresh-start", "a correct node cannot start from the genesis file", fmt.Sprintf("node %d: %v", id, err))
			return
		}
	}
	archive := strings.HasPrefix(c.CacheKinds[victim], "archive") || c.CacheKinds[victim] == "preimages"
	s.trace("CRASH-REF %d validators, victim %d cache=%s (flush every block=%v), heights %d", total, victim, c.CacheKinds[victim], archive, c.Heights)
	s.ah.Add("crash", fmt.Sprint(total, c.CacheKinds[victim], c.Heights, c.SkipCommit, c.EmptyIntv > 0))
	s.phase = 2 // no faults in the reference run
	target := uint64(c.Heights)
	vlog := s.disks[victim].Log
	ref := &crashRef{victim: victim, refBlocks: map[uint64]common.Hash{}, refStates: map[uint64]cstate.LatestBlockState{}, archive: archive,
		otherDisks: map[int]*kit.Disk{}, otherWALs: map[int]map[string][]byte{}}
	goal := func() bool {
		// record the victim's state per height while running
		if n := s.nodes[victim]; n != nil {
			st := n.CS.VerifState()
			if _, ok := ref.refStates[st.LastBlockHeight]; !ok {
				ref.refStates[st.LastBlockHeight] = st.Copy()
			}
		}
		for _, n := range s.liveNodes() {
			if s.heightOf(n) <= target {
				return false
			}
		}
		return true
	}
	s.afterQ = func() {
		if n := s.nodes[victim]; n != nil && n.WAL != nil {
			if n.WAL.(*recWAL).pollRotation(int64(s.cfg.WalHeadLimit)) {
				s.res.Fault("wal-head-rotated")
			}
		}
	}
	s.loop(goal, time.Duration(c.Heights)*time.Duration(c.TimeoutMs)*time.Millisecond*60)
	s.afterQ = nil
	if s.failedNow() || s.res.Inconclusive || !goal() {
		if !s.failedNow() {
			s.res.Inconclusive = true
		}
		s.stopAll()
		return
	}
	// freeze the reference
	vlog.On = false
	ref.log = append([]kit.Entry(nil), vlog.Entries...)
	ref.snaps = s.nodes[victim].WAL.(*recWAL).snaps
	ref.sizeAt = s.nodes[victim].WAL.(*recWAL).sizeAt
	for h, bh := range s.mon.committed {
		ref.refBlocks[h] = bh
		if h > ref.maxH {
			ref.maxH = h
		}
	}
	for _, r := range s.reg.All() {
		if r.Signer == s.nodes[victim].Addr {
			ref.sigs = append(ref.sigs, r)
		}
	}
	s.cleanStop = true
	s.stopAll()
	s.cleanStop = false
	synctestWait()
	for id := 0; id < total; id++ {
		if id != victim {
			ref.otherDisks[id] = s.disks[id].Fork()
			ref.otherWALs[id] = copyDirFiles(walDirOf(s.walDirs[id]))
		}
	}
	// crash points: every index of the window (last two heights in the quick tier, all in thorough)
	n := len(ref.log)
	from := 0
	if s.opt.Tier != "thorough" {
		// window start = first entry after the ENDHEIGHT of (maxH-2)
		for i, e := range ref.log {
			if strings.HasPrefix(e.Mark, fmt.Sprintf("wal-fsync endheight:%d", int64(ref.maxH)-2)) {
				from = i
			}
		}
	}
	stride := 1
	if v := s.opt.Int("stride", 0); v > 0 {
		stride = v
	}
	refSteps := s.steps
	points := 0
	for k := from; k <= n; k += stride {
		modes := []string{"clean"}
		if s.opt.Tier == "thorough" || s.tape.Chance(1, 4) {
			modes = append(modes, "torn")
		}
		if s.opt.Tier == "thorough" || s.tape.Chance(1, 5) {
			modes = append(modes, "double")
		}
		for _, mode := range modes {
			points++
			s.steps = refSteps
			s.crashPoint(ref, k, mode)
			if s.onlyKnownViolations() {
				continue
			}
			if len(s.res.Violations) > 0 {
				return
			}
			if wallNow()-s.wallStart > s.maxWall {
				s.res.Probe("crash-points-cut-by-wall-cap")
				k = n + 1
				break
			}
		}
	}
	s.res.Probes["crash-points"] += points
	s.res.Probes["write-log-entries"] += n
	s.res.SimTimeS = s.now().Seconds()
	s.res.NonTrivial = points > 0
}

// crashClass names the window a crash point falls into, relative to the last durable
// consensus-state save: which of the commit pipeline's durable steps (block saved ->
// end-of-height marker -> application batch -> head marker -> consensus-state save) are done.
func crashClass(entries []kit.Entry) string {
	var saved, endh, app, headm bool
	for _, e := range entries {
		if strings.HasPrefix(e.Mark, "wal-fsync endheight:") && !strings.HasSuffix(e.Mark, ":0") {
			endh = true
		}
		for _, op := range e.Ops {
			switch {
			case strings.HasPrefix(op.Key, "ConsensusState") && len(op.Key) == 22:
				saved, endh, app, headm = false, false, false, false
			case strings.HasPrefix(op.Key, "sm") && len(op.Key) == 10:
				saved = true
			case strings.HasPrefix(op.Key, "ah") && len(op.Key) == 10:
				app = true
			case op.Key == "LastBlock":
				headm = true
			}
		}
	}
	var done []string
	if saved {
		done = append(done, "block saved")
	}
	if endh {
		done = append(done, "end-of-height marker durable")
	}
	if app {
		done = append(done, "application batch written")
	}
	if headm {
		done = append(done, "head marker moved")
	}
	if len(done) == 0 {
		return "inside a height (nothing of the commit pipeline durable since the last consensus-state save)"
	}
	return "with " + strings.Join(done, ", ") + " but the consensus state of that height not yet saved"
}

// onlyKnownViolations: every violation recorded so far is a listed known finding
// (they stay recorded, the worker reports them as KNOWN-FINDING); exploration goes on.
func (s *Sim) onlyKnownViolations() bool {
	if s.opt.IsKnown == nil {
		return false
	}
	for _, v := range s.res.Violations {
		if !s.opt.IsKnown(v) {
			return false
		}
	}
	// keep one copy per signature
	seen := map[string]bool{}
	out := s.res.Violations[:0]
	for _, v := range s.res.Violations {
		if !seen[v.Property+v.Signature] {
			seen[v.Property+v.Signature] = true
			out = append(out, v)
		}
	}
	s.res.Violations = out
	return true
}

func lastSnapBefore(ref *crashRef, k int) (int, int) {
	snap, at := -1, -1
	for i := 0; i < k && i < len(ref.log); i++ {
		if strings.HasPrefix(ref.log[i].Mark, "wal-fsync") {
			snap, at = int(ref.log[i].Aux), i
		}
	}
	return snap, at
}

// crashPoint rebuilds the whole network from images: the victim from the image
// after the first k entries of its write log, the others from their final images.
func (s *Sim) crashPoint(ref *crashRef, k int, mode string) {
	c := s.cfg
	total := c.NVal
	victim := ref.victim
	what := "nothing (before the first write)"
	if k > 0 {
		what = describeEntry(ref.log[k-1])
	}
	next := "end of log"
	if k < len(ref.log) {
		next = describeEntry(ref.log[k])
	}
	raw := fmt.Sprintf("after %s, before %s", what, next)
	where := "crash " + crashClass(ref.log[:k])
	s.trace("CRASH-POINT k=%d/%d mode=%s: %s (%s)", k, len(ref.log), mode, where, raw)
	s.res.Fault("crash:" + mode)
	nViolBefore := len(s.res.Violations)
	s.violBase = nViolBefore
	var victimSnap map[string][]byte
	// images
	base := filepath.Join(s.scratch, fmt.Sprintf("cp-%d-%s", k, mode))
	defer os.RemoveAll(base)
	for id := 0; id < total; id++ {
		s.walDirs[id] = filepath.Join(base, fmt.Sprintf("node-%d", id))
		s.epochs[id]++
		if id == victim {
			d := kit.NewDisk()
			d.Apply(ref.log[:k])
			s.disks[id] = d
			si, _ := lastSnapBefore(ref, k)
			snap := map[string][]byte{}
			if si >= 0 {
				for name, b := range ref.snaps[si] {
					snap[name] = b
				}
			}
			if mode == "torn" && si+1 < len(ref.snaps) {
				// part of what was written after the last fsync reached the disk
				nxt := ref.snaps[si+1]
				var names []string
				for name := range nxt {
					names = append(names, name)
				}
				sort.Strings(names)
				for _, name := range names {
					nb := nxt[name]
					cur := name
					if _, ok := snap[name]; !ok {
						// a rotation in between renamed the head: what was appended went to the head
						cur = "wal"
					}
					ob, ok := snap[cur]
					if !ok {
						continue
					}
					if len(nb) > len(ob) && string(nb[:len(ob)]) == string(ob) {
						extra := nb[len(ob):]
						// only what had reached the file before entry k was made (the log is one total
						// order: bytes appended after a database write that is not durable are not either)
						if lim, ok := ref.sizeAt[k]; ok {
							onDisk := lim[cur] - int64(len(ob))
							if onDisk <= 0 {
								continue
							}
							if onDisk < int64(len(extra)) {
								extra = extra[:onDisk]
							}
						} else if k < len(ref.log) {
							continue
						}
						x := 1 + s.tape.Draw(len(extra))
						t := append(append([]byte(nil), ob...), extra[:x]...)
						if s.tape.Chance(1, 3) && x > 0 {
							t[len(ob)+s.tape.Draw(x)] ^= 0x20 // garbage after power loss
						}
						snap[cur] = t
						break
					}
				}
			}
			if err := writeSnapshot(s.walDirs[id], snap); err != nil {
				s.res.Infra = err.Error()
				return
			}
			victimSnap = snap
			if s.opt.Verbose {
				for name, b := range snap {
					dec := consensus.NewWALDecoder(bytes.NewReader(b))
					var kinds []string
					for {
						m, err := dec.Decode()
						if err != nil {
							kinds = append(kinds, "END:"+firstLine(err.Error()))
							break
						}
						kinds = append(kinds, strings.TrimPrefix(fmt.Sprintf("%T", m.Msg), "consensus."))
						if eh, ok := m.Msg.(consensus.EndHeightMessage); ok {
							kinds[len(kinds)-1] = fmt.Sprintf("ENDHEIGHT(%d)", eh.Height)
						}
					}
					fmt.Printf("      WAL-IMAGE %s (snapshot %d): %s\n", name, si, strings.Join(kinds, " "))
				}
			}
		} else {
			s.disks[id] = ref.otherDisks[id].Fork()
			if err := writeSnapshot(s.walDirs[id], ref.otherWALs[id]); err != nil {
				s.res.Infra = err.Error()
				return
			}
		}
	}
	// fresh monitors; the reference chain is what "had been committed"
	s.mu.Lock()
	s.stopped = false
	s.outbox = nil
	s.mu.Unlock()
	s.q = nil
	s.until = map[string]time.Duration{}
	s.retries = map[string]int{}
	s.blocks = map[string]*knownBlock{}
	s.blocksByH = map[uint64][]*knownBlock{}
	s.learnedSaved = map[int]int{}
	s.mon = newMonitors(s)
	s.mon.afterRestart = true
	// what "had been committed": in a network the other nodes hold the whole reference chain;
	// a lone validator had only committed what it had saved before the crash point
	savedBlocks := uint64(0)
	for _, e := range ref.log[:k] {
		for _, op := range e.Ops {
			if strings.HasPrefix(op.Key, "sm") && len(op.Key) == 10 && !op.Del {
				var hh uint64
				for _, c := range []byte(op.Key[2:]) {
					hh = hh<<8 | uint64(c)
				}
				if hh > savedBlocks {
					savedBlocks = hh
				}
			}
		}
	}
	for h, bh := range ref.refBlocks {
		if total > 1 || h <= savedBlocks {
			s.mon.committed[h] = bh
			s.mon.byWhom[h] = -1
		}
	}
	s.nodes = make([]*kit.Node, total)
	sigBefore := len(s.reg.All())
	replayErr := ""
	replayErrH := uint64(0) // the height whose messages were not replayed
	var startSigs [][2]int    // registry index ranges signed inside the victim's start-up (consensus-log replay)
	for id := 0; id < total; id++ {
		var err error
		func() {
			defer func() {
				if r := recover(); r != nil {
					err = fmt.Errorf("panic: %v", r)
				}
			}()
			if id == victim {
				prev := kit.LogSink
				kit.LogSink = func(lvl log.Lvl, msg string, ctx []interface{}) {
					if strings.Contains(msg, "catchup replay") {
						replayErr = "unknown"
						for i := 0; i+1 < len(ctx); i += 2 {
							if fmt.Sprint(ctx[i]) == "err" {
								raw := firstLine(fmt.Sprint(ctx[i+1]))
								replayErr = sanitizeSig(raw)
								fmt.Sscanf(raw, "cannot replay height %d", &replayErrH)
							}
						}
					}
					if prev != nil {
						prev(lvl, msg, ctx)
					}
				}
				defer func() { kit.LogSink = prev }()
			}
			if id == victim && mode == "double" {
				// second crash during recovery: restart once with the write log recording, stop
				// abruptly, keep a tape-chosen prefix of what start-up (finishing an interrupted
				// commit, replaying the consensus log) had written, and restart from that
				d := s.disks[id]
				d.Log.On = true
				b0 := len(s.reg.All())
				err = s.startNodeCrash(id, true)
				startSigs = append(startSigs, [2]int{b0, len(s.reg.All())})
				if err != nil {
					return
				}
				synctestWait()
				n1 := s.nodes[id]
				log2 := append([]kit.Entry(nil), d.Log.Entries...)
				snaps2 := n1.WAL.(*recWAL).snaps
				d.Log.On = false
				s.stopNode(n1)
				synctestWait()
				s.nodes[id] = nil
				if len(log2) == 0 {
					s.res.Probe("c05-recovery-wrote-nothing")
				} else {
					j := 1 + s.tape.Draw(len(log2))
					d2 := kit.NewDisk()
					d2.Apply(ref.log[:k])
					d2.Apply(log2[:j])
					s.disks[id] = d2
					img := victimSnap
					for i := 0; i < j; i++ {
						if strings.HasPrefix(log2[i].Mark, "wal-fsync") && int(log2[i].Aux) < len(snaps2) {
							img = snaps2[log2[i].Aux]
						}
					}
					if err = writeSnapshot(s.walDirs[id], img); err != nil {
						return
					}
					where += "; crashed again during the recovery from that"
					s.res.Fault("crash:second-during-recovery")
					s.trace("SECOND-CRASH after %d of %d recovery writes (%s)", j, len(log2), describeEntry(log2[j-1]))
				}
				s.epochs[id]++
			}
			b0 := len(s.reg.All())
			err = s.startNodeCrash(id, false)
			if id == victim {
				startSigs = append(startSigs, [2]int{b0, len(s.reg.All())})
			}
		}()
		if err != nil {
			who := "another node (clean restart from its final image)"
			if id == victim {
				who = "the crashed node"
			}
			s.res.Violate("C05", "restart-fails", "restart fails for "+who+": "+sanitizeSig(firstLine(err.Error()))+" ["+where+"]",
				fmt.Sprintf("k=%d (%s) mode=%s node %d: %v", k, raw, mode, id, err))
			return
		}
	}
	defer func() {
		s.stopAll()
		synctestWait()
	}()
	v := s.nodes[victim]
	// oracle 2: stores agree on one prefix of what had been committed
	head := v.BC.CurrentBlock().Height()
	st := v.InitialS
	// did the node come back below the consensus state it had durably saved (un-flushed application state lost)?
	savedState := uint64(0)
	for _, e := range ref.log[:k] {
		for _, op := range e.Ops {
			if strings.HasPrefix(op.Key, "ConsensusState") && len(op.Key) == 22 && !op.Del {
				var hh uint64
				for _, c := range []byte(op.Key[14:]) {
					hh = hh<<8 | uint64(c)
				}
				if hh > savedState {
					savedState = hh
				}
			}
		}
	}
	if v.LoadedHeight < savedState {
		where = "node rewound below its saved consensus state: application state of recent blocks was not flushed"
		s.res.Probe("c05-restart-rewound")
	} else if replayErr != "" {
		s.res.Probe("c05-restart-without-log-replay")
	}
	for h := uint64(1); h <= head; h++ {
		b := v.BOper.LoadBlock(h)
		if b == nil {
			s.res.Violate("C05", "store-gap", "after restart the block store has a gap below its head ["+where+"]", fmt.Sprintf("k=%d height %d of head %d", k, h, head))
			return
		}
		// (a lone validator had only committed what it had saved before the crash point: above that
		// its restarted self may decide anew, and a second restart replays what the first one logged)
		if want, ok := ref.refBlocks[h]; ok && (total > 1 || h <= savedBlocks) && want != b.Hash() {
			s.res.Violate("C05", "store-differs", "after restart the block store holds a block different from the one that had been committed ["+where+"]",
				fmt.Sprintf("k=%d height %d", k, h))
			return
		}
	}
	if st.LastBlockHeight > head {
		s.res.Violate("C05", "state-ahead-of-store", "after restart the consensus state is ahead of the block store ["+where+"]",
			fmt.Sprintf("k=%d state height %d, store head %d", k, st.LastBlockHeight, head))
		return
	}
	// oracle 4 (flush-every-block mode): nothing committed is lost, and the state equals the twin's
	durableEnd := uint64(0)
	for i := 0; i < k; i++ {
		if strings.HasPrefix(ref.log[i].Mark, "wal-fsync endheight:") {
			var x int64
			fmt.Sscanf(strings.TrimPrefix(ref.log[i].Mark, "wal-fsync endheight:"), "%d", &x)
			if uint64(x) > durableEnd {
				durableEnd = uint64(x)
			}
		}
	}
	if ref.archive {
		if st.LastBlockHeight < durableEnd {
			s.res.Violate("C05", "resumes-at-committed-height", "with state flushed every block the restarted node resumes consensus at a height it had already committed (block saved, end-of-height marker durable) instead of continuing like its twin ["+where+"]",
				fmt.Sprintf("k=%d (%s) committed up to %d, consensus state after restart at %d, applied head %d", k, raw, durableEnd, st.LastBlockHeight, head))
			return
		}
		if twin, ok := ref.refStates[st.LastBlockHeight]; ok && (total > 1 || st.LastBlockHeight <= savedBlocks) {
			if d := diffStates(twin, st); d != "" {
				s.res.Violate("C05", "state-differs-from-twin", "the restarted node's consensus state differs from its never-crashed twin's: "+d+" ["+where+"]",
					fmt.Sprintf("k=%d state height %d", k, st.LastBlockHeight))
				return
			}
		}
	}
	// continue: everybody must commit two more heights; agreement with the reference chain is the C01 monitor
	s.phase = 2
	startMax := uint64(0)
	for _, n := range s.liveNodes() {
		if h := s.heightOf(n); h > startMax {
			startMax = h
		}
	}
	goal := func() bool {
		for _, n := range s.liveNodes() {
			if s.heightOf(n) < startMax+2 {
				return false
			}
		}
		return true
	}
	// a node that forgot what it signed in the interrupted round only shows it when it has to
	// decide again without the proposal: now and then the restarted node gets the round's
	// proposal late (delay, not loss)
	s.holdDst = -1
	if total > 1 && s.tape.Chance(1, 2) {
		s.holdDst = victim
		s.holdUntil = s.now() + time.Duration(c.TimeoutMs*(2+s.tape.Draw(3)))*time.Millisecond
	}
	defer func() { s.holdDst = -1 }()
	s.trace("RESTARTED victim store head %d, state height %d, network max height %d", head, st.LastBlockHeight, startMax)
	s.loop(goal, time.Duration(20*(c.NVal+4))*time.Duration(c.TimeoutMs)*time.Millisecond*8)
	s.trace("CONTINUED goal=%v inconclusive=%v failed=%v", goal(), s.res.Inconclusive, s.failedNow())
	// collect violations of other monitors as C05 where they mean "re-decided differently"
	for i, vio := range s.res.Violations {
		if vio.Property == "C01" && vio.Oracle == "agreement" {
			s.res.Violations[i] = coreViolation("C05", "height-decided-differently", "after restart an already committed height is decided with a different block ["+where+"]", vio.Detail)
		}
		if vio.Property == "C04" && vio.Oracle == "consensus-failure" {
			s.res.Violations = append(s.res.Violations, coreViolation("C05", "consensus-failure-after-restart", "CONSENSUS FAILURE after restart: "+strings.TrimPrefix(vio.Signature, "CONSENSUS FAILURE on a correct node: ")+" ["+where+"]", vio.Detail))
		}
	}
	if len(s.res.Violations) > nViolBefore {
		return
	}
	// oracle 3: no signature after the restart conflicts with one published before the crash
	published := map[string]*kit.SigRecord{}
	for _, r := range ref.sigs {
		tag := fmt.Sprintf("wal-fsync sig:%x", r.Sig)
		for i := 0; i < k; i++ {
			if ref.log[i].Mark == tag {
				published[fmt.Sprintf("%d/%d/%s", r.Height, r.Round, r.Kind)] = r
			}
		}
	}
	var firstKnown *[2]string
	for _, r := range s.reg.All()[sigBefore:] {
		if r.Signer != v.Addr {
			continue
		}
		if p, ok := published[fmt.Sprintf("%d/%d/%s", r.Height, r.Round, r.Kind)]; ok {
			if p.BlockHash != r.BlockHash || p.PartsHash != r.PartsHash || (r.Kind == "proposal" && p.POLRound != r.POLRound) {
				committed := ""
				if r.Height <= durableEnd {
					committed = " for an already committed height"
				}
				what := "a " + r.Kind + committed
				if strings.HasPrefix(where, "node rewound") {
					what = "a vote or proposal"
				}
				whereC := where
				rewound := strings.HasPrefix(where, "node rewound")
				notReplayed := replayErr != "" && replayErrH == r.Height
				if r.Kind == "proposal" && !rewound && !notReplayed {
					// A proposer signs again for a round it had already proposed in: named by call site
					// rather than by crash window (it happens on any restart that replays such a round,
					// a second crash changes nothing about it).
					whereC = "signed after start-up although the replayed consensus log already held the round's proposal"
					for _, rg := range startSigs {
						if r.Seq >= rg[0] && r.Seq < rg[1] {
							whereC = "signed while the consensus log was being replayed at start-up"
						}
					}
				}
				if notReplayed && !rewound {
					// the node started without replaying its consensus log of this very height:
					// whatever it had signed there is forgotten
					whereC += "; the consensus log of that height was not replayed at start-up: " + replayErr
				}
				sig := "after restart the validator signed " + what + " that conflicts with one it had published before the crash [" + whereC + "]"
				det := fmt.Sprintf("k=%d h%d r%d %s: before %s, after %s", k, r.Height, r.Round, r.Kind, short(p.BlockHash), short(r.BlockHash))
				// a listed known finding must not hide a different conflict later in the same restart
				if s.opt.IsKnown != nil && s.opt.IsKnown(coreViolation("C05", "conflicting-signature", sig, det)) {
					if firstKnown == nil {
						firstKnown = &[2]string{sig, det}
					}
					continue
				}
				s.res.Violate("C05", "conflicting-signature", sig, det)
				return
			}
			s.res.Probe("c05-resigned-same-content")
		}
	}
	if firstKnown != nil {
		s.res.Violate("C05", "conflicting-signature", firstKnown[0], firstKnown[1])
		return
	}
	// oracle 5: liveness
	if !goal() && !s.res.Inconclusive {
		var sts []string
		for _, n := range s.liveNodes() {
			rs := rsOf(n)
			sts = append(sts, fmt.Sprintf("node %d h%d r%d %s", n.ID, rs.Height, rs.Round, rs.Step))
		}
		s.res.Violate("C05", "no-progress-after-restart", "the network does not commit again after the restart ["+where+"]", fmt.Sprintf("k=%d %s", k, strings.Join(sts, "; ")))
	}
	s.res.Inconclusive = false
}

func diffStates(a, b cstate.LatestBlockState) string {
	switch {
	case a.LastBlockHeight != b.LastBlockHeight:
		return "last block height"
	case !a.LastBlockID.Equal(b.LastBlockID):
		return "last block id"
	case !a.LastBlockTime.Equal(b.LastBlockTime):
		return "last block time"
	case a.AppHash != b.AppHash:
		return "application hash"
	case a.LastHeightValidatorsChanged != b.LastHeightValidatorsChanged:
		return "last height validators changed"
	}
	for _, p := range []struct {
		n    string
		x, y *types.ValidatorSet
	}{{"validators", a.Validators, b.Validators}, {"next validators", a.NextValidators, b.NextValidators}, {"last validators", a.LastValidators, b.LastValidators}} {
		if (p.x == nil) != (p.y == nil) {
			if p.x == nil && p.y != nil && len(p.y.Validators) == 0 {
				continue
			}
			return p.n + " presence"
		}
		if p.x == nil {
			continue
		}
		if len(p.x.Validators) != len(p.y.Validators) {
			return p.n + " size"
		}
		for i := range p.x.Validators {
			u, w := p.x.Validators[i], p.y.Validators[i]
			if u.Address != w.Address || u.VotingPower != w.VotingPower {
				return p.n + " membership or power"
			}
			if u.ProposerPriority != w.ProposerPriority {
				return p.n + " proposer priorities"
			}
		}
		if p.x.GetProposer().Address != p.y.GetProposer().Address {
			return p.n + " proposer"
		}
	}
	return ""
}

func coreViolation(prop, oracle, sig, detail string) core.Violation {
	return core.Violation{Property: prop, Oracle: oracle, Signature: sig, Detail: detail}
}

func synctestWait() { synctest.Wait() }
