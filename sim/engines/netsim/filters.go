package netsim

import (
	"strings"
	"time"
)

// classFilter is a directed fault: for a while, messages of one class
// (proposal / part / prevote / precommit) reach only a chosen subset of nodes.
// This is what makes "a polka seen by some but not by the next proposer" and
// "precommits that reach one node only" frequent instead of vanishingly rare.
type classFilter struct {
	class   string // "Proposal", "Part", "prevote", "precommit"
	allowed map[int]bool
	until   time.Duration
}

func msgClass(desc string) string {
	switch {
	case strings.Contains(desc, "Proposal"):
		return "Proposal"
	case strings.Contains(desc, "Part"):
		return "Part"
	case strings.Contains(desc, "Vote") && strings.Contains(desc, " t1 "):
		return "prevote"
	case strings.Contains(desc, "Vote") && strings.Contains(desc, " t2 "):
		return "precommit"
	}
	return ""
}

func (s *Sim) filtered(m *Msg) bool {
	if len(s.filters) == 0 || s.phase == 2 {
		return false
	}
	cl := msgClass(m.Desc)
	if cl == "" {
		return false
	}
	now := s.now()
	for _, f := range s.filters {
		if now < f.until && f.class == cl && !f.allowed[m.Dst] {
			return true
		}
	}
	return false
}

// maybeFilter installs a new class filter now and then (tape).
func (s *Sim) maybeFilter() {
	if !s.cfg.Filters || s.phase == 2 {
		return
	}
	// drop expired
	now := s.now()
	k := 0
	for _, f := range s.filters {
		if now < f.until {
			s.filters[k] = f
			k++
		}
	}
	s.filters = s.filters[:k]
	if len(s.filters) >= 2 || !s.tape.Chance(1, 200) {
		return
	}
	live := s.liveNodes()
	if len(live) < 2 {
		return
	}
	f := &classFilter{class: []string{"precommit", "prevote", "Proposal", "Part"}[s.tape.Draw(4)], allowed: map[int]bool{}}
	// allowed subset: one node, or a tape-chosen subset
	if s.tape.Chance(1, 2) {
		f.allowed[live[s.tape.Draw(len(live))].ID] = true
	} else {
		for _, n := range live {
			if s.tape.Chance(1, 2) {
				f.allowed[n.ID] = true
			}
		}
	}
	f.until = now + time.Duration(s.cfg.TimeoutMs*(2+s.tape.Draw(12)))*time.Millisecond
	s.filters = append(s.filters, f)
	s.res.Fault("class-filter:" + f.class)
	s.ah.Add("filter", f.class)
	s.trace("FILTER %s only to %v until %.3fs", f.class, keysOf(f.allowed), f.until.Seconds())
}

func keysOf(m map[int]bool) []int {
	var out []int
	for i := 0; i < 64; i++ {
		if m[i] {
			out = append(out, i)
		}
	}
	return out
}

// maybePartition cuts / heals the network now and then (tape): arbitrary cuts and one-way links.
func (s *Sim) maybePartition() {
	if !s.cfg.Partition || s.phase == 2 {
		return
	}
	now := s.now()
	if s.healAt > 0 && now >= s.healAt {
		for k := range s.cut {
			delete(s.cut, k)
		}
		s.healAt = 0
		s.trace("HEAL")
		s.ah.Add("heal")
	}
	if s.healAt > 0 || !s.tape.Chance(1, 300) {
		return
	}
	n := len(s.nodes)
	if n < 2 {
		return
	}
	side := map[int]bool{}
	for i := 0; i < n; i++ {
		if s.tape.Chance(1, 2) {
			side[i] = true
		}
	}
	oneWay := s.tape.Chance(1, 4)
	for i := 0; i < n; i++ {
		for j := 0; j < n; j++ {
			if i != j && side[i] != side[j] {
				if oneWay && side[i] {
					continue
				}
				s.cut[[2]int{i, j}] = true
			}
		}
	}
	s.healAt = now + time.Duration(s.cfg.TimeoutMs*(1+s.tape.Draw(20)))*time.Millisecond
	s.res.Fault("partition")
	s.ah.Add("partition")
	s.trace("PARTITION side=%v oneway=%v heal at %.3fs", keysOf(side), oneWay, s.healAt.Seconds())
}
