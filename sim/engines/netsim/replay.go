package netsim

import (
	"strings"
	"bytes"
	"encoding/binary"
	"fmt"
	"math/big"
	"sort"

	"verif/sim/kit"

	"github.com/kardiachain/go-kardia/kai/state"
	"github.com/kardiachain/go-kardia/kai/state/cstate"
	"github.com/kardiachain/go-kardia/kvm"
	"github.com/kardiachain/go-kardia/lib/common"
	"github.com/kardiachain/go-kardia/lib/rlp"
	"github.com/kardiachain/go-kardia/mainchain/blockchain"
	stypes "github.com/kardiachain/go-kardia/mainchain/staking/types"
	"github.com/kardiachain/go-kardia/mainchain/tx_pool"
	"github.com/kardiachain/go-kardia/trie"
	"github.com/kardiachain/go-kardia/types"
)

// The replay oracle (C06, C09): at the end of a run the committed chain of the
// most advanced correct node is re-executed from genesis, twice, on fresh
// nodes with other cache configurations, through the real SaveBlock/ApplyBlock
// path. Go randomises map iteration per range statement, so repeated execution
// is a genuine schedule dimension.

func blockInfoRaw(d *kit.Disk, h uint64, hash common.Hash) []byte {
	var hb [8]byte
	binary.BigEndian.PutUint64(hb[:], h)
	k := append(append([]byte("i"), hb[:]...), hash.Bytes()...)
	v, _ := d.RawGet(string(k))
	return v
}

func appHashRaw(d *kit.Disk, h uint64) common.Hash {
	var hb [8]byte
	binary.BigEndian.PutUint64(hb[:], h)
	v, _ := d.RawGet("ah" + string(hb[:]))
	return common.BytesToHash(v)
}

func (s *Sim) newReplayer(id int, kind string) (*kit.Node, error) {
	cfg := s.nodeCfg(0)
	cfg.ID = id
	cfg.Key = nil
	cfg.Cache = cacheCfg(kind)
	cfg.Disk = kit.NewDisk()
	cfg.WalDir = ""
	cfg.Epoch = 100 + id
	cfg.Out = func(int, int, byte, []byte) bool { return true }
	return kit.NewNode(cfg)
}

// totalBalance sums every account of the state (trie iteration), after
// IntermediateRoot; it also returns the root.
func totalBalance(st *state.StateDB) (*big.Int, common.Hash, error) {
	// commit a copy so that the trie can be opened by root (nodes land in the trie database's memory)
	cp := st.Copy()
	root, err := cp.Commit(true)
	if err != nil {
		return nil, root, err
	}
	tr, err := st.Database().OpenTrie(root)
	if err != nil {
		return nil, root, err
	}
	sum := new(big.Int)
	it := trie.NewIterator(tr.NodeIterator(nil))
	for it.Next() {
		var acc types.StateAccount
		if err := rlp.DecodeBytes(it.Value, &acc); err != nil {
			return nil, root, err
		}
		sum.Add(sum, acc.Balance)
	}
	return sum, root, it.Err
}

func (s *Sim) replayOracle() {
	live := s.liveNodes()
	if len(live) == 0 {
		return
	}
	sort.Slice(live, func(i, j int) bool { return live[i].BOper.Height() > live[j].BOper.Height() })
	x := live[0]
	H := x.BOper.Height()
	if H == 0 {
		return
	}
	kinds := []string{"archive", "snap"}
	if s.cfg.CacheKinds[x.ID] == "archive" {
		kinds[0] = "tiny-cache"
	}
	var roots [2][]common.Hash
	for ri, kind := range kinds {
		r, err := s.newReplayer(200+ri, kind)
		if err != nil {
			s.res.Infra = "replayer: " + err.Error()
			return
		}
		st := r.InitialS
		r.Exec.SetEventBus(r.Bus)
		for h := uint64(1); h <= H; h++ {
			block := x.BOper.LoadBlock(h)
			meta := x.BOper.LoadBlockMeta(h)
			commit := x.BOper.LoadSeenCommit(h)
			if block == nil || meta == nil || commit == nil {
				break
			}
			if ri == 0 && len(block.Transactions()) > 0 {
				s.checkTxAccounting(r, block)
				if s.failedNow() {
					s.stopNode(r)
					return
				}
			}
			var err error
			func() {
				defer func() {
					if p := recover(); p != nil {
						err = fmt.Errorf("panic: %v", p)
					}
				}()
				r.BOper.SaveBlock(block, block.MakePartSet(types.BlockPartSizeBytes), commit)
				st, _, err = r.Exec.ApplyBlock(st, meta.BlockID, block)
			}()
			if err != nil {
				if strings.Contains(strings.ToLower(err.Error()), "evidence") {
					// the same block, the same evidence, another moment of verification: real evidence
					// must be accepted by every correct node (C19), whenever it looks at it
					allReal := true
					for _, ev := range block.Evidence().Evidence {
						if real, _ := s.mon.evidenceIsReal(ev); !real {
							allReal = false
						}
					}
					if allReal {
						s.res.Violate("C19", "committed-evidence-refused-on-replay", "a correct node validating a committed block later than the validators did refuses the real evidence in it: "+sanitizeSig(firstLine(err.Error())),
							fmt.Sprintf("height %d (%s cache): %v", h, kind, err))
					}
				}
				s.res.Violate("C06", "replay-rejects-committed-block", "a fresh node re-executing the committed chain rejects a block every validator accepted: "+sanitizeSig(firstLine(err.Error())),
					fmt.Sprintf("height %d (%s cache): %v", h, kind, err))
				s.stopNode(r)
				return
			}
			roots[ri] = append(roots[ri], st.AppHash)
			s.res.Probe("c06-block-re-executed")
			// against the validators' own results
			if want := appHashRaw(s.disks[x.ID], h); want != st.AppHash {
				s.res.Violate("C06", "app-hash-differs-on-replay", "re-executing a committed block on a fresh node gives a different application hash",
					fmt.Sprintf("height %d: node %d (%s) has %s, replay (%s) %s; txs %d", h, x.ID, s.cfg.CacheKinds[x.ID], short(want), kind, short(st.AppHash), block.NumTxs()))
				s.stopNode(r)
				return
			}
			a, b := blockInfoRaw(s.disks[x.ID], h, block.Hash()), blockInfoRaw(r.Cfg.Disk, h, block.Hash())
			if !bytes.Equal(a, b) {
				s.res.Violate("C06", "block-info-differs-on-replay", "re-executing a committed block gives different receipts, bloom, gas used or rewards",
					fmt.Sprintf("height %d: %d vs %d bytes of block info", h, len(a), len(b)))
				s.stopNode(r)
				return
			}
			if ref, ok := s.mon.c03.stateAt[x.ID][h+1]; ok {
				if d := diffStates(ref, st); d != "" {
					s.res.Violate("C06", "state-differs-on-replay", "re-executing a committed block gives a different consensus state: "+d,
						fmt.Sprintf("height %d", h))
					s.stopNode(r)
					return
				}
			}
		}
		s.stopNode(r)
	}
}

// checkTxAccounting: C09. Every transaction of a committed block is executed
// through the public ApplyTransaction on the block's parent state with a shared
// gas pool, exactly in block order; the rules of the property are checked per
// transaction, and the block is compared with the same block without the
// transactions that were rejected before execution.
func (s *Sim) checkTxAccounting(r *kit.Node, block *types.Block) {
	h := block.Height()
	st, err := r.BC.StateAt(h - 1)
	if err != nil {
		return
	}
	hdr := block.Header()
	gp := new(types.GasPool).AddGas(hdr.GasLimit)
	used := new(uint64)
	signer := types.MakeSigner(r.BC.Config(), &hdr.Height)
	var kept []*types.Transaction
	for i, tx := range block.Transactions() {
		from, serr := types.Sender(signer, tx)
		sumBefore, rootBefore, e1 := totalBalance(st)
		if e1 != nil {
			return
		}
		var nonceBefore uint64
		var balBefore, cbBefore *big.Int
		if serr == nil {
			nonceBefore = st.GetNonce(from)
			balBefore = new(big.Int).Set(st.GetBalance(from))
		}
		cbBefore = new(big.Int).Set(st.GetBalance(hdr.ProposerAddress))
		plain := tx.To() != nil && len(st.GetCode(*tx.To())) == 0 && *tx.To() != hdr.ProposerAddress
		gpBefore := gp.Gas()
		st.Prepare(tx.Hash(), hdr.Hash(), i)
		snap := st.Snapshot()
		var receipt *types.Receipt
		var aerr error
		func() {
			defer func() {
				if p := recover(); p != nil {
					aerr = fmt.Errorf("PANIC %v", p)
				}
			}()
			receipt, _, aerr = blockchain.ApplyTransaction(r.BC.Config(), r.Logger, r.BC, gp, st, hdr, tx, used, kvm.Config{})
		}()
		if aerr != nil {
			st.RevertToSnapshot(snap)
			s.res.Probe("c09-tx-rejected-before-execution")
			sumAfter, rootAfter, e2 := totalBalance(st)
			if e2 != nil {
				return
			}
			if rootAfter != rootBefore || sumAfter.Cmp(sumBefore) != 0 {
				s.res.Violate("C09", "rejected-tx-changed-state", "a transaction rejected before execution left a trace in the state: "+sanitizeSig(firstLine(aerr.Error())),
					fmt.Sprintf("height %d tx %d: %v", h, i, aerr))
				return
			}
			if gp.Gas() != gpBefore {
				s.res.Violate("C09", "rejected-tx-consumed-block-gas", "a transaction rejected before execution reduced the block gas pool: "+sanitizeSig(firstLine(aerr.Error())),
					fmt.Sprintf("height %d tx %d (gas limit %d): pool %d -> %d: %v", h, i, tx.Gas(), gpBefore, gp.Gas(), aerr))
				return
			}
			continue
		}
		kept = append(kept, tx)
		s.res.Probe("c09-tx-executed")
		sumAfter, _, e3 := totalBalance(st)
		if e3 != nil {
			return
		}
		if sumAfter.Cmp(sumBefore) != 0 {
			s.res.Violate("C09", "value-not-conserved", "executing a transaction changed the total balance",
				fmt.Sprintf("height %d tx %d: total %v -> %v (delta %v), gas used %d price %v", h, i, sumBefore, sumAfter, new(big.Int).Sub(sumAfter, sumBefore), receipt.GasUsed, tx.GasPrice()))
			return
		}
		if receipt.GasUsed > tx.Gas() {
			s.res.Violate("C09", "gas-above-limit", "gas used exceeds the transaction's gas limit", fmt.Sprintf("height %d tx %d: %d > %d", h, i, receipt.GasUsed, tx.Gas()))
			return
		}
		if gpBefore-gp.Gas() != receipt.GasUsed {
			s.res.Violate("C09", "gas-pool-accounting", "the block gas pool did not decrease by exactly the gas used",
				fmt.Sprintf("height %d tx %d: pool %d -> %d, gas used %d", h, i, gpBefore, gp.Gas(), receipt.GasUsed))
			return
		}
		if serr == nil {
			if st.GetNonce(from) != nonceBefore+1 {
				s.res.Violate("C09", "nonce", "the sender's nonce did not increase by exactly one for an executed transaction",
					fmt.Sprintf("height %d tx %d: %d -> %d", h, i, nonceBefore, st.GetNonce(from)))
				return
			}
			fee := new(big.Int).Mul(new(big.Int).SetUint64(receipt.GasUsed), tx.GasPrice())
			if from != hdr.ProposerAddress {
				// the proposer receives exactly the fee unless the program also paid it
				got := new(big.Int).Sub(st.GetBalance(hdr.ProposerAddress), cbBefore)
				if plain && got.Cmp(fee) != 0 {
					s.res.Violate("C09", "fee-to-proposer", "the proposer did not receive gas used times price for a plain transfer",
						fmt.Sprintf("height %d tx %d: got %v, fee %v", h, i, got, fee))
					return
				}
				if plain && *tx.To() != from {
					paid := new(big.Int).Sub(balBefore, st.GetBalance(from))
					want := new(big.Int).Add(fee, tx.Value())
					if paid.Cmp(want) != 0 {
						s.res.Violate("C09", "sender-pays", "the sender of a plain transfer did not pay exactly value plus gas used times price",
							fmt.Sprintf("height %d tx %d: paid %v, expected %v", h, i, paid, want))
						return
					}
				}
			}
		}
	}
	// "as if it had not been in the block": the same block without the rejected transactions
	if len(kept) < len(block.Transactions()) {
		s.res.Probe("c09-block-with-rejected-txs")
		rootWith, err1 := s.execOnFork(r, block, block.Transactions())
		rootWithout, err2 := s.execOnFork(r, block, kept)
		if err1 == nil && err2 == nil && rootWith != rootWithout {
			s.res.Violate("C09", "rejected-tx-not-neutral", "a block and the same block without its rejected transactions lead to different states",
				fmt.Sprintf("height %d: %d txs (%d rejected): %s vs %s", h, len(block.Transactions()), len(block.Transactions())-len(kept), short(rootWith), short(rootWithout)))
		}
	}
}

// execOnFork executes header+txs through the real CommitAndValidateBlockTxs on a
// fork of the replayer's disk (parent state) and returns the resulting root.
func (s *Sim) execOnFork(r *kit.Node, block *types.Block, txs []*types.Transaction) (root common.Hash, err error) {
	cfg := r.Cfg
	cfg.Disk = r.Cfg.Disk.Fork()
	cfg.ID = r.ID + 50
	cfg.Epoch = r.Cfg.Epoch + 50
	f, err := kit.NewNode(cfg)
	if err != nil {
		return root, err
	}
	defer s.stopNode(f)
	b2 := types.NewBlock(block.Header(), txs, block.LastCommit(), block.Evidence().Evidence, trie.NewStackTrie(nil))
	var byz []stypes.Evidence
	for _, ev := range block.Evidence().Evidence {
		byz = append(byz, ev.VM()...)
	}
	defer func() {
		if p := recover(); p != nil {
			err = fmt.Errorf("panic: %v", p)
		}
	}()
	// the product always saves a block before it applies it
	f.BOper.SaveBlock(b2, b2.MakePartSet(types.BlockPartSizeBytes), &types.Commit{})
	info := cstate.VerifBeginBlockInfo(f.BC.Config(), b2, f.Store)
	_, root, err = f.BOper.CommitAndValidateBlockTxs(b2, info, byz)
	return root, err
}

var _ = tx_pool.ErrIntrinsicGas
