package netsim

import (
	"bytes"
	"fmt"
	"io"
	"runtime"
	"sort"
	"time"

	"github.com/gogo/protobuf/proto"

	"verif/sim/kit"

	"github.com/kardiachain/go-kardia/consensus"
	cstypes "github.com/kardiachain/go-kardia/consensus/types"
	"github.com/kardiachain/go-kardia/kai/state/cstate"
	"github.com/kardiachain/go-kardia/lib/common"
	kcons "github.com/kardiachain/go-kardia/proto/kardiachain/consensus"
	kproto "github.com/kardiachain/go-kardia/proto/kardiachain/types"
	"github.com/kardiachain/go-kardia/types"
)

// ----- registry index (independent notion of "validly signed") -----

type sigTuple struct {
	signer           common.Address
	kind             string
	h                uint64
	r, pol           uint32
	bh, ph           common.Hash
	pt               uint32
	ts               int64
}

func tupleOfVote(v *types.Vote) sigTuple {
	k := "prevote"
	if v.Type == kproto.PrecommitType {
		k = "precommit"
	}
	return sigTuple{signer: v.ValidatorAddress, kind: k, h: v.Height, r: v.Round, bh: v.BlockID.Hash, ph: v.BlockID.PartsHeader.Hash, pt: v.BlockID.PartsHeader.Total, ts: v.Timestamp.UnixNano()}
}

func tupleOfRec(r *kit.SigRecord) sigTuple {
	return sigTuple{signer: r.Signer, kind: r.Kind, h: r.Height, r: r.Round, pol: r.POLRound, bh: r.BlockHash, ph: r.PartsHash, pt: r.PartsTot, ts: r.Timestamp.UnixNano()}
}

type c03state struct {
	regSeen   int
	index     map[sigTuple]*kit.SigRecord // this chain id only
	tally     map[int]map[uint64]map[uint32]map[string]map[string]map[common.Address]bool // node -> h -> r -> kind -> blockKey -> signers
	parts     map[int]map[string]map[int]bool                                             // node -> parts-hash -> indices delivered (genuine)
	valsAt    map[uint64]*types.ValidatorSet
	stateAt   map[int]map[uint64]cstate.LatestBlockState
	signed    map[string]*kit.SigRecord // signer|epoch|h|r|kind -> first record
	precommit map[string]*kit.SigRecord // signer|epoch|h -> latest non-nil precommit
	savedSeen map[int]int
	lastMsg   *Msg
	lastDst   int
	memBefore uint64
	completeChecked map[string]bool
	sigIdx          int
}

func newC03() *c03state {
	return &c03state{index: map[sigTuple]*kit.SigRecord{}, tally: map[int]map[uint64]map[uint32]map[string]map[string]map[common.Address]bool{},
		parts: map[int]map[string]map[int]bool{}, valsAt: map[uint64]*types.ValidatorSet{}, stateAt: map[int]map[uint64]cstate.LatestBlockState{},
		signed: map[string]*kit.SigRecord{}, precommit: map[string]*kit.SigRecord{}, savedSeen: map[int]int{}, completeChecked: map[string]bool{}}
}

func bkey(h common.Hash) string { return string(h[:]) }

func (c *c03state) addTally(node int, h uint64, r uint32, kind string, bh common.Hash, signer common.Address) {
	t := c.tally[node]
	if t == nil {
		t = map[uint64]map[uint32]map[string]map[string]map[common.Address]bool{}
		c.tally[node] = t
	}
	if t[h] == nil {
		t[h] = map[uint32]map[string]map[string]map[common.Address]bool{}
	}
	if t[h][r] == nil {
		t[h][r] = map[string]map[string]map[common.Address]bool{}
	}
	if t[h][r][kind] == nil {
		t[h][r][kind] = map[string]map[common.Address]bool{}
	}
	if t[h][r][kind][bkey(bh)] == nil {
		t[h][r][kind][bkey(bh)] = map[common.Address]bool{}
	}
	t[h][r][kind][bkey(bh)][signer] = true
}

// power returns (sum for block, total) at height h by the independent rule.
func (c *c03state) power(node int, h uint64, r uint32, kind string, bh common.Hash) (int64, int64, bool) {
	vals := c.valsAt[h]
	if vals == nil {
		return 0, 0, false
	}
	var sum int64
	for a := range c.tally[node][h][r][kind][bkey(bh)] {
		if _, v := vals.GetByAddress(a); v != nil {
			sum += v.VotingPower
		}
	}
	var tot int64
	for _, v := range vals.Validators {
		tot += v.VotingPower
	}
	return sum, tot, true
}

// noteDelivery is called right before a message is handed to Receive.
func (m *monitors) noteDelivery(n *kit.Node, msg *Msg) {
	c := m.c03
	c.lastMsg, c.lastDst = msg, n.ID
	if msg.Byz || msg.Src >= len(m.s.nodes) {
		var ms runtime.MemStats
		runtime.ReadMemStats(&ms)
		c.memBefore = ms.TotalAlloc
	} else {
		c.memBefore = 0
	}
	if msg.Ch < 0x21 || msg.Ch > 0x22 {
		return
	}
	var pb kcons.Message
	if proto.Unmarshal(msg.Bytes, &pb) != nil {
		return
	}
	cm, err := consensus.MsgFromProto(&pb)
	if err != nil {
		return
	}
	m.refreshIndex()
	switch mm := cm.(type) {
	case *consensus.VoteMessage:
		v := mm.Vote
		if v == nil {
			return
		}
		if rec, ok := c.index[tupleOfVote(v)]; ok && bytes.Equal(rec.Sig, v.Signature) {
			c.addTally(n.ID, v.Height, v.Round, rec.Kind, v.BlockID.Hash, v.ValidatorAddress)
		}
	case *consensus.BlockPartMessage:
		if mm.Part == nil {
			return
		}
		for _, kb := range m.s.blocksByH[mm.Height] {
			if int(mm.Part.Index) < int(kb.parts.Total()) {
				g := kb.parts.GetPart(int(mm.Part.Index))
				if g != nil && bytes.Equal(g.Bytes, mm.Part.Bytes) {
					ph := bkey(kb.parts.Header().Hash)
					if c.parts[n.ID] == nil {
						c.parts[n.ID] = map[string]map[int]bool{}
					}
					if c.parts[n.ID][ph] == nil {
						c.parts[n.ID][ph] = map[int]bool{}
					}
					c.parts[n.ID][ph][int(mm.Part.Index)] = true
				}
			}
		}
	}
}

func (m *monitors) refreshIndex() {
	c := m.c03
	recs := m.s.reg.All()
	for _, r := range recs[c.regSeen:] {
		if r.ChainID == m.s.spec.ChainID {
			t := tupleOfRec(r)
			if _, ok := c.index[t]; !ok {
				c.index[t] = r
			}
		}
	}
	c.regSeen = len(recs)
}

func (m *monitors) holdsBlock(n *kit.Node, id types.BlockID, h uint64) bool {
	c := m.c03
	got := c.parts[n.ID][bkey(id.PartsHeader.Hash)]
	if len(got) >= int(id.PartsHeader.Total) && id.PartsHeader.Total > 0 {
		return true
	}
	// its own proposal
	for _, r := range m.s.reg.All() {
		if r.Kind == "proposal" && r.Signer == n.Addr && r.Height == h && r.BlockHash == id.Hash {
			return true
		}
	}
	return false
}

// weightedMedian is the prescribed block time: the median of the commit's
// timestamps weighted by voting power.
func weightedMedian(commit *types.Commit, vals *types.ValidatorSet) time.Time {
	type wt struct {
		t time.Time
		w int64
	}
	var ws []wt
	var tot int64
	for _, cs := range commit.Signatures {
		if cs.Absent() {
			continue
		}
		if _, v := vals.GetByAddress(cs.ValidatorAddress); v != nil {
			ws = append(ws, wt{cs.Timestamp, v.VotingPower})
			tot += v.VotingPower
		}
	}
	sort.SliceStable(ws, func(i, j int) bool { return ws[i].t.Before(ws[j].t) })
	med := tot / 2
	for _, x := range ws {
		if med <= x.w {
			return x.t
		}
		med -= x.w
	}
	return time.Time{}
}

// refValidate is the reference block validator of C03 clause 5. It returns the
// broken rule ("" = valid extension of the node's own chain).
func (m *monitors) refValidate(st cstate.LatestBlockState, b *types.Block) string {
	c := m.c03
	h := b.Height()
	want := st.LastBlockHeight + 1
	if st.LastBlockHeight == 0 {
		want = st.InitialHeight
	}
	if h != want {
		return "height"
	}
	hd := b.Header()
	if !hd.LastBlockID.Equal(st.LastBlockID) {
		return "parent id"
	}
	if hd.AppHash != st.AppHash {
		return "application hash"
	}
	if hd.ValidatorsHash != st.Validators.Hash() {
		return "validators hash"
	}
	if hd.NextValidatorsHash != st.NextValidators.Hash() {
		return "next validators hash"
	}
	if !st.Validators.HasAddress(hd.ProposerAddress) {
		return "proposer not a validator"
	}
	lc := b.LastCommit()
	if h == st.InitialHeight {
		if lc == nil || len(lc.Signatures) != 0 {
			return "first block carries commit signatures"
		}
		if !hd.Time.Equal(st.LastBlockTime) {
			return "first block time is not the genesis time"
		}
		return ""
	}
	if lc == nil {
		return "no last commit"
	}
	if lc.Height != h-1 || !lc.BlockID.Equal(st.LastBlockID) || len(lc.Signatures) != st.LastValidators.Size() {
		return "last commit is for another block, height or validator set"
	}
	var sum, tot int64
	for i, cs := range lc.Signatures {
		val := st.LastValidators.Validators[i]
		tot += val.VotingPower
		if cs.Absent() {
			continue
		}
		v := lc.GetVote(uint32(i))
		v.ValidatorAddress = val.Address
		rec, ok := c.index[tupleOfVote(v)]
		if !ok || !bytes.Equal(rec.Sig, cs.Signature) {
			return "last commit carries a signature nobody made"
		}
		if v.BlockID.Equal(lc.BlockID) {
			sum += val.VotingPower
		}
	}
	if !quorumOK(sum, tot) {
		return "last commit below +2/3"
	}
	if !hd.Time.After(st.LastBlockTime) {
		return "time not after parent"
	}
	if !hd.Time.Equal(weightedMedian(lc, st.LastValidators)) {
		return "time is not the weighted median of the last commit"
	}
	return ""
}

// observe captures per-height facts at quiescence.
func (m *monitors) observe(n *kit.Node, rs *cstypes.RoundState) {
	c := m.c03
	if rs.Validators != nil && c.valsAt[rs.Height] == nil {
		c.valsAt[rs.Height] = rs.Validators.Copy()
	}
	if c.stateAt[n.ID] == nil {
		c.stateAt[n.ID] = map[uint64]cstate.LatestBlockState{}
	}
	if _, ok := c.stateAt[n.ID][rs.Height]; !ok {
		st := n.CS.VerifState()
		if st.LastBlockHeight+1 == rs.Height || (st.LastBlockHeight == 0 && st.InitialHeight == rs.Height) {
			c.stateAt[n.ID][rs.Height] = st
		}
	}
}

func (m *monitors) blockByHash(h uint64, bh common.Hash) *knownBlock {
	for _, kb := range m.s.blocksByH[h] {
		if kb.id.Hash == bh {
			return kb
		}
	}
	return nil
}

// checkSignatures evaluates every new signature of a correct node (C03 1-3, 5).
func (m *monitors) checkSignatures() {
	s := m.s
	c := m.c03
	recs := s.reg.All()
	for c.sigSeenIdx() < len(recs) {
		r := recs[c.sigSeenIdx()]
		c.bumpSig() // first: a record is judged once, also when judging it ends in a violation
		if r.Forged || r.ChainID != s.spec.ChainID {
			continue
		}
		var node *kit.Node
		for _, n := range s.nodes {
			if n != nil && n.Addr == r.Signer {
				node = n
			}
		}
		if node == nil {
			continue
		}
		id := node.ID
		// own votes count as received by the node itself
		if r.Kind != "proposal" {
			c.addTally(id, r.Height, r.Round, r.Kind, r.BlockHash, r.Signer)
		}
		// 1. at most one proposal / vote per (h, r, type) within one incarnation
		k := fmt.Sprintf("%x|%d|%d|%d|%s", r.Signer, r.Epoch, r.Height, r.Round, r.Kind)
		if prev, ok := c.signed[k]; ok {
			same := prev.BlockHash == r.BlockHash && prev.PartsHash == r.PartsHash && prev.POLRound == r.POLRound
			sig := "a correct validator signed a second " + r.Kind + " for one height and round"
			if !same {
				sig += " (conflicting)"
			}
			s.res.Violate("C03", "double-sign", sig, fmt.Sprintf("node %d h%d r%d %s: first %s, then %s", id, r.Height, r.Round, r.Kind, short(prev.BlockHash), short(r.BlockHash)))
			return
		}
		c.signed[k] = r
		st, haveSt := c.stateAt[id][r.Height]
		if !haveSt {
			s.res.Probe("c03-state-not-captured")
		}
		pk := fmt.Sprintf("%x|%d|%d", r.Signer, r.Epoch, r.Height)
		switch r.Kind {
		case "precommit":
			if r.BlockHash.IsZero() {
				break
			}
			// 2. only on +2/3 prevotes for that block in that round, holding the validated block
			sum, tot, ok := c.power(id, r.Height, r.Round, "prevote", r.BlockHash)
			if ok && !quorumOK(sum, tot) {
				s.res.Violate("C03", "precommit-without-polka", "a correct validator precommitted a block without having received +2/3 prevotes for it in that round",
					fmt.Sprintf("node %d h%d r%d block %s: valid prevotes delivered for it %d of %d", id, r.Height, r.Round, short(r.BlockHash), sum, tot))
				return
			}
			bid := types.BlockID{Hash: r.BlockHash, PartsHeader: types.PartSetHeader{Total: r.PartsTot, Hash: r.PartsHash}}
			if !m.holdsBlock(node, bid, r.Height) {
				s.res.Violate("C03", "precommit-without-block", "a correct validator precommitted a block it does not hold completely",
					fmt.Sprintf("node %d h%d r%d block %s", id, r.Height, r.Round, short(r.BlockHash)))
				return
			}
			c.precommit[pk] = r
			s.res.Probe("c03-precommit-for-block-checked")
			fallthrough
		case "prevote":
			if r.BlockHash.IsZero() {
				break
			}
			// 3. after precommitting B, no prevote for another block unless a later polka for another value was received
			if r.Kind == "prevote" {
				if pc := c.precommit[pk]; pc != nil && pc.Round < r.Round {
					s.res.Probe("c03-prevote-in-a-round-after-own-precommit-for-a-block")
				}
				if pc := c.precommit[pk]; pc != nil && pc.Round < r.Round && pc.BlockHash != r.BlockHash {
					unlocked := false
					for rr := pc.Round + 1; rr <= r.Round; rr++ {
						for bk := range c.tally[id][r.Height][rr]["prevote"] {
							var bh common.Hash
							copy(bh[:], bk)
							if bh == pc.BlockHash {
								continue
							}
							if sum, tot, ok := c.power(id, r.Height, rr, "prevote", bh); ok && quorumOK(sum, tot) {
								unlocked = true
							}
						}
					}
					if !unlocked {
						s.res.Violate("C03", "prevote-against-lock", "a correct validator prevoted another block after precommitting one, without a later +2/3 prevote set for a different value",
							fmt.Sprintf("node %d h%d: precommitted %s in round %d, prevoted %s in round %d", id, r.Height, short(pc.BlockHash), pc.Round, short(r.BlockHash), r.Round))
						return
					}
					s.res.Probe("c03-unlock-by-later-polka")
				}
			}
			// 5. only valid extensions of its own chain
			if kb := m.blockByHash(r.Height, r.BlockHash); kb != nil && haveSt {
				if why := m.refValidate(st, kb.block); why != "" {
					s.res.Violate("C03", "vote-for-invalid-block", "a correct validator voted for a block that is not a valid extension of its chain: "+why,
						fmt.Sprintf("node %d %s h%d r%d block %s (%s)", id, r.Kind, r.Height, r.Round, short(r.BlockHash), kb.kind))
					return
				}
				s.res.Probe("c03-voted-block-validated")
				if len(kb.block.Evidence().Evidence) > 0 && m.checkVotedEvidence(id, r.Kind, kb) {
					return
				}
			} else if kb == nil {
				s.res.Probe("c03-voted-block-unknown-to-monitor")
			}
		}
	}
}

func (c *c03state) sigSeenIdx() int { return c.sigIdx }
func (c *c03state) bumpSig()        { c.sigIdx++ }

// checkSaved: C03 clause 4 and 5 for committed blocks.
func (m *monitors) checkSaved(n *kit.Node) {
	s := m.s
	c := m.c03
	saved := n.BOper.SavedCopy()
	for _, sb := range saved[c.savedSeen[n.ID]:] {
		r := sb.Commit.Round
		sum, tot, ok := c.power(n.ID, sb.Height, r, "precommit", sb.Hash)
		if ok && !quorumOK(sum, tot) {
			s.res.Violate("C03", "commit-without-quorum", "a correct node committed a block without having received +2/3 precommits for it in one round",
				fmt.Sprintf("node %d h%d block %s round %d: valid precommits delivered %d of %d", n.ID, sb.Height, short(sb.Hash), r, sum, tot))
			return
		}
		if st, ok := c.stateAt[n.ID][sb.Height]; ok {
			if why := m.refValidate(st, sb.Block); why != "" {
				s.res.Violate("C03", "commit-invalid-block", "a correct node committed a block that is not a valid extension of its chain: "+why,
					fmt.Sprintf("node %d h%d block %s", n.ID, sb.Height, short(sb.Hash)))
				return
			}
		}
	}
	c.savedSeen[n.ID] = len(saved)
}

// checkAcceptance: C11 (what a node accepted must have been signed exactly so),
// C13 (a complete part set yields the committed-to bytes) and C18 (allocation) after
// the last delivery.
func (m *monitors) checkAcceptance() {
	s := m.s
	c := m.c03
	msg := c.lastMsg
	c.lastMsg = nil
	if msg == nil || c.lastDst >= len(s.nodes) || s.nodes[c.lastDst] == nil {
		return
	}
	n := s.nodes[c.lastDst]
	if c.memBefore != 0 {
		var ms runtime.MemStats
		runtime.ReadMemStats(&ms)
		if d := ms.TotalAlloc - c.memBefore; d >= 128<<20 && d > uint64(len(msg.Bytes))*4096 {
			s.res.Violate("C18", "allocation", "a peer message made the node allocate out of proportion to its size",
				fmt.Sprintf("node %d <- %s (%d bytes): %d MB allocated while handling it", n.ID, msg.Desc, len(msg.Bytes), d>>20))
			return
		}
	}
	if msg.Ch < 0x21 || msg.Ch > 0x22 {
		return
	}
	var pb kcons.Message
	if proto.Unmarshal(msg.Bytes, &pb) != nil {
		return
	}
	cm, err := consensus.MsgFromProto(&pb)
	if err != nil {
		return
	}
	rs := rsOf(n)
	m.refreshIndex()
	switch mm := cm.(type) {
	case *consensus.VoteMessage:
		v := mm.Vote
		if v == nil || len(v.Signature) == 0 {
			return
		}
		var sets []*types.VoteSet
		if v.Height == rs.Height && rs.Votes != nil {
			if v.Type == kproto.PrevoteType {
				sets = append(sets, rs.Votes.Prevotes(v.Round))
			} else if v.Type == kproto.PrecommitType {
				sets = append(sets, rs.Votes.Precommits(v.Round))
			}
		}
		if v.Height+1 == rs.Height && rs.LastCommit != nil && v.Type == kproto.PrecommitType && rs.LastCommit.GetRound() == v.Round {
			sets = append(sets, rs.LastCommit)
		}
		accepted := false
		for _, vs := range sets {
			if vs == nil || int(v.ValidatorIndex) >= vs.Size() {
				continue
			}
			same := func(ex *types.Vote) bool {
				return ex != nil && ex.ValidatorIndex == v.ValidatorIndex && ex.ValidatorAddress == v.ValidatorAddress && ex.Height == v.Height &&
					ex.Round == v.Round && ex.Type == v.Type && bytes.Equal(ex.Signature, v.Signature) && ex.BlockID.Equal(v.BlockID) && ex.Timestamp.Equal(v.Timestamp)
			}
			if same(vs.GetByIndex(v.ValidatorIndex)) {
				accepted = true
			}
			for _, ex := range vs.VerifVotesForBlock(v.BlockID) {
				if same(ex) {
					accepted = true
				}
			}
		}
		if !accepted {
			return
		}
		s.res.Probe("c11-accepted-vote-checked")
		rec, ok := c.index[tupleOfVote(v)]
		vals := c.valsAt[v.Height]
		addrOK := true
		if vals != nil {
			a, _ := vals.GetByIndex(v.ValidatorIndex)
			addrOK = a == v.ValidatorAddress
		}
		if !ok || !bytes.Equal(rec.Sig, v.Signature) || !addrOK {
			mut := s.forged[sigKey(v.Signature)+fmt.Sprint(v.Height, v.Round, v.Type, v.ValidatorIndex)]
			if mut == "" {
				mut = "content nobody signed"
			}
			s.res.Violate("C11", "forged-vote-accepted", "a vote was accepted although its signer never signed that content: "+mut,
				fmt.Sprintf("node %d accepted %s", n.ID, msg.Desc))
		}
	case *consensus.ProposalMessage:
		p := mm.Proposal
		if p == nil || rs.Proposal == nil || !bytes.Equal(rs.Proposal.Signature, p.Signature) || rs.Proposal.Height != p.Height || rs.Proposal.Round != p.Round ||
			!rs.Proposal.POLBlockID.Equal(p.POLBlockID) || rs.Proposal.POLRound != p.POLRound || !rs.Proposal.Timestamp.Equal(p.Timestamp) {
			return
		}
		s.res.Probe("c11-accepted-proposal-checked")
		prop := rs.Validators.GetProposer().Address
		t := sigTuple{signer: prop, kind: "proposal", h: p.Height, r: p.Round, pol: p.POLRound, bh: p.POLBlockID.Hash, ph: p.POLBlockID.PartsHeader.Hash, pt: p.POLBlockID.PartsHeader.Total, ts: p.Timestamp.UnixNano()}
		rec, ok := c.index[t]
		if !ok || !bytes.Equal(rec.Sig, p.Signature) {
			mut := s.forged[sigKey(p.Signature)+fmt.Sprint("P", p.Height, p.Round)]
			if mut == "" {
				mut = "content the proposer never signed"
			}
			s.res.Violate("C11", "forged-proposal-accepted", "a proposal was accepted although the round's proposer never signed that content: "+mut,
				fmt.Sprintf("node %d accepted %s", n.ID, msg.Desc))
		}
	case *consensus.BlockPartMessage:
		ps := rs.ProposalBlockParts
		if ps == nil || !ps.IsComplete() {
			return
		}
		key := fmt.Sprintf("%d/%x", n.ID, ps.Header().Hash)
		if c.completeChecked[key] {
			return
		}
		c.completeChecked[key] = true
		got, _ := io.ReadAll(ps.GetReader())
		for _, kb := range s.blocksByH[rs.Height] {
			if kb.parts.Header().Equals(ps.Header()) {
				want, _ := io.ReadAll(kb.parts.GetReader())
				s.res.Probe("c13-complete-set-checked")
				if !bytes.Equal(got, want) {
					s.res.Violate("C13", "complete-set-wrong-bytes", "a part set that reports itself complete yields bytes other than those its header commits to",
						fmt.Sprintf("node %d h%d parts %s: %d bytes, expected %d (bogus parts offered to this node: %d)", n.ID, rs.Height, short(ps.Header().Hash), len(got), len(want), s.bogusParts[n.ID]))
				}
			}
		}
	}
}
