package netsim

import (
	"fmt"
	"math/big"

	"verif/sim/kit"

	"github.com/kardiachain/go-kardia/lib/common"
	kcrypto "github.com/kardiachain/go-kardia/lib/crypto"
	"github.com/kardiachain/go-kardia/types"
)

// Workload: client transactions submitted to correct nodes' pools (as an RPC
// client would) and, for Byzantine proposers, arbitrary mixes of valid and
// invalid transactions placed directly into crafted blocks.

var gwei = big.NewInt(1_000_000_000)

func hexb(s string) []byte { return common.Hex2Bytes(s) }

// small programs: init code that returns the runtime
func initCode(runtime string) []byte {
	rt := hexb(runtime)
	hdr := []byte{0x60, byte(len(rt)), 0x80, 0x60, 0x0b, 0x60, 0x00, 0x39, 0x60, 0x00, 0xf3}
	return append(hdr, rt...)
}

var programs = map[string][]byte{
	"store":        initCode("602a60005500"),             // SSTORE(0, 42)
	"revert":       initCode("60006000fd"),               // REVERT
	"selfdestruct": initCode("33ff"),                     // SELFDESTRUCT(CALLER)
	"forward":      initCode("600060006000600034335af100"), // CALL(gas, CALLER, CALLVALUE)
	"loop":         initCode("5b600056"),                 // out of gas
	"ctor-revert":  hexb("60006000fd"),                   // constructor reverts
	"log":          initCode("60006000a000"),             // LOG0
	// CALL(gas, address from calldata, CALLVALUE) then REVERT: touches another account inside a frame that is rolled back
	"touch-revert": initCode("6000600060006000346000355af15060006000fd"),
}

var programNames = []string{"store", "revert", "selfdestruct", "forward", "loop", "ctor-revert", "log", "touch-revert"}

func (s *Sim) signer(n *kit.Node, h uint64) types.Signer {
	return types.MakeSigner(n.BC.Config(), &h)
}

// workloadStep submits at most one client transaction per quiescent point, now and then.
func (s *Sim) workloadStep() {
	if !s.cfg.Txs || s.phase == 2 && s.txSubmitted > 40 {
		return
	}
	if !s.tape.Chance(s.cfg.TxPct, 100) {
		return
	}
	live := s.liveNodes()
	if len(live) == 0 {
		return
	}
	n := live[0]
	// one client account per run: the pool hands pending transactions to the proposer in
	// map order over senders, which would make the blocks of a run unrepeatable
	u := s.txUser
	key := s.spec.UserKeys[u]
	from := kit.AddrOf(key)
	nonce := s.userNonce[u]
	var tx *types.Transaction
	kind := []string{"transfer", "create", "call", "transfer-all-gas", "prefund-next-create", "bulk"}[s.tape.Weighted(5, 3, 3, 1, 1, 1)]
	if s.forceCreate != "" {
		kind = "create"
	}
	switch kind {
	case "transfer", "transfer-all-gas":
		to := kit.AddrOf(s.spec.UserKeys[(u+1+s.tape.Draw(len(s.spec.UserKeys)-1))%len(s.spec.UserKeys)])
		if len(s.followUps) > 0 && s.tape.Chance(1, 2) {
			// money to an address an earlier transaction did something unusual to (a creation on
			// an address that already held money): whoever reads it next must see the same account
			to = s.followUps[s.tape.Draw(len(s.followUps))]
			kind += ":revisit"
		}
		gas := uint64(21000)
		if kind == "transfer-all-gas" || kind == "transfer-all-gas:revisit" {
			gas = 90000
		}
		tx = types.NewTransaction(nonce, to, big.NewInt(int64(1+s.tape.Draw(1000))), gas, gwei, nil)
	case "bulk":
		// a transaction that makes its block span several parts (and its save exceed one write batch's ideal size)
		to := kit.AddrOf(s.spec.UserKeys[(u+1)%len(s.spec.UserKeys)])
		data := make([]byte, []int{60000, 101000, 110000}[s.tape.Draw(3)])
		tx = types.NewTransaction(nonce, to, big.NewInt(1), 21000+4*uint64(len(data))+10000, gwei, data)
	case "prefund-next-create":
		if len(s.followUps) < 8 {
			s.followUps = append(s.followUps, createAddress(from, nonce+1))
		}
		// money sent to the address the sender's next contract creation will get; the creation
		// that follows runs (and, for half of the programs, fails) on an address that already exists
		tx = types.NewTransaction(nonce, createAddress(from, nonce+1), big.NewInt(int64(1+s.tape.Draw(1000))), 21000, gwei, nil)
		s.forceCreate = []string{"ctor-revert", "loop", "store", "selfdestruct"}[s.tape.Draw(4)]
	case "create":
		p := programNames[s.tape.Draw(len(programNames))]
		if s.forceCreate != "" {
			p = s.forceCreate
			if p == "loop" {
				p = "ctor-loop"
			}
			s.forceCreate = ""
		}
		code := programs[p]
		if p == "ctor-loop" {
			code = hexb("5b600056") // the constructor itself runs out of gas
		}
		tx = types.NewContractCreation(nonce, big.NewInt(int64(s.tape.Draw(3))), 200000, gwei, code)
		kind += ":" + p
	case "call":
		if len(s.contracts) == 0 {
			return
		}
		c := s.contracts[s.tape.Draw(len(s.contracts))]
		// calldata: the address of another known contract (read by touch-revert contracts, ignored by the others)
		var data []byte
		if s.tape.Chance(1, 2) {
			o := s.contracts[s.tape.Draw(len(s.contracts))]
			data = common.LeftPadBytes(o.Bytes(), 32)
		}
		gas := uint64(30000 + s.tape.Draw(3)*40000)
		if data != nil {
			gas += 2200
		}
		tx = types.NewTransaction(nonce, c, big.NewInt(int64(s.tape.Draw(5))), gas, gwei, data)
	}
	h := n.BC.CurrentBlock().Height() + 1
	stx, err := types.SignTx(s.signer(n, h), tx, key)
	if err != nil {
		return
	}
	// the client hands the transaction to every correct node (the tx reactor's gossip is not run)
	accepted := false
	for _, ln := range live {
		errs := ln.TxPool.AddRemotes([]*types.Transaction{stx})
		if len(errs) == 0 || errs[0] == nil {
			accepted = true
		}
	}
	if !accepted {
		s.res.Probe("tx-rejected-by-pool")
		return
	}
	s.userNonce[u]++
	s.txSubmitted++
	s.res.Fault("client-tx:" + kind)
	s.ah.Add("tx", kind)
	if tx.To() == nil {
		s.pendingCreates = append(s.pendingCreates, [2]interface{}{from, nonce})
	}
	s.trace("CLIENT tx %s from user %d nonce %d -> all pools", kind, u, nonce)
}

// noteContracts learns the addresses of contracts created by committed transactions.
func (s *Sim) noteContracts(b *types.Block, n *kit.Node) {
	signer := s.signer(n, b.Height())
	for _, tx := range b.Transactions() {
		if tx.To() == nil {
			if from, err := types.Sender(signer, tx); err == nil {
				a := createAddress(from, tx.Nonce())
				known := false
				for _, c := range s.contracts {
					if c == a {
						known = true
					}
				}
				if !known && len(s.contracts) < 16 {
					s.contracts = append(s.contracts, a)
				}
			}
		}
	}
}

var txMixKinds = []string{"valid-transfer", "bad-nonce", "unaffordable-value", "intrinsic-gas-too-low", "gas-above-pool", "valid-create", "valid-transfer-2"}

// byzTxMix builds the transaction list of a Byzantine proposer's block: an
// arbitrary mix of valid and invalid transactions signed by user keys.
func (s *Sim) byzTxMix(target *kit.Node, h uint64, gasLimit uint64) []*types.Transaction {
	st, err := target.BC.State()
	if err != nil {
		return nil
	}
	signer := s.signer(target, h)
	n := 1 + s.tape.Draw(4)
	next := map[int]uint64{}
	var out []*types.Transaction
	desc := ""
	for i := 0; i < n; i++ {
		u := s.tape.Draw(len(s.spec.UserKeys))
		key := s.spec.UserKeys[u]
		from := kit.AddrOf(key)
		if _, ok := next[u]; !ok {
			next[u] = st.GetNonce(from)
		}
		to := kit.AddrOf(s.spec.UserKeys[(u+1)%len(s.spec.UserKeys)])
		kind := txMixKinds[s.tape.Draw(len(txMixKinds))]
		var tx *types.Transaction
		switch kind {
		case "valid-transfer", "valid-transfer-2":
			tx = types.NewTransaction(next[u], to, big.NewInt(7), 21000, gwei, nil)
			next[u]++
		case "bad-nonce":
			tx = types.NewTransaction(next[u]+5, to, big.NewInt(7), 21000, gwei, nil)
		case "unaffordable-value":
			v := new(big.Int).Add(st.GetBalance(from), big.NewInt(1))
			tx = types.NewTransaction(next[u], to, v, 21000, gwei, nil)
		case "intrinsic-gas-too-low":
			tx = types.NewTransaction(next[u], to, big.NewInt(1), 60000, gwei, make([]byte, 1200))
		case "gas-above-pool":
			tx = types.NewTransaction(next[u], to, big.NewInt(1), gasLimit+1, gwei, nil)
		case "valid-create":
			tx = types.NewContractCreation(next[u], big.NewInt(0), 150000, gwei, programs["store"])
			next[u]++
		}
		stx, err := types.SignTx(signer, tx, key)
		if err != nil {
			continue
		}
		out = append(out, stx)
		desc += kind + ","
		s.res.Fault("byz-block-tx:" + kind)
	}
	s.ah.Add("txmix", desc)
	return out
}

func createAddress(from common.Address, nonce uint64) common.Address {
	return cryptoCreateAddress(from, nonce)
}

var _ = fmt.Sprint

func cryptoCreateAddress(from common.Address, nonce uint64) common.Address {
	return kcrypto.CreateAddress(from, nonce)
}
