package netsim

import (
	"bytes"
	"fmt"
	"strings"
	"time"

	"verif/sim/kit"

	cstypes "github.com/kardiachain/go-kardia/consensus/types"
	"github.com/kardiachain/go-kardia/lib/common"
	kproto "github.com/kardiachain/go-kardia/proto/kardiachain/types"
	"github.com/kardiachain/go-kardia/types"
	"github.com/kardiachain/go-kardia/types/evidence"
)

// C19: evidence is accepted exactly for real double-signing, once.

type c19state struct {
	committed   map[common.Hash]int    // evidence hash -> times seen in committed blocks
	commitH     map[common.Hash]uint64 // first height committed at
	savedSeen   map[int]int
	firstSeen   map[common.Hash]time.Duration // real evidence first seen pending at a correct node
	holder      map[common.Hash]int
	evs         map[common.Hash]types.Evidence
	lastEvMsg   []types.Evidence
	lastEvKind  string
	lastEvDst   int
	lastEvSrc   int
	lastPeerRun bool
}

func newC19() *c19state {
	return &c19state{committed: map[common.Hash]int{}, commitH: map[common.Hash]uint64{}, savedSeen: map[int]int{}, firstSeen: map[common.Hash]time.Duration{},
		holder: map[common.Hash]int{}, evs: map[common.Hash]types.Evidence{}}
}

// evidenceIsReal is the reference predicate over the signature registry and the
// chain: two differently-targeted votes for one height, round and type, both
// really signed by one key that belonged to the validator set of that height
// with the stated power.
func (m *monitors) evidenceIsReal(ev types.Evidence) (bool, string) {
	d, ok := ev.(*types.DuplicateVoteEvidence)
	if !ok || d.VoteA == nil || d.VoteB == nil {
		return false, "not duplicate-vote evidence"
	}
	a, b := d.VoteA, d.VoteB
	if a.Height != b.Height || a.Round != b.Round || a.Type != b.Type {
		return false, "votes differ in height, round or type"
	}
	if a.ValidatorAddress != b.ValidatorAddress {
		return false, "votes of two validators"
	}
	if a.BlockID.Equal(b.BlockID) {
		return false, "same block id"
	}
	m.refreshIndex()
	for _, v := range []*types.Vote{a, b} {
		rec, ok := m.c03.index[tupleOfVote(v)]
		if !ok || !bytes.Equal(rec.Sig, v.Signature) {
			return false, "a vote the validator never signed"
		}
	}
	vals := m.c03.valsAt[a.Height]
	if vals == nil {
		return false, "validator set of that height unknown to the monitor"
	}
	_, val := vals.GetByAddress(a.ValidatorAddress)
	if val == nil {
		return false, "not a validator at that height"
	}
	var tot int64
	for _, v := range vals.Validators {
		tot += v.VotingPower
	}
	if val.VotingPower != d.ValidatorPower || tot != d.TotalVotingPower {
		return false, "wrong stated power"
	}
	return true, ""
}

// noteEvidenceDelivery is called before an evidence-channel message is delivered.
func (m *monitors) noteEvidenceDelivery(n *kit.Node, msg *Msg) {
	c := m.c19
	c.lastEvMsg = nil
	evs, err := evidence.VerifDecodeMsg(msg.Bytes)
	if err != nil {
		return
	}
	c.lastEvMsg, c.lastEvDst, c.lastEvSrc, c.lastEvKind = evs, n.ID, msg.Src, msg.Desc
	p := n.Peers[msg.Src]
	c.lastPeerRun = p != nil && p.IsRunning()
}

func (m *monitors) checkEvidence() {
	s := m.s
	c := m.c19
	// (a) what a delivery did
	if evs := c.lastEvMsg; evs != nil && c.lastEvDst < len(s.nodes) && s.nodes[c.lastEvDst] != nil {
		n := s.nodes[c.lastEvDst]
		c.lastEvMsg = nil
		for _, ev := range evs {
			real, why := m.evidenceIsReal(ev)
			pending, committed := n.EvPool.VerifIsPending(ev), n.EvPool.VerifIsCommitted(ev)
			if !real && pending {
				s.res.Violate("C19", "forged-evidence-accepted", "evidence that does not show real double-signing was accepted into the pool: "+why,
					fmt.Sprintf("node %d accepted %s", n.ID, c.lastEvKind))
				return
			}
			fromCorrect := c.lastEvSrc < len(s.nodes) && !s.isByz[c.lastEvSrc]
			demand := (fromCorrect || strings.Contains(c.lastEvKind, "EVIDENCE(real)")) && !strings.Contains(c.lastEvKind, "+corrupt")
			if real && !pending && !committed && !demand {
				s.res.Probe("c19-real-votes-with-altered-envelope-refused")
			}
			if real && !pending && !committed && demand {
				// was it rejected for a reason the property allows (expired, block of that height not yet known)?
				err := n.EvPool.VerifVerify(ev)
				if err == nil {
					continue // e.g. pool ignored it for another benign reason
				}
				st := n.EvPool.State()
				meta := n.BOper.LoadBlockMeta(ev.Height())
				if meta == nil {
					s.res.Probe("c19-real-evidence-before-its-block")
					continue
				}
				p := st.ConsensusParams.Evidence
				if st.LastBlockTime.Sub(meta.Header.Time) > p.MaxAgeDuration && int64(st.LastBlockHeight)-int64(ev.Height()) > p.MaxAgeNumBlocks {
					s.res.Probe("c19-real-evidence-expired")
					continue
				}
				origin := "peer"
				if c.lastEvSrc < len(s.nodes) {
					origin = "a correct node"
				}
				s.res.Violate("C19", "real-evidence-rejected", "evidence of real double-signing offered by "+origin+" was rejected: "+sanitizeSig(firstLine(err.Error())),
					fmt.Sprintf("node %d <- %d %s: %v", n.ID, c.lastEvSrc, c.lastEvKind, err))
				return
			}
			if real && pending {
				s.res.Probe("c19-real-evidence-accepted-from-peer")
			}
			if !real {
				s.res.Probe("c19-forged-evidence-refused")
			}
		}
	}
	// (b) chain: evidence committed at most once; and track what correct nodes hold
	for id, n := range s.nodes {
		if n == nil || s.isByz[id] {
			continue
		}
		saved := n.BOper.SavedCopy()
		for _, sb := range saved[c.savedSeen[id]:] {
			if m.byWhom[sb.Height] != id {
				continue // count each height once (first committer)
			}
			for _, ev := range sb.Block.Evidence().Evidence {
				h := ev.Hash()
				c.committed[h]++
				if c.committed[h] > 1 {
					s.res.Violate("C19", "evidence-committed-twice", "the same evidence was included in the chain twice",
						fmt.Sprintf("evidence %s at heights %d and %d", short(h), c.commitH[h], sb.Height))
					return
				}
				c.commitH[h] = sb.Height
				s.res.Probe("c19-evidence-committed")
				if real, why := m.evidenceIsReal(ev); !real {
					s.res.Violate("C19", "forged-evidence-committed", "evidence that does not show real double-signing was committed: "+why,
						fmt.Sprintf("height %d evidence %s", sb.Height, short(h)))
					return
				}
			}
		}
		c.savedSeen[id] = len(saved)
		if n.Stopped {
			continue
		}
		pend, _ := n.EvPool.PendingEvidence(1 << 20)
		for _, ev := range pend {
			h := ev.Hash()
			if _, ok := c.firstSeen[h]; !ok {
				if real, why := m.evidenceIsReal(ev); real {
					c.firstSeen[h] = s.now()
					c.holder[h] = id
					c.evs[h] = ev
					s.res.Probe("c19-real-evidence-pending-at-correct-node")
					s.trace("EVIDENCE %s pending at node %d (h%d)", short(h), id, ev.Height())
				} else {
					s.res.Violate("C19", "forged-evidence-accepted", "evidence that does not show real double-signing is pending in a correct node's pool: "+why,
						fmt.Sprintf("node %d evidence %s", id, short(h)))
					return
				}
			}
		}
	}
}

// evidenceOutstanding lists real evidence seen pending before `before` and not yet committed.
func (m *monitors) evidenceOutstanding(before time.Duration) []common.Hash {
	var out []common.Hash
	for h, t := range m.c19.firstSeen {
		if t <= before && m.c19.committed[h] == 0 {
			out = append(out, h)
		}
	}
	return out
}

// ---------- evidence forger (noise adversary) ----------

var evMutations = []string{"real", "same-block-ids", "different-rounds", "two-validators", "bad-signature", "wrong-power", "wrong-total", "wrong-timestamp", "not-a-validator", "different-types"}

// forgeEvidence offers the target real evidence (with the right block time) or one
// single mutation of it through the evidence reactor.
func (s *Sim) forgeEvidence(dst int, rs *cstypes.RoundState) {
	// find a real equivocation pair in the registry
	recs := s.reg.All()
	type key struct {
		a    common.Address
		h    uint64
		r    uint32
		kind string
	}
	first := map[key]*kit.SigRecord{}
	var pa, pb *kit.SigRecord
	for _, r := range recs {
		if r.Kind == "proposal" || r.ChainID != s.spec.ChainID || r.Height >= rs.Height {
			continue
		}
		k := key{r.Signer, r.Height, r.Round, r.Kind}
		if f, ok := first[k]; ok {
			if f.BlockHash != r.BlockHash && pa == nil {
				pa, pb = f, r
			}
		} else {
			first[k] = r
		}
	}
	if pa == nil {
		return
	}
	n := s.nodes[dst]
	vals := s.mon.c03.valsAt[pa.Height]
	meta := n.BOper.LoadBlockMeta(pa.Height)
	if vals == nil || meta == nil {
		return
	}
	mk := func(r *kit.SigRecord) *types.Vote {
		idx, _ := vals.GetByAddress(r.Signer)
		t := kproto.PrevoteType
		if r.Kind == "precommit" {
			t = kproto.PrecommitType
		}
		return &types.Vote{ValidatorAddress: r.Signer, ValidatorIndex: uint32(idx), Height: r.Height, Round: r.Round, Timestamp: r.Timestamp, Type: t,
			BlockID: types.BlockID{Hash: r.BlockHash, PartsHeader: types.PartSetHeader{Total: r.PartsTot, Hash: r.PartsHash}}, Signature: append([]byte(nil), r.Sig...)}
	}
	va, vb := mk(pa), mk(pb)
	mut := evMutations[s.tape.Draw(len(evMutations))]
	ts := meta.Header.Time
	switch mut {
	case "same-block-ids":
		vb = mk(pa)
	case "different-rounds", "different-types", "two-validators":
		var o *kit.SigRecord
		for _, r := range recs {
			if r.Kind == "proposal" || r.Height != pa.Height || r.ChainID != s.spec.ChainID {
				continue
			}
			switch mut {
			case "different-rounds":
				if r.Signer == pa.Signer && r.Round != pa.Round && r.Kind == pa.Kind && r.BlockHash != pa.BlockHash {
					o = r
				}
			case "different-types":
				if r.Signer == pa.Signer && r.Round == pa.Round && r.Kind != pa.Kind && r.BlockHash != pa.BlockHash {
					o = r
				}
			case "two-validators":
				if r.Signer != pa.Signer && r.Round == pa.Round && r.Kind == pa.Kind && r.BlockHash != pa.BlockHash {
					o = r
				}
			}
		}
		if o == nil {
			return
		}
		vb = mk(o)
	case "bad-signature":
		vb.Signature[9] ^= 4
	case "wrong-timestamp":
		ts = ts.Add(time.Nanosecond)
	}
	ev := types.NewDuplicateVoteEvidence(va, vb, ts, vals)
	if ev == nil {
		return
	}
	switch mut {
	case "wrong-power":
		ev.ValidatorPower++
	case "wrong-total":
		ev.TotalVotingPower++
	case "not-a-validator":
		out := kit.Key("outsider")
		pv := types.NewDefaultPrivValidator(out)
		for _, v := range []*types.Vote{ev.VoteA, ev.VoteB} {
			v.ValidatorAddress = pv.GetAddress()
			p := v.ToProto()
			_ = pv.SignVote(s.spec.ChainID, p)
			v.Signature = p.Signature
		}
	}
	bz, err := evidence.VerifEncodeMsg([]types.Evidence{ev})
	if err != nil {
		return
	}
	s.res.Fault("evidence-offered:" + mut)
	s.ah.Add("evidence", mut)
	s.inject(dst, 0x38, bz, fmt.Sprintf("EVIDENCE(%s) h%d r%d by %x", mut, va.Height, va.Round, va.ValidatorAddress[:3]))
}

// checkVotedEvidence: C19 inside a proposed block. A correct validator's vote for a block is
// its acceptance of the block's evidence list: every item must show real double-signing, appear
// once, and not be committed already below the block's height.
func (m *monitors) checkVotedEvidence(id int, kind string, kb *knownBlock) bool {
	s := m.s
	c := m.c19
	seen := map[common.Hash]bool{}
	for _, ev := range kb.block.Evidence().Evidence {
		h := ev.Hash()
		if seen[h] {
			s.res.Violate("C19", "duplicate-evidence-in-voted-block", "a correct validator voted for a block that lists the same evidence twice",
				fmt.Sprintf("node %d %s for block %s h%d (%s): evidence %s repeated", id, kind, short(kb.id.Hash), kb.height, kb.kind, short(h)))
			return true
		}
		seen[h] = true
		if real, why := m.evidenceIsReal(ev); !real {
			s.res.Violate("C19", "forged-evidence-in-voted-block", "a correct validator voted for a block carrying evidence that does not show real double-signing: "+why,
				fmt.Sprintf("node %d %s for block %s h%d (%s): evidence %s", id, kind, short(kb.id.Hash), kb.height, kb.kind, short(h)))
			return true
		}
		if c.committed[h] > 0 && c.commitH[h] < kb.height {
			s.res.Violate("C19", "committed-evidence-in-voted-block", "a correct validator voted for a block carrying evidence that is already committed",
				fmt.Sprintf("node %d %s for block %s h%d (%s): evidence %s committed at h%d", id, kind, short(kb.id.Hash), kb.height, kb.kind, short(h), c.commitH[h]))
			return true
		}
		s.res.Probe("c19-evidence-in-voted-block-checked")
	}
	return false
}
