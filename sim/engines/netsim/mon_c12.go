package netsim

import (
	"fmt"
	"math/big"

	"verif/sim/kit"

	cstypes "github.com/kardiachain/go-kardia/consensus/types"
	"github.com/kardiachain/go-kardia/lib/common"
	"github.com/kardiachain/go-kardia/types"
)

// C12 in vivo: the proposer every node assumes for every (height, round) it
// enters equals (a) what every other correct node assumes and (b) the reference
// weighted round-robin run on the validator set the height started with.

type c12state struct {
	seen   map[string]common.Address // "h/r" -> proposer first observed
	byNode map[string]int
	start  map[uint64]*types.ValidatorSet // set as of round 1 of the height (first observation)
}

func newC12() *c12state {
	return &c12state{seen: map[string]common.Address{}, byNode: map[string]int{}, start: map[uint64]*types.ValidatorSet{}}
}

type rval struct {
	addr        common.Address
	power, prio *big.Int
}

// refProposer advances a copy of the set by k rounds with the specified
// algorithm (rescale to the 2*total window, centre on the floor average, add
// power, highest proposes and pays the total; address breaks ties) and returns
// the proposer.
func refProposer(vs *types.ValidatorSet, k int) common.Address {
	if k <= 0 {
		return vs.GetProposer().Address
	}
	var vals []*rval
	total := new(big.Int)
	for _, v := range vs.Validators {
		vals = append(vals, &rval{v.Address, big.NewInt(v.VotingPower), big.NewInt(v.ProposerPriority)})
		total.Add(total, big.NewInt(v.VotingPower))
	}
	// rescale
	mx, mn := new(big.Int).Set(vals[0].prio), new(big.Int).Set(vals[0].prio)
	for _, v := range vals {
		if v.prio.Cmp(mx) > 0 {
			mx.Set(v.prio)
		}
		if v.prio.Cmp(mn) < 0 {
			mn.Set(v.prio)
		}
	}
	diff := new(big.Int).Sub(mx, mn)
	win := new(big.Int).Mul(big.NewInt(2), total)
	if diff.Cmp(win) > 0 {
		ratio := new(big.Int).Add(diff, win)
		ratio.Sub(ratio, big.NewInt(1))
		ratio.Quo(ratio, win)
		for _, v := range vals {
			v.prio.Quo(v.prio, ratio)
		}
	}
	// centre
	sum := new(big.Int)
	for _, v := range vals {
		sum.Add(sum, v.prio)
	}
	avg, mod := new(big.Int), new(big.Int)
	avg.DivMod(sum, big.NewInt(int64(len(vals))), mod)
	for _, v := range vals {
		v.prio.Sub(v.prio, avg)
	}
	var p *rval
	for i := 0; i < k; i++ {
		for _, v := range vals {
			v.prio.Add(v.prio, v.power)
		}
		p = nil
		for _, v := range vals {
			if p == nil || v.prio.Cmp(p.prio) > 0 || (v.prio.Cmp(p.prio) == 0 && string(v.addr[:]) < string(p.addr[:])) {
				p = v
			}
		}
		p.prio.Sub(p.prio, total)
	}
	return p.addr
}

func (m *monitors) checkProposer(n *kit.Node, rs *cstypes.RoundState) {
	c := m.c12
	if rs.Validators == nil || rs.Round == 0 {
		return
	}
	st, ok := m.c03.stateAt[n.ID][rs.Height]
	if !ok {
		return
	}
	if c.start[rs.Height] == nil {
		c.start[rs.Height] = st.Validators.Copy()
	}
	got := rs.Validators.GetProposer().Address
	key := fmt.Sprintf("%d/%d", rs.Height, rs.Round)
	if prev, ok := c.seen[key]; ok {
		if prev != got {
			m.s.res.Violate("C12", "proposer-disagreement", "two correct nodes disagree about the proposer of one height and round",
				fmt.Sprintf("h%d r%d: node %d says %x, node %d says %x", rs.Height, rs.Round, c.byNode[key], prev[:4], n.ID, got[:4]))
		}
		return
	}
	c.seen[key] = got
	c.byNode[key] = n.ID
	want := refProposer(c.start[rs.Height], int(rs.Round)-1)
	m.s.res.Probe("c12-proposer-checked")
	if rs.Round > 1 {
		m.s.res.Probe("c12-proposer-checked-after-round-change")
	}
	if want != got {
		m.s.res.Violate("C12", "proposer-vs-specification", "the proposer a node assumes differs from the specified weighted round-robin",
			fmt.Sprintf("h%d r%d node %d: got %x, specification %x", rs.Height, rs.Round, n.ID, got[:4], want[:4]))
	}
}
