package netsim

import (
	"fmt"
	"time"

	"verif/sim/kit"

	cstypes "github.com/kardiachain/go-kardia/consensus/types"
)

// The director is a directed fault: for one height at a time it decides, per
// round, who receives the round's proposal and block parts (everybody, nobody,
// a subset), and it withholds tape-chosen prevotes of early rounds from one
// correct node (the "victim") until that node has locked a block in a later
// round and moved past it. Everything it does is message delay, within the
// fault model of the consensus properties; uniformly random delays reach these
// situations (a nil polka that one node sees only after it locked; a polka
// seen by a minority; a node that enters the commit step without the block)
// far too rarely. It only acts in the adversarial phase.

// msgMeta is the structured description of a consensus message (set by the
// gossip model and the Byzantine senders; zero for reactor-originated sends).
type msgMeta struct {
	H uint64
	R uint32
	T int // 1 prevote, 2 precommit, 3 proposal, 4 block part
	I int // validator index of a vote's signer
}

type roundPlan struct {
	kind    string       // "open", "nobody", "subset"
	allowed map[int]bool // node ids that may receive the round's proposal and parts
}

type director struct {
	height   uint64
	victim   int
	rounds   uint32
	plans    map[uint32]*roundPlan
	hold     map[uint32]map[int]bool // round -> validator indices whose prevotes towards the victim are withheld
	released bool
	eager    bool // release as soon as the victim is locked and past its lock round
	baitUntil uint32 // late-polka plan: the polka-helping Byzantine validators fall silent after this round of the height
	scripted bool // a structured plan: the random faults keep quiet for this height so that the plan plays out
	// holdOthers: round -> validator indices whose prevotes are withheld from every node BUT the victim
	holdOthers map[uint32]map[int]bool
	// minRelease: the withheld prevotes are not released before the victim has reached this round (relock plan)
	minRelease uint32
	deadline time.Duration
}

// directed reports whether the director withholds m for now.
func (s *Sim) directed(m *Msg) bool {
	d := s.dir
	if d == nil || s.phase == 2 || m.NoFilter || m.Meta.T == 0 || m.Meta.H != d.height {
		return false
	}
	switch m.Meta.T {
	case 3, 4:
		p := d.plans[m.Meta.R]
		if p == nil || p.kind == "open" {
			return false
		}
		if p.kind == "nobody" {
			return true
		}
		return !p.allowed[m.Dst]
	case 1:
		if m.Dst == d.victim && !d.released {
			if hs := d.hold[m.Meta.R]; hs != nil && hs[m.Meta.I] {
				return true
			}
		}
		if m.Dst != d.victim && !d.released {
			if hs := d.holdOthers[m.Meta.R]; hs != nil && hs[m.Meta.I] {
				// a node always has its own vote
				if m.Dst < len(s.nodes) && s.nodes[m.Dst] != nil {
					if rs := rsOf(s.nodes[m.Dst]); rs.Validators != nil {
						if idx, _ := rs.Validators.GetByAddress(s.nodes[m.Dst].Addr); int(idx) == m.Meta.I {
							return false
						}
					}
				}
				return true
			}
		}
	}
	return false
}

// directorStep starts, releases and ends directed heights (at quiescent points).
func (s *Sim) directorStep() {
	if !s.cfg.Director || s.phase == 2 {
		s.dir = nil
		return
	}
	live := s.liveNodes()
	if len(live) < 3 {
		return
	}
	var maxH uint64
	for _, n := range live {
		if h := s.heightOf(n); h > maxH {
			maxH = h
		}
	}
	if d := s.dir; d != nil {
		var vrs *cstypes.RoundState
		if d.victim < len(s.nodes) && s.nodes[d.victim] != nil && !s.nodes[d.victim].Stopped {
			vrs = rsOf(s.nodes[d.victim])
		}
		// withholding is delay, never loss: the director lets go once the victim is past the
		// planned rounds or after a time limit
		if vrs == nil || vrs.Height > d.height || (vrs.Height == d.height && vrs.Round > d.rounds+1) || s.now() > d.deadline {
			s.trace("DIRECTOR ends for h%d", d.height)
			s.dir = nil
		} else if !d.released && vrs.Height == d.height {
			// release the withheld prevotes once the victim has locked a block in a round
			// after a withheld one and has moved on to a later round (tape-chosen moment)
			// (and has left every round it was kept in the dark about: a polka that completes in the
			// node's own round is the ordinary case, one that completes behind it is the rare one)
			maxHeld := uint32(0)
			for r, hs := range d.hold {
				if len(hs) > 0 && r > maxHeld {
					maxHeld = r
				}
			}
			locked := vrs.LockedBlock != nil && vrs.Round > vrs.LockedRound && vrs.Round > maxHeld && vrs.Round >= d.minRelease
			if (locked && (d.eager || s.tape.Chance(1, 3))) || vrs.Round > d.rounds {
				d.released = true
				if locked {
					s.res.Probe("director-released-old-prevotes-to-a-locked-node")
				}
				s.trace("DIRECTOR releases withheld prevotes to node %d (its round %d, locked round %d)", d.victim, vrs.Round, vrs.LockedRound)
			}
		}
		return
	}
	if s.dirNextH > maxH {
		return // already decided about that height
	}
	s.dirNextH = maxH + 1
	if !s.tape.Chance(2, 3) {
		return
	}
	d := &director{height: maxH + 1, plans: map[uint32]*roundPlan{}, hold: map[uint32]map[int]bool{}}
	d.victim = live[s.tape.Draw(len(live))].ID
	d.rounds = uint32(2 + s.tape.Draw(4))
	desc := ""
	fam := s.tape.Draw(6)
	for _, n := range live {
		if s.heightOf(n)+1 < maxH {
			fam = 5 // a scripted plan needs everybody at the start line; a laggard spoils the arithmetic
		}
	}
	if fam != 2 && fam != 5 {
		// a structured plan: the drawn family first, then the others (whichever the run's cast allows)
		type famT struct {
			name string
			f    func(*director, []*kit.Node) string
		}
		fams := []famT{{"minority-lock", s.minorityLockPlan}, {"starve", s.starvePlan}, {"late-polka", s.latePolkaPlan}, {"relock", s.relockPlan}}
		start := map[int]int{0: 0, 1: 0, 3: 1, 4: 2}[fam]
		if fam == 0 {
			start = 3
		}
		for k := 0; k < len(fams); k++ {
			ft := fams[(start+k)%len(fams)]
			nd := &director{height: d.height, victim: d.victim, rounds: d.rounds, plans: map[uint32]*roundPlan{}, hold: map[uint32]map[int]bool{}}
			if pd := ft.f(nd, live); pd != "" {
				nd.scripted = true
				nd.deadline = s.now() + time.Duration(int(nd.rounds+2)*6*s.cfg.TimeoutMs)*time.Millisecond
				s.dir = nd
				s.res.Fault("director-height")
				s.res.Fault("director-" + ft.name + "-plan")
				s.ah.Add("director", ft.name)
				s.trace("DIRECTOR h%d victim node %d:%s", nd.height, nd.victim, pd)
				return
			}
		}
	}
	for r := uint32(1); r <= d.rounds; r++ {
		p := &roundPlan{kind: []string{"open", "nobody", "subset"}[s.tape.Weighted(2, 2, 4)]}
		if p.kind == "subset" {
			p.allowed = map[int]bool{}
			for _, n := range live {
				if s.tape.Chance(1, 2) {
					p.allowed[n.ID] = true
				}
			}
			// Byzantine validators "receive" nothing (they have no node); the victim is in or out by the tape
		}
		d.plans[r] = p
		desc += fmt.Sprintf(" r%d:%s%v", r, p.kind, keysOf(p.allowed))
		if s.tape.Chance(1, 2) {
			hs := map[int]bool{}
			for i := 0; i < s.cfg.NVal; i++ {
				if s.tape.Chance(1, 2) {
					hs[i] = true
				}
			}
			d.hold[r] = hs
			desc += fmt.Sprintf(" hold%v", keysOf(hs))
		}
	}
	d.deadline = s.now() + time.Duration(int(d.rounds+2)*6*s.cfg.TimeoutMs)*time.Millisecond
	s.dir = d
	s.res.Fault("director-height")
	s.ah.Add("director", fmt.Sprint(d.rounds))
	s.trace("DIRECTOR h%d victim node %d:%s", d.height, d.victim, desc)
}

func (s *Sim) directorHold(m *Msg) {
	s.res.Fault("director-withheld")
	if m.Key != "" {
		s.until[m.Key] = s.now() + 40*time.Millisecond
	}
}

// minorityLockPlan is one structured family of plans (the tape picks the members): a first
// round in which nobody gets the proposal, so that every correct node prevotes nil, while the
// victim is shown too few of those prevotes to see the nil polka; a second round whose proposal
// reaches the victim and one partner only, who together hold no more than 2/3 of the power but
// more than 2/3 with the Byzantine validators that help polkas form (lock-bait): the two lock
// and precommit the block, nobody else does, the height goes on; then the withheld first-round
// prevotes are released to the locked victim. Needs a lock-bait validator. Returns "" when no
// pair of correct nodes has the right power.
func (s *Sim) minorityLockPlan(d *director, live []*kit.Node) string {
	var total, bait int64
	for _, st := range s.cfg.Stakes {
		total += st
	}
	for _, b := range s.byz {
		if b.Strat == "lock-bait" && b.ID < len(s.cfg.Stakes) {
			bait += s.cfg.Stakes[b.ID]
		}
	}
	if bait == 0 || len(live) < 3 {
		return ""
	}
	// who proposes in round 2 of that height? A correct proposer votes for its own block, so it has to
	// be one of the two; a Byzantine one has to be a lock-bait validator (its proposals are acceptable)
	var prop2 *kit.Node
	var most *kit.Node
	for _, n := range live {
		if most == nil || s.heightOf(n) > s.heightOf(most) {
			most = n
		}
	}
	if nv := most.CS.VerifState().NextValidators; nv != nil {
		pa := nv.CopyIncrementProposerPriority(1).GetProposer().Address
		found := false
		for _, n := range live {
			if n.Addr == pa {
				prop2, found = n, true
			}
		}
		for _, b := range s.byz {
			if b.Addr == pa {
				if b.Strat != "lock-bait" {
					return ""
				}
				found = true
			}
		}
		if !found {
			return ""
		}
	}
	type pair struct{ v, p *kit.Node }
	var pairs []pair
	for _, v := range live {
		for _, p := range live {
			if v.ID == p.ID || v.ID >= len(s.cfg.Stakes) || p.ID >= len(s.cfg.Stakes) {
				continue
			}
			if prop2 != nil && prop2.ID != v.ID && prop2.ID != p.ID {
				continue
			}
			sum := s.cfg.Stakes[v.ID] + s.cfg.Stakes[p.ID]
			if !quorumOK(sum, total) && quorumOK(sum+bait, total) {
				pairs = append(pairs, pair{v, p})
			}
		}
	}
	if len(pairs) == 0 {
		return ""
	}
	pr := pairs[s.tape.Draw(len(pairs))]
	rs := rsOf(pr.v)
	if rs.Validators == nil {
		return ""
	}
	d.victim = pr.v.ID
	d.rounds = 4
	d.eager = true
	d.plans[1] = &roundPlan{kind: "nobody"}
	d.plans[2] = &roundPlan{kind: "subset", allowed: map[int]bool{pr.v.ID: true, pr.p.ID: true}}
	d.plans[3] = &roundPlan{kind: "open"}
	d.plans[4] = &roundPlan{kind: "open"}
	hold := map[int]bool{}
	for i, val := range rs.Validators.Validators {
		if val.Address != pr.v.Addr && val.Address != pr.p.Addr {
			hold[i] = true
		}
	}
	d.hold[1] = hold
	return fmt.Sprintf(" minority-lock: r1 nobody, prevotes of validators %v withheld from the victim; r2 proposal only to nodes %d and %d", keysOf(hold), pr.v.ID, pr.p.ID)
}

// proposerOf returns, as far as it can be told before the height starts, who proposes in round r
// (1-based) of the height after the most advanced node's: a live correct node, a Byzantine
// validator, or neither (unknown).
func (s *Sim) proposerOf(live []*kit.Node, r uint32) (*kit.Node, *Byz) {
	var most *kit.Node
	for _, n := range live {
		if most == nil || s.heightOf(n) > s.heightOf(most) {
			most = n
		}
	}
	nv := most.CS.VerifState().NextValidators
	if nv == nil {
		return nil, nil
	}
	pa := nv.GetProposer().Address
	if r > 1 {
		pa = nv.CopyIncrementProposerPriority(int64(r) - 1).GetProposer().Address
	}
	for _, n := range live {
		if n.Addr == pa {
			return n, nil
		}
	}
	for _, b := range s.byz {
		if b.Addr == pa {
			return nil, b
		}
	}
	return nil, nil
}

// starvePlan: a round whose proposer is a Byzantine late-proposer; its proposal and parts reach
// everybody but the victim, the others commit, the victim enters the commit step without the
// block (and without a proposal), and the late-proposer sends it a second, different proposal.
// Rounds before that one are for nobody (they fail quickly).
func (s *Sim) starvePlan(d *director, live []*kit.Node) string {
	for r := uint32(1); r <= 3; r++ {
		_, b := s.proposerOf(live, r)
		if b == nil || b.Strat != "late-proposer" {
			continue
		}
		v := live[s.tape.Draw(len(live))]
		d.victim = v.ID
		d.rounds = r + 1
		for q := uint32(1); q < r; q++ {
			d.plans[q] = &roundPlan{kind: "nobody"}
		}
		all := map[int]bool{}
		for _, n := range live {
			if n.ID != v.ID {
				all[n.ID] = true
			}
		}
		d.plans[r] = &roundPlan{kind: "subset", allowed: all}
		d.plans[r+1] = &roundPlan{kind: "open"}
		return fmt.Sprintf(" starve: rounds before %d for nobody, round %d (Byzantine proposer %d) for everybody but the victim", r, r, b.ID)
	}
	return ""
}

// latePolkaPlan: round 1 goes to the victim and one partner only (as in the minority-lock plan,
// but now in the first round, and the polka-helping Byzantine prevote is withheld from the
// partner): the victim alone locks the first block. Round 2 is open: an unlocked proposer
// proposes a second block, everybody else prevotes it, the others lock it - while the victim is
// shown only its partner's prevote. The victim moves on to round 3 still locked on the first
// block and only then receives the rest of the round-2 polka. A correct node unlocks on it (a
// later polka for another value); one that does not stays apart from the others for ever.
func (s *Sim) latePolkaPlan(d *director, live []*kit.Node) string {
	var total, bait int64
	for _, st := range s.cfg.Stakes {
		total += st
	}
	baitAddr := map[string]bool{}
	for _, b := range s.byz {
		if b.Strat == "lock-bait" && b.ID < len(s.cfg.Stakes) {
			bait += s.cfg.Stakes[b.ID]
			baitAddr[string(b.Addr.Bytes())] = true
		}
	}
	if bait == 0 || len(live) < 3 {
		return ""
	}
	p1, b1 := s.proposerOf(live, 1)
	p2, b2 := s.proposerOf(live, 2)
	if (p1 == nil && (b1 == nil || b1.Strat != "lock-bait")) || (p2 == nil && (b2 == nil || b2.Strat != "lock-bait")) {
		return ""
	}
	type pair struct{ v, p *kit.Node }
	var pairs []pair
	for _, v := range live {
		for _, p := range live {
			if v.ID == p.ID || v.ID >= len(s.cfg.Stakes) || p.ID >= len(s.cfg.Stakes) {
				continue
			}
			if p1 != nil && p1.ID != v.ID && p1.ID != p.ID {
				continue // a correct round-1 proposer votes for its own block: it has to be one of the two
			}
			if p2 != nil && p2.ID == v.ID {
				continue // the locked victim would propose its locked block again
			}
			sum := s.cfg.Stakes[v.ID] + s.cfg.Stakes[p.ID]
			if !quorumOK(sum, total) && quorumOK(sum+bait, total) && quorumOK(total-s.cfg.Stakes[v.ID], total) {
				pairs = append(pairs, pair{v, p})
			}
		}
	}
	if len(pairs) == 0 {
		return ""
	}
	pr := pairs[s.tape.Draw(len(pairs))]
	rs := rsOf(pr.v)
	if rs.Validators == nil {
		return ""
	}
	d.victim = pr.v.ID
	d.rounds = 4
	d.eager = true
	d.plans[1] = &roundPlan{kind: "subset", allowed: map[int]bool{pr.v.ID: true, pr.p.ID: true}}
	for r := uint32(2); r <= 4; r++ {
		d.plans[r] = &roundPlan{kind: "open"}
	}
	ho, h2 := map[int]bool{}, map[int]bool{}
	for i, val := range rs.Validators.Validators {
		if baitAddr[string(val.Address.Bytes())] {
			ho[i] = true
		}
		if val.Address != pr.v.Addr && val.Address != pr.p.Addr {
			h2[i] = true
		}
	}
	d.holdOthers = map[uint32]map[int]bool{1: ho}
	d.hold[2] = h2
	d.baitUntil = 2 // afterwards the correct nodes are on their own: 2/3 of them have to agree
	if s.baitSilent == nil {
		s.baitSilent = map[uint64]uint32{}
	}
	s.baitSilent[d.height] = 2 // (for the rest of that height, also once the director has let go)
	return fmt.Sprintf(" late-polka: r1 proposal only to nodes %d and %d, the helping prevotes of validators %v only to the victim; r2 prevotes of validators %v withheld from the victim until it has left round 2", pr.v.ID, pr.p.ID, keysOf(ho), keysOf(h2))
}

// relockPlan: the victim alone locks a first block X in round 1 (as in the late-polka plan). Round 2
// is open and an unlocked proposer proposes a second block Z: the other correct nodes prevote it, but
// the helping Byzantine prevote that would complete the polka for Z is withheld from EVERYBODY, so
// nobody locks Z and the round fails. Round 3 belongs to the victim, which proposes X again; the
// proposal reaches the victim and its partner only and the helping prevote only the victim: the victim
// sees a second polka for X and precommits X again (its lock now dates from round 3), the others
// precommit nil. Only when the victim has reached round 4 is the withheld round-2 prevote released: it
// completes a polka for Z that is OLDER than the victim's latest precommit, and a correct node keeps
// its lock. One whose lock round went stale at the relock gives the lock up and prevotes the next
// proposal.
func (s *Sim) relockPlan(d *director, live []*kit.Node) string {
	var total, bait int64
	for _, st := range s.cfg.Stakes {
		total += st
	}
	baitAddr := map[string]bool{}
	for _, b := range s.byz {
		if b.Strat == "lock-bait" && b.ID < len(s.cfg.Stakes) {
			bait += s.cfg.Stakes[b.ID]
			baitAddr[string(b.Addr.Bytes())] = true
		}
	}
	if bait == 0 || len(live) < 3 {
		return ""
	}
	p1, b1 := s.proposerOf(live, 1)
	p2, b2 := s.proposerOf(live, 2)
	p3, _ := s.proposerOf(live, 3)
	if p3 == nil || p3.ID >= len(s.cfg.Stakes) {
		return "" // the victim itself has to propose in round 3: nobody else holds X as valid block
	}
	if (p1 == nil && (b1 == nil || b1.Strat != "lock-bait")) || (p2 == nil && (b2 == nil || b2.Strat != "lock-bait")) {
		return ""
	}
	if p2 != nil && p2.ID == p3.ID {
		return "" // the locked victim would propose its locked block in round 2 already
	}
	v := p3
	var partners []*kit.Node
	for _, p := range live {
		if p.ID == v.ID || p.ID >= len(s.cfg.Stakes) {
			continue
		}
		if p1 != nil && p1.ID != v.ID && p1.ID != p.ID {
			continue // a correct round-1 proposer votes for its own block: it has to be one of the two
		}
		sum := s.cfg.Stakes[v.ID] + s.cfg.Stakes[p.ID]
		// the two alone are no quorum, with the helper they are; the others with the helper are one
		// (round 2), without it they are not
		if !quorumOK(sum, total) && quorumOK(sum+bait, total) && quorumOK(total-s.cfg.Stakes[v.ID], total) && !quorumOK(total-s.cfg.Stakes[v.ID]-bait, total) {
			partners = append(partners, p)
		}
	}
	if len(partners) == 0 {
		return ""
	}
	pt := partners[s.tape.Draw(len(partners))]
	rs := rsOf(v)
	if rs.Validators == nil {
		return ""
	}
	d.victim = v.ID
	d.rounds = 5
	d.eager = true
	d.minRelease = 4
	d.plans[1] = &roundPlan{kind: "subset", allowed: map[int]bool{v.ID: true, pt.ID: true}}
	d.plans[2] = &roundPlan{kind: "open"}
	d.plans[3] = &roundPlan{kind: "subset", allowed: map[int]bool{v.ID: true, pt.ID: true}}
	d.plans[4] = &roundPlan{kind: "open"}
	d.plans[5] = &roundPlan{kind: "open"}
	ho := map[int]bool{}
	for i, val := range rs.Validators.Validators {
		if baitAddr[string(val.Address.Bytes())] {
			ho[i] = true
		}
	}
	d.holdOthers = map[uint32]map[int]bool{1: ho, 2: ho, 3: ho}
	d.hold[2] = ho
	d.baitUntil = 3
	if s.baitSilent == nil {
		s.baitSilent = map[uint64]uint32{}
	}
	s.baitSilent[d.height] = 3
	return fmt.Sprintf(" relock: r1 and r3 (the victim's own) proposals only to nodes %d and %d, the helping prevotes of validators %v only to the victim; r2 open, the helping prevotes withheld from everybody until the victim has reached round 4", v.ID, pt.ID, keysOf(ho))
}

// calm: a scripted plan is playing for the height this message belongs to; random network
// faults, class filters and partitions leave such messages alone.
func (s *Sim) calm(m *Msg) bool {
	d := s.dir
	return d != nil && d.scripted && s.phase == 1 && (m.Meta.T == 0 || m.Meta.H == d.height)
}
