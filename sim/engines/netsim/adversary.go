package netsim

import (
	"fmt"
	"math/big"
	"sort"
	"time"

	"verif/sim/kit"

	"github.com/kardiachain/go-kardia/consensus"
	cstypes "github.com/kardiachain/go-kardia/consensus/types"
	"github.com/kardiachain/go-kardia/kai/state/cstate"
	"github.com/kardiachain/go-kardia/lib/common"
	kproto "github.com/kardiachain/go-kardia/proto/kardiachain/types"
	"github.com/kardiachain/go-kardia/trie"
	"github.com/kardiachain/go-kardia/types"
)

// Byz is one Byzantine validator: a key held by the adversary. It has no node;
// everything it "says" is crafted here and signed through the recording signer
// (Forged=true), so the registry knows every tuple it ever signed.
type Byz struct {
	ID     int // node id slot (no node behind it)
	Addr   common.Address
	Signer *kit.RecSigner
	Strat  string
	// memo of decisions so the tape is consulted once per (h, r, type, target)
	choice map[string]int
	votes  map[string]*types.Vote // signed votes by (h,r,type,blockKey)
	props  map[string]*byzProposal
}

type byzProposal struct {
	block *types.Block
	parts *types.PartSet
	prop  *types.Proposal
	kind  string
}

// knownBlock is the adversary's / monitors' registry of blocks seen in a run.
type knownBlock struct {
	block  *types.Block
	parts  *types.PartSet
	id     types.BlockID
	height uint64
	byByz  bool
	kind   string // "correct", "byz-valid", "byz-invalid:<rule>"
}

var byzStrategies = []string{"silent", "echo", "nil-voter", "equivocate", "split", "invalid-proposer", "withhold", "tx-mixer", "lock-bait", "late-proposer"}

func (s *Sim) setupByz() {
	for _, id := range s.cfg.ByzIdx {
		k := s.spec.ValKeys[id]
		sg := kit.NewRecSigner(k, s.reg)
		sg.Forged = true
		b := &Byz{ID: id, Addr: kit.AddrOf(k), Signer: sg, choice: map[string]int{}, votes: map[string]*types.Vote{}, props: map[string]*byzProposal{}}
		b.Strat = s.cfg.ByzStrat[len(s.byz)]
		s.byz = append(s.byz, b)
	}
}

func (s *Sim) registerBlock(b *types.Block, ps *types.PartSet, byByz bool, kind string) *knownBlock {
	id := types.BlockID{Hash: b.Hash(), PartsHeader: ps.Header()}
	key := id.Key()
	if kb, ok := s.blocks[key]; ok {
		return kb
	}
	kb := &knownBlock{block: b, parts: ps, id: id, height: b.Height(), byByz: byByz, kind: kind}
	if ne := len(b.Evidence().Evidence); ne > 0 || b.NumTxs() > 0 {
		s.trace("BLOCK %s h%d by %x carries %d evidence, %d txs (%s)", short(id.Hash), b.Height(), b.ProposerAddress().Bytes()[:3], ne, b.NumTxs(), kind)
	}
	s.blocks[key] = kb
	s.blocksByH[b.Height()] = append(s.blocksByH[b.Height()], kb)
	return kb
}

// learnBlocks records complete proposal blocks held by correct nodes.
func (s *Sim) learnBlocks(rss map[int]*cstypes.RoundState) {
	for _, id := range sortedKeys(rss) {
		rs := rss[id]
		if rs.ProposalBlock != nil && rs.ProposalBlockParts != nil && rs.ProposalBlockParts.IsComplete() {
			s.registerBlock(rs.ProposalBlock, rs.ProposalBlockParts, false, "correct")
		}
		if rs.LockedBlock != nil && rs.LockedBlockParts != nil {
			s.registerBlock(rs.LockedBlock, rs.LockedBlockParts, false, "correct")
		}
	}
}

// learnAll registers the complete blocks correct nodes currently hold (both phases).
func (s *Sim) learnAll() {
	rss := map[int]*cstypes.RoundState{}
	for _, n := range s.liveNodes() {
		if !n.Mgr.WaitSync() {
			rss[n.ID] = rsOf(n)
		}
	}
	s.learnBlocks(rss)
	for _, n := range s.liveNodes() {
		saved := n.BOper.SavedCopy()
		for _, sb := range saved[s.learnedSaved[n.ID]:] {
			if s.blockKnown(sb.Height, sb.Hash) {
				continue
			}
			s.registerBlock(sb.Block, sb.Block.MakePartSet(types.BlockPartSizeBytes), false, "correct")
		}
		for _, sb := range saved[s.learnedSaved[n.ID]:] {
			if sb.Block.NumTxs() > 0 {
				s.noteContracts(sb.Block, n)
			}
		}
		s.learnedSaved[n.ID] = len(saved)
	}
}

func (s *Sim) blockKnown(h uint64, bh common.Hash) bool {
	for _, kb := range s.blocksByH[h] {
		if kb.id.Hash == bh {
			return true
		}
	}
	return false
}

func sortedKeys(m map[int]*cstypes.RoundState) []int {
	var ks []int
	for k := range m {
		ks = append(ks, k)
	}
	sort.Ints(ks)
	return ks
}

// byzVote returns (signing once) b's vote for the given block id at (h, r, type).
func (s *Sim) byzVote(b *Byz, vals *types.ValidatorSet, h uint64, r uint32, t kproto.SignedMsgType, id types.BlockID, ts time.Time) *types.Vote {
	key := fmt.Sprintf("%d/%d/%d/%s", h, r, t, id.Key())
	if v, ok := b.votes[key]; ok {
		return v
	}
	idx, _ := vals.GetByAddress(b.Addr)
	if idx < 0 {
		return nil
	}
	v := &types.Vote{ValidatorAddress: b.Addr, ValidatorIndex: uint32(idx), Height: h, Round: r, Timestamp: ts, Type: t, BlockID: id}
	pv := v.ToProto()
	if err := b.Signer.SignVote(s.spec.ChainID, pv); err != nil {
		return nil
	}
	v.Signature = pv.Signature
	b.votes[key] = v
	s.res.Fault("byz-vote-signed")
	return v
}

func (s *Sim) sendRaw(src, dst int, ch byte, msg consensus.Message, key, desc string) bool {
	full := fmt.Sprintf("%d>%d/%s", src, dst, key)
	if t, ok := s.until[full]; ok && s.now() < t {
		return false
	}
	s.schedule(&Msg{Src: src, Dst: dst, Ch: ch, Bytes: consensus.MustEncode(msg), Desc: desc, Key: full, Byz: true, Meta: metaOf(msg)})
	return true
}

// sendFront is a Byzantine sender's message on a fast link: not subject to the
// director or to network faults, delivered before anything else deliverable now.
func (s *Sim) sendFront(src, dst int, ch byte, msg consensus.Message, key, desc string) bool {
	full := fmt.Sprintf("%d>%d/%s", src, dst, key)
	if t, ok := s.until[full]; ok && s.now() < t {
		return false
	}
	s.schedule(&Msg{Src: src, Dst: dst, Ch: ch, Bytes: consensus.MustEncode(msg), Desc: desc, Key: full, Byz: true, Meta: metaOf(msg), NoFilter: true, Front: true})
	s.until[full] = s.now() + time.Hour
	return true
}

// adversaryStep lets Byzantine validators and noise adversaries act at a
// quiescent point.
func (s *Sim) adversaryStep() {
	if s.phase == 2 {
		return // synchronous suffix: Byzantine validators are limited to silence
	}
	live := s.liveNodes()
	rss := map[int]*cstypes.RoundState{}
	for _, n := range live {
		if !n.Mgr.WaitSync() {
			rss[n.ID] = rsOf(n)
		}
	}
	s.learnBlocks(rss)
	for _, b := range s.byz {
		if b.Strat == "silent" {
			continue
		}
		for _, id := range sortedKeys(rss) {
			s.byzAct(b, s.nodes[id], rss[id])
		}
	}
	s.noiseStep(rss)
}

// candidates returns the block ids the adversary may vote for at height h:
// index 0 = nil.
func (s *Sim) candidates(h uint64) []types.BlockID {
	out := []types.BlockID{{}}
	for _, kb := range s.blocksByH[h] {
		out = append(out, kb.id)
	}
	// near-twins of the first known block: same block hash, another part-set header (a distinct
	// block id for every tally, and for evidence, although the block hash is the same)
	if kbs := s.blocksByH[h]; len(kbs) > 0 && s.cfg.IDTwins {
		a := kbs[0].id
		a.PartsHeader.Hash[31] ^= 1
		b := kbs[0].id
		b.PartsHeader.Total++
		out = append(out, a, b)
	}
	return out
}

func (s *Sim) byzAct(b *Byz, target *kit.Node, rs *cstypes.RoundState) {
	if rs.Validators == nil || !rs.Validators.HasAddress(b.Addr) {
		return
	}
	h, r := rs.Height, rs.Round
	if until, ok := s.baitSilent[h]; ok && r > until && b.Strat == "lock-bait" {
		s.byzStalePolka(b, target, rs) // (silent in the current round, still able to complete an old polka)
		return // late-polka plan: the helper has fallen silent for the rest of the height
	}
	// 1. proposals, when the target believes it is b's turn
	if rs.Proposal == nil && rs.Step <= cstypes.RoundStepPropose && rs.Validators.GetProposer().Address == b.Addr {
		s.byzPropose(b, target, rs, false)
	}
	if b.Strat == "late-proposer" && rs.Proposal == nil && rs.Step > cstypes.RoundStepPropose && rs.Validators.GetProposer().Address == b.Addr {
		// a second, different proposal for a node that went through the round without one,
		// at a tape-chosen later step (for instance once it collects the block it saw
		// +2/3 precommits for)
		ck := fmt.Sprintf("late/%d/%d/%d", h, r, target.ID)
		at, ok := b.choice[ck]
		if !ok {
			at = []int{int(cstypes.RoundStepPrevote), int(cstypes.RoundStepPrecommit), int(cstypes.RoundStepCommit)}[s.tape.Weighted(1, 1, 3)]
			b.choice[ck] = at
		}
		if int(rs.Step) >= at {
			s.byzPropose(b, target, rs, true)
		}
	}
	if b.Strat == "lock-bait" {
		s.byzStalePolka(b, target, rs)
	}
	if b.Strat == "withhold" {
		// votes are signed now but released a few rounds later
		if r < 2 {
			return
		}
		r = r - 1
	}
	// 2. votes for the target's round
	for _, t := range []kproto.SignedMsgType{kproto.PrevoteType, kproto.PrecommitType} {
		if t == kproto.PrecommitType && rs.Step < cstypes.RoundStepPrevote {
			continue
		}
		ck := fmt.Sprintf("%d/%d/%d/%d", h, r, t, target.ID)
		ch, ok := b.choice[ck]
		if !ok {
			cands := s.candidates(h)
			switch b.Strat {
			case "nil-voter":
				ch = 0
			case "echo", "withhold", "invalid-proposer", "tx-mixer", "lock-bait", "late-proposer":
				// vote for what the target itself holds as proposal (nil if none)
				ch = 0
				if rs.ProposalBlock != nil {
					for i, c := range cands {
						if c.Hash == rs.ProposalBlock.Hash() {
							ch = i
							break // the genuine id comes before its twins
						}
					}
				}
				if rs.ProposalBlock == nil && rs.Step <= cstypes.RoundStepPropose {
					continue // wait for a proposal before echoing
				}
				if b.Strat == "lock-bait" && t == kproto.PrecommitType {
					ch = 0 // helps polkas form, never helps a commit
				}
			case "equivocate":
				ch = s.tape.Draw(len(cands) + 1)
				if ch == len(cands) {
					ch = -1 // stay silent towards this target
				}
			case "split":
				// two halves of the correct nodes are told different things
				ch = 0
				if len(cands) > 1 {
					ch = 1 + (target.ID % (len(cands) - 1))
					if len(cands) == 2 && target.ID%2 == 1 {
						ch = 0
					}
				}
			}
			b.choice[ck] = ch
		}
		if ch < 0 {
			continue
		}
		cands := s.candidates(h)
		if ch >= len(cands) {
			ch = 0
		}
		v := s.byzVote(b, rs.Validators, h, r, t, cands[ch], time.Now())
		if v == nil {
			continue
		}
		s.sendRaw(b.ID, target.ID, consensus.VoteChannel, &consensus.VoteMessage{Vote: v}, "byz-"+voteKey(v),
			fmt.Sprintf("BYZ%d Vote h%d r%d t%d %s", b.ID, v.Height, v.Round, v.Type, short(v.BlockID.Hash)))
		s.ah.Add("byzvote", b.Strat)
	}
}

// byzStalePolka: towards a node that is locked on a block and has moved past its lock
// round, b signs prevotes for EARLIER rounds (or the lock round) that complete a +2/3
// prevote set for another value there, together with the correct validators' votes the
// node already holds. A correct node must not unlock on that.
func (s *Sim) byzStalePolka(b *Byz, target *kit.Node, rs *cstypes.RoundState) {
	if rs.LockedBlock == nil || rs.Votes == nil || rs.Round <= rs.LockedRound {
		return
	}
	_, bv := rs.Validators.GetByAddress(b.Addr)
	if bv == nil {
		return
	}
	total := rs.Validators.TotalVotingPower()
	lockedHash := rs.LockedBlock.Hash()
	// the round of the lock is the round of the node's latest precommit for a block as the signature
	// log has it, not only what the node itself believes (a lock round that went stale when the node
	// precommitted the same block again would hide exactly the rounds that matter)
	upTo := rs.LockedRound
	if s.mon != nil && s.mon.c03 != nil && target.Signer != nil {
		if pc := s.mon.c03.precommit[fmt.Sprintf("%x|%d|%d", target.Addr, target.Signer.Epoch, rs.Height)]; pc != nil && pc.BlockHash == lockedHash && pc.Round > upTo && pc.Round < rs.Round {
			upTo = pc.Round
			s.res.Probe("byz-stale-polka-looked-behind-a-relock")
		}
	}
	for r := uint32(1); r <= upTo; r++ {
		pv := rs.Votes.Prevotes(r)
		if pv == nil {
			continue
		}
		if _, ok := pv.TwoThirdsMajority(); ok {
			continue
		}
		for _, cand := range s.candidates(rs.Height) {
			if cand.Hash == lockedHash {
				continue
			}
			var sum int64
			if ba := pv.BitArrayByBlockID(cand); ba != nil {
				for i := 0; i < ba.Size(); i++ {
					if ba.GetIndex(i) {
						if _, v := rs.Validators.GetByIndex(uint32(i)); v != nil && v.Address != b.Addr {
							sum += v.VotingPower
						}
					}
				}
			}
			if sum == 0 || quorumOK(sum, total) || !quorumOK(sum+bv.VotingPower, total) {
				continue
			}
			v := s.byzVote(b, rs.Validators, rs.Height, r, kproto.PrevoteType, cand, time.Now())
			if v == nil {
				continue
			}
			if s.sendRaw(b.ID, target.ID, consensus.VoteChannel, &consensus.VoteMessage{Vote: v}, "byz-"+voteKey(v),
				fmt.Sprintf("BYZ%d Vote h%d r%d t%d %s (completes an old-round polka)", b.ID, v.Height, v.Round, v.Type, short(v.BlockID.Hash))) {
				s.res.Fault("byz-stale-polka-completed")
			}
			break
		}
	}
}

var invalidRules = []string{"evidence-twice", "evidence-already-committed", "old-uncommitted-block", "commit-nil-votes-counted", "height+1", "last-block-id", "commit-other-block", "commit-bad-sig", "commit-below-quorum", "app-hash",
	"validators-hash", "next-validators-hash", "time+1ns", "time-not-after-parent", "unknown-proposer", "num-txs", "data-hash", "commit-hash"}

// byzPropose crafts b's proposal for the target's (h, r).
func (s *Sim) byzPropose(b *Byz, target *kit.Node, rs *cstypes.RoundState, late bool) {
	h, r := rs.Height, rs.Round
	variant := 0 // 0 = block A for everybody
	switch b.Strat {
	case "equivocate", "split":
		variant = target.ID % 2
	case "nil-voter":
		return
	}
	if late {
		variant = 1
	}
	key := fmt.Sprintf("%d/%d/%d", h, r, variant)
	bp, ok := b.props[key]
	if !ok {
		st := target.CS.VerifState()
		if st.LastBlockHeight+1 != h {
			return
		}
		rule := ""
		if b.Strat == "invalid-proposer" {
			rule = invalidRules[s.tape.Draw(len(invalidRules))]
		} else if b.Strat != "lock-bait" && b.Strat != "late-proposer" && s.cfg.InvalidHeavy && s.tape.Chance(1, 2) {
			// runs that concentrate on what correct validators vote for: every second Byzantine proposal
			// breaks one validity rule
			rule = invalidRules[s.tape.Draw(len(invalidRules))]
		} else if b.Strat != "lock-bait" && b.Strat != "late-proposer" && s.tape.Chance(1, 3) {
			// whatever its strategy (bar the two whose proposals have to be acceptable), a Byzantine proposer takes the opportunities the run offers: abuse of
			// the evidence list once there is evidence around, a block of an earlier height that the
			// validators had validated but not committed
			var opp []string
			if pend, _ := target.EvPool.PendingEvidence(1 << 20); len(pend) > 0 || len(s.mon.c19.commitH) > 0 {
				opp = append(opp, "evidence-twice", "evidence-already-committed")
			}
			if len(s.oldUncommitted(h)) > 0 {
				opp = append(opp, "old-uncommitted-block", "old-uncommitted-block")
			}
			// ... and any single broken validity rule, now and then
			opp = append(opp, invalidRules[s.tape.Draw(len(invalidRules))], "")
			rule = opp[s.tape.Draw(len(opp))]
		}
		blk := s.craftBlock(b, target, rs, st, variant, rule)
		if blk == nil {
			return
		}
		ps := blk.MakePartSet(types.BlockPartSizeBytes)
		id := types.BlockID{Hash: blk.Hash(), PartsHeader: ps.Header()}
		p := types.NewProposal(h, r, 0, id)
		pp := p.ToProto()
		if err := b.Signer.SignProposal(s.spec.ChainID, pp); err != nil {
			return
		}
		p.Signature = pp.Signature
		kind := "byz-valid"
		if rule != "" {
			kind = "byz-invalid:" + rule
		}
		bp = &byzProposal{block: blk, parts: ps, prop: p, kind: kind}
		b.props[key] = bp
		s.registerBlock(blk, ps, true, kind)
		if rule == "old-uncommitted-block" {
			// known already under its own height: the monitors must also find it under this one
			s.blocksByH[h] = append(s.blocksByH[h], &knownBlock{block: blk, parts: ps, id: id, height: h, byByz: true, kind: kind})
		}
		s.res.Fault("byz-proposal:" + kind)
		s.ah.Add("byzprop", kind)
		s.trace("BYZ%d crafts proposal h%d r%d variant %d %s %s", b.ID, h, r, variant, kind, short(id.Hash))
	}
	p := bp.prop
	if late {
		if s.sendFront(b.ID, target.ID, consensus.DataChannel, &consensus.ProposalMessage{Proposal: p},
			fmt.Sprintf("byzprop/%d/%d/%s", p.Height, p.Round, short(p.POLBlockID.Hash)),
			fmt.Sprintf("BYZ%d Proposal h%d r%d %s (%s, late)", b.ID, p.Height, p.Round, short(p.POLBlockID.Hash), bp.kind)) {
			s.res.Fault("byz-late-second-proposal")
			if rs.Step == cstypes.RoundStepCommit {
				s.res.Probe("second-proposal-to-a-node-in-the-commit-step")
			}
		}
		return // the block itself is never supplied
	}
	s.sendRaw(b.ID, target.ID, consensus.DataChannel, &consensus.ProposalMessage{Proposal: p},
		fmt.Sprintf("byzprop/%d/%d/%s", p.Height, p.Round, short(p.POLBlockID.Hash)),
		fmt.Sprintf("BYZ%d Proposal h%d r%d %s (%s)", b.ID, p.Height, p.Round, short(p.POLBlockID.Hash), bp.kind))
	for i := 0; i < int(bp.parts.Total()); i++ {
		s.sendRaw(b.ID, target.ID, consensus.DataChannel, &consensus.BlockPartMessage{Height: h, Round: r, Part: bp.parts.GetPart(i)},
			fmt.Sprintf("byzpart/%d/%s/%d", h, short(bp.parts.Header().Hash), i),
			fmt.Sprintf("BYZ%d Part h%d #%d/%d %s", b.ID, h, i, bp.parts.Total(), short(bp.parts.Header().Hash)))
	}
}

// craftBlock builds a block on top of the target's state the way
// BlockOperations.CreateProposalBlock does for an empty pool, optionally
// breaking exactly one validity rule.
// oldUncommitted lists blocks of heights below h that correct nodes held complete (and so
// validated) or that a Byzantine proposer made valid, and that were not the ones committed.
func (s *Sim) oldUncommitted(h uint64) []*knownBlock {
	var out []*knownBlock
	for hh := uint64(1); hh < h; hh++ {
		ch, ok := s.mon.committed[hh]
		if !ok {
			continue
		}
		for _, kb := range s.blocksByH[hh] {
			if kb.id.Hash != ch && (kb.kind == "correct" || kb.kind == "byz-valid") {
				out = append(out, kb)
			}
		}
	}
	return out
}

func (s *Sim) craftBlock(b *Byz, target *kit.Node, rs *cstypes.RoundState, st cstate.LatestBlockState, variant int, rule string) *types.Block {
	h := rs.Height
	if rule == "old-uncommitted-block" {
		// re-propose, at this height, a block the validators had validated in a failed round of an earlier one
		c := s.oldUncommitted(h)
		if len(c) == 0 {
			return nil
		}
		return c[s.tape.Draw(len(c))].block
	}
	var commit *types.Commit
	if h == st.InitialHeight {
		commit = types.NewCommit(0, 0, types.BlockID{}, nil)
	} else {
		if rs.LastCommit == nil || !rs.LastCommit.HasTwoThirdsMajority() {
			return nil
		}
		commit = rs.LastCommit.MakeCommit()
	}
	ts := st.LastBlockTime
	if h > st.InitialHeight {
		ts = cstate.MedianTime(commit, st.LastValidators)
	}
	hdr := &types.Header{Height: h, Time: ts, LastBlockID: st.LastBlockID, ProposerAddress: b.Addr,
		ValidatorsHash: st.Validators.Hash(), NextValidatorsHash: st.NextValidators.Hash(), AppHash: st.AppHash, GasLimit: 200000000}
	if variant == 1 {
		// a second, equally valid block: different gas limit (covered by the hash, not by validation)
		hdr.GasLimit = 200000001
	}
	cm := commit
	switch rule {
	case "height+1":
		hdr.Height = h + 1
	case "last-block-id":
		hdr.LastBlockID.Hash[0] ^= 1
	case "commit-other-block":
		if h == st.InitialHeight {
			return nil
		}
		c := *commit
		c.BlockID.Hash[1] ^= 1
		cm = &c
	case "commit-bad-sig":
		if h == st.InitialHeight || len(commit.Signatures) == 0 {
			return nil
		}
		c := *commit
		c.Signatures = append([]types.CommitSig(nil), commit.Signatures...)
		for i := range c.Signatures {
			if !c.Signatures[i].Absent() {
				sg := append([]byte(nil), c.Signatures[i].Signature...)
				sg[5] ^= 0x10
				c.Signatures[i].Signature = sg
				break
			}
		}
		cm = &c
	case "commit-below-quorum":
		if h == st.InitialHeight {
			return nil
		}
		c := *commit
		c.Signatures = append([]types.CommitSig(nil), commit.Signatures...)
		// blank signatures until at most 2/3 remain
		tot := st.LastValidators.TotalVotingPower()
		have := int64(0)
		for i := range c.Signatures {
			if !c.Signatures[i].Absent() {
				have += st.LastValidators.Validators[i].VotingPower
			}
		}
		for i := range c.Signatures {
			if have*3 <= tot*2 {
				break
			}
			if !c.Signatures[i].Absent() {
				have -= st.LastValidators.Validators[i].VotingPower
				c.Signatures[i] = types.NewCommitSigAbsent()
			}
		}
		cm = &c
	case "commit-nil-votes-counted":
		// signatures of +2/3 of the power, but at most 2/3 of it for the block: the rest are
		// this validator's own (genuinely signed) nil precommits
		if h == st.InitialHeight {
			return nil
		}
		c := *commit
		c.Signatures = append([]types.CommitSig(nil), commit.Signatures...)
		tot := st.LastValidators.TotalVotingPower()
		var forBlock int64
		for i := range c.Signatures {
			if c.Signatures[i].ForBlock() {
				forBlock += st.LastValidators.Validators[i].VotingPower
			}
		}
		for i := range c.Signatures {
			val := st.LastValidators.Validators[i]
			if val.Address != b.Addr {
				continue
			}
			if c.Signatures[i].ForBlock() {
				forBlock -= val.VotingPower
			}
			nv := s.byzVote(b, st.LastValidators, h-1, commit.Round, kproto.PrecommitType, types.BlockID{}, st.LastBlockTime)
			if nv == nil {
				return nil
			}
			c.Signatures[i] = types.CommitSig{BlockIDFlag: types.BlockIDFlagNil, ValidatorAddress: b.Addr, Timestamp: nv.Timestamp, Signature: nv.Signature}
		}
		for i := range c.Signatures {
			if forBlock*3 <= tot*2 {
				break
			}
			if c.Signatures[i].ForBlock() {
				forBlock -= st.LastValidators.Validators[i].VotingPower
				c.Signatures[i] = types.NewCommitSigAbsent()
			}
		}
		cm = &c
	case "app-hash":
		hdr.AppHash[3] ^= 1
	case "validators-hash":
		hdr.ValidatorsHash[3] ^= 1
	case "next-validators-hash":
		hdr.NextValidatorsHash[3] ^= 1
	case "time+1ns":
		hdr.Time = hdr.Time.Add(time.Nanosecond)
	case "time-not-after-parent":
		if h == st.InitialHeight {
			return nil
		}
		hdr.Time = st.LastBlockTime
	case "unknown-proposer":
		hdr.ProposerAddress = common.BytesToAddress([]byte("nobody"))
	}
	var txs []*types.Transaction
	if b.Strat == "tx-mixer" && rule == "" {
		if s.tape.Chance(1, 2) {
			hdr.GasLimit = uint64(50000 + s.tape.Draw(6)*30000) // tight block gas limit
		}
		txs = s.byzTxMix(target, h, hdr.GasLimit)
	}
	var evs []types.Evidence
	pend, _ := target.EvPool.PendingEvidence(1 << 20)
	switch rule {
	case "evidence-twice":
		// the same real, uncommitted evidence more than once in one block
		if len(pend) == 0 {
			return nil
		}
		e := pend[s.tape.Draw(len(pend))]
		evs = []types.Evidence{e, e}
		if len(pend) > 1 {
			o := pend[(s.tape.Draw(len(pend)-1)+1)%len(pend)]
			if !o.Hash().Equal(e.Hash()) {
				switch s.tape.Draw(3) {
				case 1:
					evs = []types.Evidence{e, o, e}
				case 2:
					evs = []types.Evidence{o, e, e}
				}
			}
		}
	case "evidence-already-committed":
		c := s.mon.c19
		var hs []string
		byKey := map[string]types.Evidence{}
		for h, n := range c.committed {
			if n > 0 && c.evs[h] != nil {
				hs = append(hs, h.Hex())
				byKey[h.Hex()] = c.evs[h]
			}
		}
		if len(hs) == 0 {
			return nil
		}
		sort.Strings(hs)
		evs = []types.Evidence{byKey[hs[s.tape.Draw(len(hs))]]}
	case "":
		// a valid block may carry the real evidence the target itself holds
		if len(pend) > 0 && s.tape.Chance(1, 2) {
			evs = pend
			if len(evs) > 3 {
				evs = evs[:3]
			}
		}
	}
	blk := types.NewBlock(hdr, txs, cm, evs, trie.NewStackTrie(nil))
	switch rule {
	case "num-txs":
		hh := blk.Header()
		hh.NumTxs = 3
		blk = blk.WithHeaderForVerif(hh)
	case "data-hash":
		hh := blk.Header()
		hh.TxHash[2] ^= 1
		blk = blk.WithHeaderForVerif(hh)
	case "commit-hash":
		hh := blk.Header()
		hh.LastCommitHash[2] ^= 1
		blk = blk.WithHeaderForVerif(hh)
	}
	return blk
}

// quorumOK is the independent +2/3 test used by monitors: 3*sum > 2*total.
func quorumOK(sum, total int64) bool {
	a := new(big.Int).Mul(big.NewInt(3), big.NewInt(sum))
	b := new(big.Int).Mul(big.NewInt(2), big.NewInt(total))
	return a.Cmp(b) > 0
}
