package netsim

// adversaryStep lets Byzantine validators and the garbage sender act at a
// quiescent point. (Filled in by adversary_*.go; no-op until strategies are drawn.)
func (s *Sim) adversaryStep() {}
