package netsim

import (
	"fmt"
	"strings"

	"verif/sim/kit"

	"github.com/kardiachain/go-kardia/lib/common"
)

// monitors holds every oracle evaluated while a run proceeds.
type monitors struct {
	s *Sim
	// C01: first block seen committed per height by any correct node
	committed map[uint64]common.Hash
	byWhom    map[uint64]int
	seenSaved map[int]int // node id -> number of SavedBlock entries already examined
	heights   map[int]uint64
	c01       *c01state
	c03       *c03state
	c19       *c19state
	c12       *c12state
	// afterRestart: votes replayed from the WAL were not delivered by the simulator, so the
	// per-signature obligations of C03 cannot be judged against "messages delivered so far"
	afterRestart bool
}

func newMonitors(s *Sim) *monitors {
	return &monitors{s: s, committed: map[uint64]common.Hash{}, byWhom: map[uint64]int{}, seenSaved: map[int]int{}, heights: map[int]uint64{}, c01: newC01(), c03: newC03(), c19: newC19(), c12: newC12()}
}

func firstLine(s string) string {
	if i := strings.IndexByte(s, '\n'); i >= 0 {
		s = s[:i]
	}
	if len(s) > 160 {
		s = s[:160]
	}
	return s
}

func (m *monitors) receivePanic(n *kit.Node, msg *Msg, r interface{}, stack string) {
	m.s.res.Violate("C18", "receive-panic", "panic escaped Reactor.Receive: "+sanitizeSig(firstLine(fmt.Sprint(r))),
		fmt.Sprintf("node %d <- %d ch %#x %s: %v\n%s", n.ID, msg.Src, msg.Ch, msg.Desc, r, stack))
}

// sanitizeSig strips run-specific values (long hex strings, numbers) from a text
// so that it can serve as a structural signature.
func sanitizeSig(s string) string {
	var b strings.Builder
	i := 0
	for i < len(s) {
		c := s[i]
		isHex := func(c byte) bool { return (c >= '0' && c <= '9') || (c >= 'a' && c <= 'f') || (c >= 'A' && c <= 'F') }
		if isHex(c) {
			j := i
			digits := 0
			for j < len(s) && isHex(s[j]) {
				if s[j] >= '0' && s[j] <= '9' {
					digits++
				}
				j++
			}
			if digits > 0 && (j-i >= 6 || digits == j-i) {
				b.WriteByte('#')
			} else {
				b.WriteString(s[i:j])
			}
			i = j
			continue
		}
		b.WriteByte(c)
		i++
	}
	return b.String()
}

func (m *monitors) afterQuiescence() {
	s := m.s
	m.refreshIndex()
	s.learnAll()
	for id, n := range s.nodes {
		if n == nil || s.isByz[id] || n.Stopped || n.Mgr.WaitSync() {
			continue
		}
		rs := rsOf(n)
		m.observe(n, rs)
		m.checkProposer(n, rs)
	}
	if s.failedNow() {
		return
	}
	m.checkAcceptance()
	if s.failedNow() {
		return
	}
	if !m.afterRestart {
		m.checkSignatures()
		if !s.failedNow() {
			m.checkQuorumLock()
		}
	}
	if s.failedNow() {
		return
	}
	for id, n := range s.nodes {
		if n == nil || s.isByz[id] {
			continue
		}
		// C04/C18: a correct node's consensus routine died
		if !n.Stopped && n.ConsensusDead() {
			f := strings.Join(kit.TakeFailures(), "\n---\n")
			s.res.Violate("C04", "consensus-failure", "CONSENSUS FAILURE on a correct node: "+sanitizeSig(firstLine(f)), fmt.Sprintf("node %d: %s", id, f))
			if lm := m.c03.lastMsg; lm != nil && m.c03.lastDst == id && (lm.Byz || lm.Src >= len(s.nodes)) {
				s.res.Violate("C18", "peer-message-kills-consensus", "a peer message made the consensus routine of a correct node panic: "+sanitizeSig(firstLine(f)),
					fmt.Sprintf("node %d after %s: %s", id, lm.Desc, f))
			}
			n.Stopped = true
			return
		}
		// C01: agreement on everything handed to the block store
		saved := n.BOper.SavedCopy()
		for _, sb := range saved[m.seenSaved[id]:] {
			if prev, ok := m.committed[sb.Height]; ok {
				if prev != sb.Hash {
					s.res.Violate("C01", "agreement", "two correct nodes committed different blocks at one height",
						fmt.Sprintf("height %d: node %d committed %s, node %d committed %s", sb.Height, m.byWhom[sb.Height], prev.Hex(), id, sb.Hash.Hex()))
					return
				}
			} else {
				m.committed[sb.Height] = sb.Hash
				m.byWhom[sb.Height] = id
				s.trace("COMMIT h%d %s first by node %d (round %d)", sb.Height, short(sb.Hash), id, sb.Commit.Round)
				s.ah.Add("commit", fmt.Sprint(sb.Commit.Round))
			}
		}
		m.seenSaved[id] = len(saved)
		if !m.afterRestart {
			m.checkSaved(n)
		}
		if s.failedNow() {
			return
		}
	}
	m.checkEvidence()
}
