package netsim

import (
	"fmt"
	"time"

	"github.com/gogo/protobuf/proto"

	"github.com/kardiachain/go-kardia/consensus"
	cstypes "github.com/kardiachain/go-kardia/consensus/types"
	cmn "github.com/kardiachain/go-kardia/lib/common"
	"github.com/kardiachain/go-kardia/lib/merkle"
	kcons "github.com/kardiachain/go-kardia/proto/kardiachain/consensus"
	kproto "github.com/kardiachain/go-kardia/proto/kardiachain/types"
	"github.com/kardiachain/go-kardia/types"
)

// Noise adversaries are plain peers (no validator key): the forger replays
// genuine signatures with one field changed (C11), the part relabeller offers
// bogus block parts (C13), the garbage sender throws bytes at every reactor
// (C18). They act at quiescent points, at tape-chosen moments, against live
// nodes in whatever state the run has brought them to.

func (s *Sim) noisePeer() int { return len(s.nodes) + 7 }

func (s *Sim) noiseStep(rss map[int]*cstypes.RoundState) {
	c := s.cfg
	if !(c.Forger || c.Garbage || c.Relabel || c.EvForger) || len(rss) == 0 {
		return
	}
	// one noise action per quiescent point at most, and only now and then
	if !s.tape.Chance(c.NoisePct, 100) {
		return
	}
	ids := sortedKeys(rss)
	dst := ids[s.tape.Draw(len(ids))]
	rs := rss[dst]
	var kinds []string
	if c.Forger {
		kinds = append(kinds, "forge-vote", "forge-proposal")
	}
	if c.Relabel {
		kinds = append(kinds, "relabel-part")
	}
	if c.Garbage {
		kinds = append(kinds, "garbage", "mutate-valid")
	}
	if c.EvForger {
		kinds = append(kinds, "evidence")
	}
	switch kinds[s.tape.Draw(len(kinds))] {
	case "evidence":
		s.forgeEvidence(dst, rs)
	case "forge-vote":
		s.forgeVote(dst, rs)
	case "forge-proposal":
		s.forgeProposal(dst, rs)
	case "relabel-part":
		s.relabelPart(dst, rs)
	case "garbage":
		s.garbage(dst)
	case "mutate-valid":
		s.mutateValid(dst, rs)
	}
}

func (s *Sim) inject(dst int, ch byte, b []byte, desc string) {
	s.seq++
	m := &Msg{Src: s.noisePeer(), Dst: dst, Ch: ch, Bytes: b, At: s.now(), Seq: s.seq, Desc: desc, Byz: true}
	s.q.pushMsg(m)
}

var voteMutations = []string{"type", "height+1", "height-1", "round+1", "round-1", "block-hash", "parts-total", "parts-hash", "timestamp+1ns", "other-validator", "other-chain"}

// forgeVote takes a genuinely signed vote (any signer) relevant to the target's
// current height and delivers a single-field mutation of it with the genuine signature.
func (s *Sim) forgeVote(dst int, rs *cstypes.RoundState) {
	recs := s.reg.All()
	var pool []int
	for i, r := range recs {
		if r.Kind != "proposal" && r.ChainID == s.spec.ChainID && (r.Height == rs.Height || r.Height+1 == rs.Height) {
			pool = append(pool, i)
		}
	}
	if len(pool) == 0 || rs.Validators == nil {
		return
	}
	r := recs[pool[s.tape.Draw(len(pool))]]
	idx, _ := rs.Validators.GetByAddress(r.Signer)
	if idx < 0 {
		return
	}
	t := kproto.PrevoteType
	if r.Kind == "precommit" {
		t = kproto.PrecommitType
	}
	v := &types.Vote{ValidatorAddress: r.Signer, ValidatorIndex: uint32(idx), Height: r.Height, Round: r.Round, Timestamp: r.Timestamp, Type: t,
		BlockID: types.BlockID{Hash: r.BlockHash, PartsHeader: types.PartSetHeader{Total: r.PartsTot, Hash: r.PartsHash}}, Signature: append([]byte(nil), r.Sig...)}
	mut := voteMutations[s.tape.Draw(len(voteMutations))]
	switch mut {
	case "type":
		if v.Type == kproto.PrevoteType {
			v.Type = kproto.PrecommitType
		} else {
			v.Type = kproto.PrevoteType
		}
	case "height+1":
		v.Height++
	case "height-1":
		if v.Height <= 1 {
			return
		}
		v.Height--
	case "round+1":
		v.Round++
	case "round-1":
		if v.Round <= 1 {
			return
		}
		v.Round--
	case "block-hash":
		if v.BlockID.Hash.IsZero() {
			// a nil vote relabelled as a vote for a known block
			if kb := s.blocksByH[v.Height]; len(kb) > 0 {
				v.BlockID = kb[0].id
			} else {
				return
			}
		} else {
			v.BlockID.Hash[7] ^= 1
		}
	case "parts-total":
		if v.BlockID.Hash.IsZero() {
			return
		}
		v.BlockID.PartsHeader.Total++
	case "parts-hash":
		if v.BlockID.Hash.IsZero() {
			return
		}
		v.BlockID.PartsHeader.Hash[7] ^= 1
	case "timestamp+1ns":
		v.Timestamp = v.Timestamp.Add(time.Nanosecond)
	case "other-validator":
		n := rs.Validators.Size()
		if n < 2 {
			return
		}
		j := (idx + 1 + s.tape.Draw(n-1)) % n
		a, _ := rs.Validators.GetByIndex(uint32(j))
		v.ValidatorAddress, v.ValidatorIndex = a, uint32(j)
	case "other-chain":
		// the same validator keys also sign on a second chain id. A vote the validator
		// never cast on this chain (a nil vote in a round where it has signed nothing of
		// that type here) is signed there and replayed here.
		tgt := types.Vote{ValidatorAddress: r.Signer, ValidatorIndex: uint32(idx), Height: rs.Height, Round: rs.Round + uint32(s.tape.Draw(2)), Timestamp: time.Now(), Type: t}
		for _, q := range recs {
			if q.Signer == r.Signer && q.Height == tgt.Height && q.Round == tgt.Round && q.Kind == r.Kind && q.ChainID == s.spec.ChainID {
				return // it did sign something of that kind here; pick another moment
			}
		}
		*v = tgt
		pv := v.ToProto()
		pv.Signature = nil
		for _, b := range s.byz {
			if b.Addr == r.Signer {
				_ = b.Signer.DefaultPrivValidator.SignVote(s.spec.ChainID+"-other", pv)
			}
		}
		for _, n := range s.nodes {
			if n != nil && n.Addr == r.Signer && len(pv.Signature) == 0 {
				_ = n.Signer.DefaultPrivValidator.SignVote(s.spec.ChainID+"-other", pv)
			}
		}
		if len(pv.Signature) == 0 {
			return
		}
		v.Signature = pv.Signature
	}
	s.res.Fault("forged-vote:" + mut)
	s.ah.Add("forge", mut)
	s.forged[sigKey(v.Signature)+fmt.Sprint(v.Height, v.Round, v.Type, v.ValidatorIndex)] = mut
	s.inject(dst, consensus.VoteChannel, consensus.MustEncode(&consensus.VoteMessage{Vote: v}),
		fmt.Sprintf("FORGED Vote(%s) h%d r%d t%d i%d %s", mut, v.Height, v.Round, v.Type, v.ValidatorIndex, short(v.BlockID.Hash)))
}

var propMutations = []string{"round", "height", "pol-round", "block-hash", "parts-total", "timestamp+1ns", "as-vote-sig", "other-signer"}

func (s *Sim) forgeProposal(dst int, rs *cstypes.RoundState) {
	recs := s.reg.All()
	var pool []int
	for i, r := range recs {
		if r.Kind == "proposal" && r.Height == rs.Height {
			pool = append(pool, i)
		}
	}
	if len(pool) == 0 {
		return
	}
	r := recs[pool[s.tape.Draw(len(pool))]]
	p := &types.Proposal{Height: r.Height, Round: r.Round, POLRound: r.POLRound, Timestamp: r.Timestamp,
		POLBlockID: types.BlockID{Hash: r.BlockHash, PartsHeader: types.PartSetHeader{Total: r.PartsTot, Hash: r.PartsHash}}, Signature: append([]byte(nil), r.Sig...)}
	mut := propMutations[s.tape.Draw(len(propMutations))]
	switch mut {
	case "round":
		p.Round = rs.Round
		if p.Round == r.Round {
			p.Round++
		}
	case "height":
		p.Height++
	case "pol-round":
		p.POLRound++
	case "block-hash":
		p.POLBlockID.Hash[9] ^= 1
	case "parts-total":
		p.POLBlockID.PartsHeader.Total++
	case "timestamp+1ns":
		p.Timestamp = p.Timestamp.Add(time.Nanosecond)
	case "as-vote-sig":
		// a prevote signature of the proposer for the same block presented as its proposal signature
		found := false
		for _, q := range recs {
			if q.Kind == "prevote" && q.Signer == r.Signer && q.Height == r.Height && q.BlockHash == r.BlockHash {
				p.Signature = append([]byte(nil), q.Sig...)
				p.Round = q.Round
				p.Timestamp = q.Timestamp
				found = true
				break
			}
		}
		if !found {
			return
		}
	case "other-signer":
		// genuine proposal content re-signed by a validator whose turn it is not
		var signer *types.DefaultPrivValidator
		for _, b := range s.byz {
			if b.Addr != r.Signer {
				signer = b.Signer.DefaultPrivValidator
			}
		}
		if signer == nil {
			return
		}
		pp := p.ToProto()
		_ = signer.SignProposal(s.spec.ChainID, pp)
		p.Signature = pp.Signature
	}
	s.res.Fault("forged-proposal:" + mut)
	s.ah.Add("forgep", mut)
	s.forged[sigKey(p.Signature)+fmt.Sprint("P", p.Height, p.Round)] = mut
	s.inject(dst, consensus.DataChannel, consensus.MustEncode(&consensus.ProposalMessage{Proposal: p}),
		fmt.Sprintf("FORGED Proposal(%s) h%d r%d %s", mut, p.Height, p.Round, short(p.POLBlockID.Hash)))
}

func sigKey(b []byte) string {
	if len(b) > 12 {
		b = b[:12]
	}
	return fmt.Sprintf("%x", b)
}

var relabelKinds = []string{"wrong-index", "proof-of-other-leaf", "foreign-block", "wrong-total", "truncated", "extended", "index-out-of-range"}

// relabelPart offers a bogus part for the set the target is assembling.
func (s *Sim) relabelPart(dst int, rs *cstypes.RoundState) {
	tp := rs.ProposalBlockParts
	if tp == nil || tp.IsComplete() {
		return
	}
	var kb *knownBlock
	for _, b := range s.blocksByH[rs.Height] {
		if tp.HasHeader(b.parts.Header()) {
			kb = b
		}
	}
	if kb == nil {
		return
	}
	total := int(kb.parts.Total())
	i := s.tape.Draw(total)
	g := kb.parts.GetPart(i)
	part := &types.Part{Index: g.Index, Bytes: append([]byte(nil), g.Bytes...), Proof: merkle.SimpleProof{Total: g.Proof.Total, Index: g.Proof.Index, LeafHash: g.Proof.LeafHash, Aunts: g.Proof.Aunts}}
	kind := relabelKinds[s.tape.Draw(len(relabelKinds))]
	switch kind {
	case "wrong-index":
		if total < 2 {
			part.Index = 0
			kind = "index-out-of-range"
			part.Index = uint32(total)
		} else {
			part.Index = uint32((i + 1) % total)
		}
	case "proof-of-other-leaf":
		if total < 2 {
			return
		}
		o := kb.parts.GetPart((i + 1) % total)
		part.Proof = o.Proof
	case "foreign-block":
		var other *knownBlock
		for _, b := range s.blocksByH[rs.Height] {
			if b != kb {
				other = b
			}
		}
		if other == nil {
			return
		}
		o := other.parts.GetPart(0)
		part = &types.Part{Index: o.Index, Bytes: o.Bytes, Proof: o.Proof}
	case "wrong-total":
		part.Proof.Total++
	case "truncated":
		if len(part.Bytes) < 2 {
			return
		}
		part.Bytes = part.Bytes[:len(part.Bytes)-1]
	case "extended":
		part.Bytes = append(part.Bytes, 0)
	case "index-out-of-range":
		part.Index = uint32(total + s.tape.Draw(3))
	}
	s.res.Fault("bogus-part:" + kind)
	s.ah.Add("bogus-part", kind)
	s.bogusParts[dst]++
	s.inject(dst, consensus.DataChannel, consensus.MustEncode(&consensus.BlockPartMessage{Height: rs.Height, Round: rs.Round, Part: part}),
		fmt.Sprintf("BOGUS Part(%s) h%d #%d/%d %s", kind, rs.Height, part.Index, total, short(kb.parts.Header().Hash)))
}

var allChannels = []byte{0x20, 0x21, 0x22, 0x23, 0x30, 0x38, 0x40}

func (s *Sim) garbage(dst int) {
	ch := allChannels[s.tape.Draw(len(allChannels))]
	n := []int{0, 1, 2, 8, 40, 200, 2000}[s.tape.Draw(7)]
	b := s.tape.Bytes(n)
	s.res.Fault("garbage")
	s.ah.Add("garbage")
	s.inject(dst, ch, b, fmt.Sprintf("GARBAGE ch%02x len%d", ch, n))
}

// mutateValid sends a structurally valid consensus message with one
// protobuf-structure-aware mutation (nil sub-messages, extreme varints,
// inconsistent bit arrays, truncation).
func (s *Sim) mutateValid(dst int, rs *cstypes.RoundState) {
	var msg consensus.Message
	ch := byte(0x20)
	switch s.tape.Draw(7) {
	case 0:
		msg = &consensus.NewRoundStepMessage{Height: rs.Height, Round: rs.Round, Step: rs.Step, SecondsSinceStartTime: 1, LastCommitRound: 1}
	case 1:
		msg = &consensus.HasVoteMessage{Height: rs.Height, Round: rs.Round, Type: kproto.PrevoteType, Index: 0}
	case 2:
		ba := cmn.NewBitArray(4)
		msg = &consensus.NewValidBlockMessage{Height: rs.Height, Round: rs.Round, BlockPartsHeader: types.PartSetHeader{Total: 4, Hash: cmn.BytesToHash([]byte("x"))}, BlockParts: ba, IsCommit: false}
	case 3:
		msg = &consensus.VoteSetMaj23Message{Height: rs.Height, Round: rs.Round, Type: kproto.PrecommitType, BlockID: types.BlockID{Hash: cmn.BytesToHash([]byte("y")), PartsHeader: types.PartSetHeader{Total: 1, Hash: cmn.BytesToHash([]byte("z"))}}}
	case 4:
		ch = 0x23
		msg = &consensus.VoteSetBitsMessage{Height: rs.Height, Round: rs.Round, Type: kproto.PrevoteType, BlockID: types.BlockID{}, Votes: cmn.NewBitArray(4)}
	case 5:
		ch = 0x21
		msg = &consensus.ProposalPOLMessage{Height: rs.Height, ProposalPOLRound: 1, ProposalPOL: cmn.NewBitArray(4)}
	default:
		ch = 0x21
		if rs.Proposal == nil {
			return
		}
		msg = &consensus.ProposalMessage{Proposal: rs.Proposal}
	}
	if s.tape.Chance(1, 2) {
		// a well-formed announcement first, so that the node's record of this peer is at the
		// node's own height and round when the mutated message arrives
		lcr := uint32(1)
		if rs.Height <= 1 {
			lcr = 0
		}
		pre := &consensus.NewRoundStepMessage{Height: rs.Height, Round: rs.Round, Step: cstypes.RoundStepPropose, SecondsSinceStartTime: 1, LastCommitRound: lcr}
		s.inject(dst, 0x20, consensus.MustEncode(pre), fmt.Sprintf("NOISE NewRoundStep h%d r%d (preamble)", rs.Height, rs.Round))
	}
	pb, err := consensus.MsgToProto(msg)
	if err != nil {
		return
	}
	kind := mutateProto(s, pb)
	b, err := proto.Marshal(pb)
	if err != nil {
		return
	}
	switch s.tape.Draw(4) {
	case 1:
		if len(b) > 0 {
			b = b[:s.tape.Draw(len(b))]
			kind += "+truncate"
		}
	case 2:
		if len(b) > 0 {
			b[s.tape.Draw(len(b))] ^= byte(1 << uint(s.tape.Draw(8)))
			kind += "+bitflip"
		}
	}
	if s.tape.Chance(1, 6) {
		ch = allChannels[s.tape.Draw(len(allChannels))]
		kind += "+wrong-channel"
	}
	s.res.Fault("mutated-message")
	s.ah.Add("mutated", kind)
	s.inject(dst, ch, b, fmt.Sprintf("MUTATED %T (%s) ch%02x", msg, kind, ch))
}

var extremes = []uint64{0, 1, 2, 1 << 31, 1<<32 - 1, 1 << 32, 1<<63 - 1, 1 << 63, 1<<64 - 1}

func mutateProto(s *Sim, pb *kcons.Message) string {
	x := extremes[s.tape.Draw(len(extremes))]
	switch m := pb.Sum.(type) {
	case *kcons.Message_NewRoundStep:
		switch s.tape.Draw(5) {
		case 0:
			m.NewRoundStep.Height = x
			return "height-extreme"
		case 1:
			m.NewRoundStep.Round = uint32(x)
			return "round-extreme"
		case 2:
			m.NewRoundStep.Step = uint32(x)
			return "step-extreme"
		case 3:
			m.NewRoundStep.LastCommitRound = uint32(x)
			return "lcr-extreme"
		default:
			pb.Sum = &kcons.Message_NewRoundStep{}
			return "nil-submessage"
		}
	case *kcons.Message_HasVote:
		switch s.tape.Draw(4) {
		case 0:
			m.HasVote.Index = uint32(x)
			return "index-extreme"
		case 1:
			m.HasVote.Height = x
			return "height-extreme"
		case 2:
			m.HasVote.Type = kproto.SignedMsgType(int32(x))
			return "type-extreme"
		default:
			m.HasVote.Round = uint32(x)
			return "round-extreme"
		}
	case *kcons.Message_NewValidBlock:
		switch s.tape.Draw(4) {
		case 0:
			m.NewValidBlock.BlockParts = nil
			return "nil-bitarray"
		case 1:
			m.NewValidBlock.BlockPartSetHeader.Total = uint32(x)
			return "total-extreme"
		case 2:
			if m.NewValidBlock.BlockParts != nil {
				m.NewValidBlock.BlockParts.Bits = int64(x)
			}
			return "bits-disagree-elems"
		default:
			if m.NewValidBlock.BlockParts != nil {
				m.NewValidBlock.BlockParts.Elems = nil
			}
			return "elems-nil"
		}
	case *kcons.Message_VoteSetMaj23:
		switch s.tape.Draw(3) {
		case 0:
			m.VoteSetMaj23.Type = kproto.SignedMsgType(int32(x))
			return "type-extreme"
		case 1:
			m.VoteSetMaj23.Round = uint32(x)
			return "round-extreme"
		default:
			m.VoteSetMaj23.BlockID.PartSetHeader.Total = uint32(x)
			return "total-extreme"
		}
	case *kcons.Message_VoteSetBits:
		switch s.tape.Draw(4) {
		case 0:
			m.VoteSetBits.Votes.Bits = int64(x)
			return "bits-disagree-elems"
		case 1:
			m.VoteSetBits.Votes.Elems = make([]uint64, 1+int(x%70000))
			return "elems-huge"
		case 2:
			m.VoteSetBits.Round = uint32(x)
			return "round-extreme"
		default:
			m.VoteSetBits.Type = kproto.SignedMsgType(int32(x))
			return "type-extreme"
		}
	case *kcons.Message_ProposalPol:
		switch s.tape.Draw(3) {
		case 0:
			m.ProposalPol.ProposalPol.Bits = int64(x)
			return "bits-disagree-elems"
		case 1:
			m.ProposalPol.ProposalPolRound = uint32(x)
			return "round-extreme"
		default:
			m.ProposalPol.Height = x
			return "height-extreme"
		}
	case *kcons.Message_Proposal:
		switch s.tape.Draw(3) {
		case 0:
			m.Proposal.Proposal.Signature = nil
			return "nil-signature"
		case 1:
			m.Proposal.Proposal.BlockID.PartSetHeader.Total = uint32(x)
			return "total-extreme"
		default:
			m.Proposal.Proposal.Round = uint32(x)
			return "round-extreme"
		}
	}
	return "none"
}
