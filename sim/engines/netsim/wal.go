package netsim

import (
	"io"

	"verif/sim/kit"

	"github.com/kardiachain/go-kardia/consensus"
)

// nopWAL stands in when a run does not exercise the WAL (crash-free swarm runs).
type nopWAL struct{}

func (nopWAL) Write(consensus.WALMessage) error     { return nil }
func (nopWAL) WriteSync(consensus.WALMessage) error { return nil }
func (nopWAL) FlushAndSync() error                  { return nil }
func (nopWAL) SearchForEndHeight(int64, *consensus.WALSearchOptions) (io.ReadCloser, bool, error) {
	return nil, false, nil
}
func (nopWAL) Start() error { return nil }
func (nopWAL) Stop() error  { return nil }
func (nopWAL) Wait()        {}

// closeWAL stops the real WAL's files so the bubble can drain as far as the
// product allows (AutoFile goroutines are leaked by design).
func closeWAL(n *kit.Node) {
	defer func() { recover() }()
	var w *consensus.BaseWAL
	switch x := n.CS.VerifWAL().(type) {
	case *consensus.BaseWAL:
		w = x
	case *recWAL:
		w = x.inner
	}
	if w != nil {
		_ = w.Stop()
		if g := w.Group(); g != nil {
			if g.Head != nil {
				_ = g.Head.Close()
			}
		}
	}
}
