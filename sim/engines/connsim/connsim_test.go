// Engine connsim (C20, and the framing stage of C18): real SecretConnection and
// MConnection endpoints over a scheduler-controlled in-memory pipe with a man
// in the middle, inside a testing/synctest bubble.
package connsim

import (
	crand "crypto/rand"
	"crypto/ecdsa"
	"fmt"
	"io"
	"os"
	"regexp"
	"strings"
	"sync"
	"sync/atomic"
	"testing"
	"testing/synctest"
	"time"

	"verif/sim/core"

	"github.com/kardiachain/go-kardia/lib/p2p/conn"
)

type engine struct{}

func (engine) Name() string { return "connsim" }

func TestSim(t *testing.T) { core.Main(t, engine{}) }

// ---- deterministic replacement for crypto/rand.Reader during a run ----
// Ephemeral keys are the only consumer. Calls are sequenced by the scheduler
// (one handshake goroutine is started at a time), so the stream is assigned
// deterministically.

type detRand struct {
	mu sync.Mutex
	s  uint64
}

func (d *detRand) Read(p []byte) (int, error) {
	d.mu.Lock()
	defer d.mu.Unlock()
	for i := range p {
		if i%8 == 0 {
			d.s = core.SplitMix64(d.s)
		}
		p[i] = byte(d.s >> (8 * uint(i%8)))
	}
	return len(p), nil
}

// ---- world: per-run state shared by the scenarios ----

type world struct {
	t     *testing.T
	res   *core.RunResult
	tape  *core.Tape
	opt   core.Options
	h, ah *core.Hasher
	prop  string
	ops   []string
	live  atomic.Int32 // harness goroutines still running
	rnd   *detRand
	start time.Time
	mitm  int // man-in-the-middle actions performed
	links []*link
}

func (w *world) step(f string, a ...interface{}) {
	s := fmt.Sprintf(f, a...)
	if len(w.ops) < 50 {
		w.ops = append(w.ops, s)
	}
	w.res.Tracef("%s", s)
	w.h.Add(s)
	w.res.Steps++
}

// note is hashed and traced but not counted as a step.
func (w *world) note(f string, a ...interface{}) {
	s := fmt.Sprintf(f, a...)
	w.res.Tracef("  %s", s)
	w.h.Add(s)
}

func (w *world) violate(oracle, sig, detail string) {
	if !w.res.Failed() {
		w.res.Violate(w.prop, oracle, sig, detail)
		w.res.Tracef("VIOLATION %s: %s -- %s", oracle, sig, detail)
	}
}

// settle waits for quiescence, then lets writers see freed pipe space, then
// waits again.
func (w *world) settle() {
	synctest.Wait()
	for _, l := range w.links {
		l.syncSpace()
	}
	synctest.Wait()
}

func (w *world) pipe(capAB, capBA int) (a, b *pipeEnd, ab, ba *link) {
	a, b, ab, ba = newPipe(capAB, capBA)
	w.links = append(w.links, ab, ba)
	return
}

func (w *world) failed() bool { return w.res.Failed() || w.res.Infra != "" }

// spawn runs fn as a counted harness goroutine. A panic inside fn that comes
// out of product code is reported by the callee; anything escaping here is a
// harness bug.
func (w *world) spawn(fn func()) {
	w.live.Add(1)
	go func() {
		defer w.live.Add(-1)
		fn()
	}()
}

var digits = regexp.MustCompile(`[0-9]+`)

// firstLine: first line of a panic/error text with numbers erased (signatures
// must not carry concrete lengths or counters).
func firstLine(s string) string {
	if i := strings.IndexByte(s, '\n'); i >= 0 {
		s = s[:i]
	}
	s = digits.ReplaceAllString(s, "N")
	if len(s) > 140 {
		s = s[:140]
	}
	return s
}

// payload byte i of stream/message `key`: position dependent, incompressible.
func payByte(key uint64, i int) byte {
	x := core.SplitMix64(key ^ uint64(i>>3)*0x9E3779B97F4A7C15)
	return byte(x >> (8 * uint(i&7)))
}

func payload(key uint64, from, n int) []byte {
	b := make([]byte, n)
	for i := range b {
		b[i] = payByte(key, from+i)
	}
	return b
}

// drawChunk picks how many of `pending` bytes to release; 0 on the tape = all.
func (w *world) drawChunk(pending int) int {
	if pending <= 1 {
		return pending
	}
	switch w.tape.Weighted(6, 2, 3, 2, 2) {
	case 0:
		return pending
	case 1:
		return 1
	case 2:
		return w.tape.Range(1, pending)
	case 3:
		return w.tape.Range(1, min(pending, 64))
	default: // around one sealed frame
		return min(pending, w.tape.Range(1000, 1100))
	}
}

// ---- honest handshake of two real endpoints ----

type hsSide struct {
	mu   sync.Mutex
	sc   *conn.SecretConnection
	err  error
	done bool
	pnk  string
}

func (s *hsSide) get() (sc *conn.SecretConnection, err error, done bool, pnk string) {
	s.mu.Lock()
	defer s.mu.Unlock()
	return s.sc, s.err, s.done, s.pnk
}

func (w *world) startHandshake(c io.ReadWriteCloser, k *ecdsa.PrivateKey) *hsSide {
	s := &hsSide{}
	w.spawn(func() {
		defer func() {
			if r := recover(); r != nil {
				s.mu.Lock()
				s.pnk, s.done = fmt.Sprint(r), true
				s.mu.Unlock()
			}
		}()
		sc, err := conn.MakeSecretConnection(c, k)
		s.mu.Lock()
		s.sc, s.err, s.done = sc, err, true
		s.mu.Unlock()
	})
	synctest.Wait() // sequences the ephemeral key draws
	return s
}

// checkHsPanic reports a panic (direct or swallowed by async.Parallel).
func (w *world) checkHsPanic(who string, s *hsSide) bool {
	_, err, done, pnk := s.get()
	if !done {
		return false
	}
	if pnk != "" {
		w.violate("panic", "panic in MakeSecretConnection: "+firstLine(pnk), who+": "+pnk)
		return true
	}
	if err != nil && strings.Contains(err.Error(), "panic in task") {
		w.violate("panic", "panic inside a handshake task: "+firstLine(strings.TrimPrefix(err.Error(), "panic in task ")), who+": "+err.Error())
		return true
	}
	return false
}

// pump releases queued bytes in tape-chosen chunks until nothing moves.
// budget bounds the number of chunked releases; afterwards everything is
// released at once.
func (w *world) pump(links []*link, budget int, done func() bool) {
	for iter := 0; iter < 4000; iter++ {
		moved := false
		for _, l := range links {
			p := l.pending()
			if p == 0 {
				continue
			}
			k := p
			if budget > 0 {
				k = w.drawChunk(p)
				budget--
			}
			l.release(k)
			moved = true
			w.settle() // one link at a time: the next link's pending count is read at quiescence
		}
		if !moved || (done != nil && done()) {
			return
		}
	}
}

// ---- Run ----

var randMu sync.Mutex

func (engine) Run(t *testing.T, tape *core.Tape, opt core.Options) (res *core.RunResult) {
	res = core.NewResult()
	w := &world{t: t, res: res, tape: tape, opt: opt, h: core.NewHasher(), ah: core.NewHasher()}
	w.prop = opt.Property
	if w.prop == "" {
		w.prop = "C20"
	}
	randMu.Lock()
	old := crand.Reader
	w.rnd = &detRand{s: tape.Uint64() | 1}
	crand.Reader = w.rnd
	defer func() {
		crand.Reader = old
		randMu.Unlock()
	}()

	scenario := ""
	func() {
		defer func() {
			if r := recover(); r != nil {
				msg := fmt.Sprint(r)
				if strings.Contains(msg, "blocked goroutines remain") || strings.Contains(msg, "deadlock") {
					if !res.Failed() && res.Infra == "" {
						if w.live.Load() != 0 {
							res.Infra = "harness goroutines left at bubble exit: " + msg
						} else {
							w.violate("leak", "goroutines of the connection remain blocked after Stop/Close ("+scenario+")", msg)
						}
					}
					return
				}
				if !res.Failed() {
					res.Infra = "harness panic in bubble: " + msg
				}
			}
		}()
		synctest.Test(t, func(t *testing.T) {
			w.start = time.Now()
			defer func() {
				if r := recover(); r != nil {
					// a panic on the scheduler goroutine is a harness bug unless product code
					// was called synchronously; those call sites recover themselves.
					if !res.Failed() {
						res.Infra = fmt.Sprintf("harness panic: %v", r)
					}
				}
			}()
			switch opt.Mode {
			case "framing":
				w.prop = "C18"
				scenario = "framing"
				w.ah.Add("framing")
				w.scenarioFraming()
			default:
				switch tape.Weighted(4, 6, 3, 2) {
				case 0:
					scenario = "stream"
					w.ah.Add("stream")
					w.scenarioStream()
				case 1:
					scenario = "mconn"
					w.ah.Add("mconn")
					w.scenarioMConn()
				case 2:
					scenario = "handshake"
					w.ah.Add("handshake")
					w.scenarioHandshake()
				default:
					scenario = "evilframes"
					w.ah.Add("evilframes")
					w.scenarioEvilFrames()
				}
			}
			// let every harness goroutine finish before the bubble ends
			for i := 0; i < 40 && w.live.Load() != 0; i++ {
				time.Sleep(time.Second)
				synctest.Wait()
			}
			if w.live.Load() != 0 && res.Infra == "" && !res.Failed() {
				res.Infra = fmt.Sprintf("%d harness goroutines did not finish (%s)", w.live.Load(), scenario)
			}
			res.SimTimeS = time.Since(w.start).Seconds()
		})
	}()
	res.TraceHash = w.h.Sum()
	if os.Getenv("CONNSIM_DUMP") != "" {
		fmt.Fprintf(os.Stderr, "=== run %d hash %016x\n%s\n", opt.RunIndex, res.TraceHash, strings.Join(res.TraceTail, "\n"))
	}
	res.AbstractHash = w.ah.Sum()
	res.Sample = map[string]interface{}{"scenario": scenario, "ops": w.ops}
	return res
}
