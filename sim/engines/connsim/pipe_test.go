package connsim

// SimPipe: an in-memory duplex byte pipe whose every byte crosses only when the
// scheduler says so. One `link` per direction. Writers append whole records
// (one per Write call) to a queue; the scheduler releases k bytes at a time to
// the reader; a man in the middle edits queued records. All blocking is on
// sync.Cond (durably blocking inside a synctest bubble); the mutex is never
// held while parked.

import (
	"errors"
	"io"
	"net"
	"sync"
	"sync/atomic"
	"time"
)

var (
	errPipeClosed = errors.New("simpipe: use of closed connection")
	errPipeBroken = errors.New("simpipe: broken pipe")
)

type rec struct {
	data []byte
	orig int // index of the original record this one was derived from (-1: none)
	at   time.Time // fake time at which it was queued
	off  int // bytes of this record already released
}

type link struct {
	name    string
	reverse *link // the opposite direction of the same pipe
	mu   sync.Mutex
	cond *sync.Cond

	q        []*rec // written, not yet (fully) released
	qbytes   int
	qvis     int    // queue occupancy as seen by writers; follows qbytes only at syncSpace
	capBytes int    // 0 = unbounded; otherwise Write parks while qbytes >= capBytes
	released []byte // released to the reader, not yet read

	// model of the writer's view
	origRecs   [][]byte // every record as written, in order
	origStamp  [][2]int // plaintext bounds (lo,hi) of the Write call producing it
	origTotal  int      // total bytes written
	origStream []byte   // concatenation of origRecs
	curLo      int      // stamp for records written now (set by the harness)
	curHi      int

	// model of the reader's view
	delivered int // bytes released so far
	divergeAt int // first released offset differing from origStream (-1 none)
	consumed  int // bytes actually read by the reader

	wclosed bool // writer closed: EOF after the queue drains
	rclosed bool // reader closed (local effect: own reads fail)
	cut     bool // severed by the man in the middle (readers see EOF)
	// writes fail once broken; a reader-side close or a cut becomes visible to the
	// writer only at the next syncSpace, so that the two routines of one endpoint are
	// never woken by the same pipe event
	brokenPending bool
	broken        bool

	maxWait      time.Duration // longest time any released byte had spent in the queue
	readerParked bool
	writerParked bool
	writes       int
}

func newLink(name string, capBytes int) *link {
	l := &link{name: name, capBytes: capBytes, divergeAt: -1}
	l.cond = sync.NewCond(&l.mu)
	return l
}

func (l *link) Write(p []byte) (int, error) {
	l.mu.Lock()
	defer l.mu.Unlock()
	for {
		if l.wclosed {
			return 0, errPipeClosed
		}
		if l.broken {
			return 0, errPipeBroken
		}
		if l.capBytes == 0 || l.qvis < l.capBytes {
			break
		}
		l.writerParked = true
		l.cond.Wait()
		l.writerParked = false
	}
	if len(p) == 0 {
		return 0, nil
	}
	d := append([]byte(nil), p...)
	l.origRecs = append(l.origRecs, d)
	l.origStamp = append(l.origStamp, [2]int{l.curLo, l.curHi})
	l.origStream = append(l.origStream, d...)
	l.origTotal += len(d)
	l.q = append(l.q, &rec{data: append([]byte(nil), d...), orig: len(l.origRecs) - 1, at: time.Now()})
	l.qbytes += len(d)
	l.qvis += len(d)
	l.writes++
	return len(p), nil
}

func (l *link) Read(p []byte) (int, error) {
	l.mu.Lock()
	defer l.mu.Unlock()
	for {
		// bytes already released are handed out even after a local Close: whether a
		// concurrent Close of the same endpoint overtakes this Read must not matter
		if len(l.released) > 0 {
			break
		}
		if l.rclosed {
			return 0, errPipeClosed
		}
		if l.cut || (l.wclosed && l.qbytes == 0) {
			return 0, io.EOF
		}
		if len(p) == 0 {
			return 0, nil
		}
		l.readerParked = true
		l.cond.Wait()
		l.readerParked = false
	}
	n := copy(p, l.released)
	l.released = l.released[n:]
	l.consumed += n
	return n, nil
}

// ---- scheduler side (call only at quiescence) ----

func (l *link) pending() int {
	l.mu.Lock()
	defer l.mu.Unlock()
	return l.qbytes
}

// release moves up to k queued bytes to the reader and returns how many moved.
func (l *link) release(k int) int {
	l.mu.Lock()
	defer l.mu.Unlock()
	moved := 0
	for k > 0 && len(l.q) > 0 {
		r := l.q[0]
		n := len(r.data) - r.off
		if n > k {
			n = k
		}
		chunk := r.data[r.off : r.off+n]
		if !r.at.IsZero() {
			if age := time.Since(r.at); age > l.maxWait {
				l.maxWait = age
			}
		}
		for i, b := range chunk {
			pos := l.delivered + i
			if l.divergeAt < 0 && (pos >= len(l.origStream) || l.origStream[pos] != b) {
				l.divergeAt = pos
			}
		}
		l.released = append(l.released, chunk...)
		l.delivered += n
		r.off += n
		l.qbytes -= n
		k -= n
		moved += n
		if r.off == len(r.data) {
			l.q = l.q[1:]
		}
	}
	l.cond.Broadcast()
	return moved
}

// worstWait: the longest any byte has waited in this direction, including
// what is still queued.
func (l *link) worstWait() time.Duration {
	l.mu.Lock()
	defer l.mu.Unlock()
	wmax := l.maxWait
	for _, r := range l.q {
		if !r.at.IsZero() {
			if age := time.Since(r.at); age > wmax {
				wmax = age
			}
		}
	}
	return wmax
}

// syncSpace lets parked writers see the space freed since the last call. Kept
// apart from release so that the reader's reaction to new bytes (possibly
// closing the connection) and the writer's progress never run concurrently.
func (l *link) syncSpace() {
	l.mu.Lock()
	if l.qvis != l.qbytes {
		l.qvis = l.qbytes
		l.cond.Broadcast()
	}
	if l.brokenPending && !l.broken {
		l.broken = true
		l.cond.Broadcast()
	}
	l.mu.Unlock()
}

func (l *link) closeWriter() {
	l.mu.Lock()
	l.wclosed = true
	l.cond.Broadcast()
	l.mu.Unlock()
}

func (l *link) closeReader() {
	l.mu.Lock()
	l.rclosed = true
	l.brokenPending = true
	l.cond.Broadcast()
	l.mu.Unlock()
}

func (l *link) sever() {
	l.mu.Lock()
	l.cut = true
	l.brokenPending = true
	l.q = nil
	l.qbytes = 0
	l.cond.Broadcast()
	l.mu.Unlock()
}

// untouched returns the indices in q of records not yet partially released.
func (l *link) untouched() []int {
	var out []int
	for i, r := range l.q {
		if r.off == 0 {
			out = append(out, i)
		}
	}
	return out
}

// man-in-the-middle edits on queued records (scheduler only, at quiescence).
func (l *link) mitmFlip(i, bit int) {
	l.mu.Lock()
	defer l.mu.Unlock()
	r := l.q[i]
	bit %= len(r.data) * 8
	r.data[bit/8] ^= 1 << uint(bit%8)
}

func (l *link) mitmDrop(i int) {
	l.mu.Lock()
	defer l.mu.Unlock()
	l.qbytes -= len(l.q[i].data)
	l.q = append(l.q[:i:i], l.q[i+1:]...)
	l.cond.Broadcast()
}

func (l *link) mitmDup(i int) {
	l.mu.Lock()
	defer l.mu.Unlock()
	r := l.q[i]
	c := &rec{data: append([]byte(nil), r.data...), orig: r.orig}
	nq := append([]*rec(nil), l.q[:i+1]...)
	nq = append(nq, c)
	nq = append(nq, l.q[i+1:]...)
	l.q = nq
	l.qbytes += len(c.data)
}

func (l *link) mitmSwap(i, j int) {
	l.mu.Lock()
	defer l.mu.Unlock()
	l.q[i], l.q[j] = l.q[j], l.q[i]
}

func (l *link) mitmTruncate(i, keep int) {
	l.mu.Lock()
	defer l.mu.Unlock()
	r := l.q[i]
	if keep >= len(r.data) {
		keep = len(r.data) - 1
	}
	l.qbytes -= len(r.data) - keep
	r.data = r.data[:keep]
	if keep == 0 {
		l.q = append(l.q[:i:i], l.q[i+1:]...)
	}
}

// mitmReplay inserts a copy of original record o at queue position i.
func (l *link) mitmReplay(i, o int) {
	l.mu.Lock()
	defer l.mu.Unlock()
	c := &rec{data: append([]byte(nil), l.origRecs[o]...), orig: o}
	nq := append([]*rec(nil), l.q[:i]...)
	nq = append(nq, c)
	nq = append(nq, l.q[i:]...)
	l.q = nq
	l.qbytes += len(c.data)
}

// mitmInject inserts foreign bytes at queue position i.
func (l *link) mitmInject(i int, data []byte) {
	l.mu.Lock()
	defer l.mu.Unlock()
	c := &rec{data: append([]byte(nil), data...), orig: -1}
	nq := append([]*rec(nil), l.q[:i]...)
	nq = append(nq, c)
	nq = append(nq, l.q[i:]...)
	l.q = nq
	l.qbytes += len(c.data)
}

// ---- net.Conn end ----

type simAddr string

func (a simAddr) Network() string { return "sim" }
func (a simAddr) String() string  { return string(a) }

type pipeEnd struct {
	name string
	in   *link // we read from
	out  *link // we write to
	once sync.Once
	shut atomic.Bool // Close was called
}

func (e *pipeEnd) Read(p []byte) (int, error)  { return e.in.Read(p) }
func (e *pipeEnd) Write(p []byte) (int, error) { return e.out.Write(p) }
func (e *pipeEnd) Close() error {
	e.once.Do(func() {
		e.shut.Store(true)
		e.out.closeWriter()
		e.in.closeReader()
	})
	return nil
}
func (e *pipeEnd) LocalAddr() net.Addr                { return simAddr(e.name + ":1") }
func (e *pipeEnd) RemoteAddr() net.Addr               { return simAddr(e.name + "-peer:1") }
func (e *pipeEnd) SetDeadline(t time.Time) error      { return nil }
func (e *pipeEnd) SetReadDeadline(t time.Time) error  { return nil }
func (e *pipeEnd) SetWriteDeadline(t time.Time) error { return nil }

// newPipe returns the two ends and the two links (a→b, b→a).
func newPipe(capAB, capBA int) (a, b *pipeEnd, ab, ba *link) {
	ab = newLink("a>b", capAB)
	ba = newLink("b>a", capBA)
	ab.reverse, ba.reverse = ba, ab
	a = &pipeEnd{name: "a", in: ba, out: ab}
	b = &pipeEnd{name: "b", in: ab, out: ba}
	return
}
