package connsim

// A hand-written implementation of the station-to-station handshake and frame
// format of the secret connection, transcribed from the protocol description
// (not calling any product code of lib/p2p/conn). It is used as the adversary
// that owns session keys and as an independent peer for interoperability.

import (
	"bytes"
	"crypto/ecdsa"
	"crypto/sha256"
	"encoding/binary"
	"errors"
	"fmt"
	"io"

	gogotypes "github.com/gogo/protobuf/types"
	"github.com/gtank/merlin"
	"golang.org/x/crypto/chacha20poly1305"
	"golang.org/x/crypto/curve25519"
	"golang.org/x/crypto/hkdf"

	"github.com/kardiachain/go-kardia/lib/crypto"
	pc "github.com/kardiachain/go-kardia/proto/kardiachain/crypto"
	kp2p "github.com/kardiachain/go-kardia/proto/kardiachain/p2p"
)

const (
	evFrameData  = 1024
	evFrameTotal = evFrameData + 4
	evSealed     = evFrameTotal + 16
)

type evilConn struct {
	rw        io.ReadWriter
	ephPriv   [32]byte
	ephPub    [32]byte
	remEph    [32]byte
	challenge [32]byte
	sendKey   [32]byte
	recvKey   [32]byte
	sendNonce uint64
	recvNonce uint64
	remPub    *ecdsa.PublicKey
	remSig    []byte
	dhErr     error
}

func readUvarint(r io.Reader) (uint64, error) {
	var x uint64
	var s uint
	var b [1]byte
	for i := 0; i < 10; i++ {
		if _, err := io.ReadFull(r, b[:]); err != nil {
			return 0, err
		}
		if b[0] < 0x80 {
			return x | uint64(b[0])<<s, nil
		}
		x |= uint64(b[0]&0x7f) << s
		s += 7
	}
	return 0, errors.New("varint overflow")
}

func delimited(body []byte) []byte {
	var l [10]byte
	n := binary.PutUvarint(l[:], uint64(len(body)))
	return append(append([]byte(nil), l[:n]...), body...)
}

func readDelimited(r io.Reader, max int) ([]byte, error) {
	n, err := readUvarint(r)
	if err != nil {
		return nil, err
	}
	if n > uint64(max) {
		return nil, fmt.Errorf("evil: message too long %d", n)
	}
	b := make([]byte, n)
	_, err = io.ReadFull(r, b)
	return b, err
}

// newEvil prepares an endpoint with the given ephemeral secret.
func newEvil(rw io.ReadWriter, ephSecret [32]byte) *evilConn {
	e := &evilConn{rw: rw, ephPriv: ephSecret}
	pub, _ := curve25519.X25519(ephSecret[:], curve25519.Basepoint)
	copy(e.ephPub[:], pub)
	return e
}

// sendEph writes an ephemeral public key message (any bytes the caller likes).
func (e *evilConn) sendEph(pub []byte) error {
	body, _ := (&gogotypes.BytesValue{Value: pub}).Marshal()
	_, err := e.rw.Write(delimited(body))
	return err
}

func (e *evilConn) recvEph() error {
	b, err := readDelimited(e.rw, 1<<20)
	if err != nil {
		return err
	}
	var bv gogotypes.BytesValue
	if err := bv.Unmarshal(b); err != nil {
		return err
	}
	copy(e.remEph[:], bv.Value)
	return nil
}

// derive computes keys and challenge given the public key we claimed (claimed
// may differ from our real ephemeral key when we lie).
func (e *evilConn) derive(claimed [32]byte) {
	lo, hi := claimed, e.remEph
	if bytes.Compare(lo[:], hi[:]) >= 0 {
		lo, hi = hi, lo
	}
	locIsLeast := bytes.Equal(claimed[:], lo[:])
	tr := merlin.NewTranscript("TENDERMINT_SECRET_CONNECTION_TRANSCRIPT_HASH")
	tr.AppendMessage([]byte("EPHEMERAL_LOWER_PUBLIC_KEY"), lo[:])
	tr.AppendMessage([]byte("EPHEMERAL_UPPER_PUBLIC_KEY"), hi[:])
	dh, err := curve25519.X25519(e.ephPriv[:], e.remEph[:])
	if err != nil {
		e.dhErr = err
		dh = make([]byte, 32)
	}
	tr.AppendMessage([]byte("DH_SECRET"), dh)
	kdf := hkdf.New(sha256.New, dh, nil, []byte("TENDERMINT_SECRET_CONNECTION_KEY_AND_CHALLENGE_GEN"))
	var okm [96]byte
	io.ReadFull(kdf, okm[:])
	if locIsLeast {
		copy(e.recvKey[:], okm[0:32])
		copy(e.sendKey[:], okm[32:64])
	} else {
		copy(e.sendKey[:], okm[0:32])
		copy(e.recvKey[:], okm[32:64])
	}
	copy(e.challenge[:], tr.ExtractBytes([]byte("SECRET_CONNECTION_MAC"), 32))
}

func nonceOf(n uint64) []byte {
	var b [12]byte
	binary.LittleEndian.PutUint64(b[4:], n)
	return b[:]
}

// sealFrame seals one frame with an arbitrary length field and nonce.
func (e *evilConn) sealFrame(lenField uint32, data []byte, nonce uint64) []byte {
	frame := make([]byte, evFrameTotal)
	binary.LittleEndian.PutUint32(frame, lenField)
	copy(frame[4:], data)
	aead, _ := chacha20poly1305.New(e.sendKey[:])
	return aead.Seal(nil, nonceOf(nonce), frame, nil)
}

// writePlain sends data as honest frames.
func (e *evilConn) writePlain(data []byte) error {
	for len(data) > 0 {
		n := len(data)
		if n > evFrameData {
			n = evFrameData
		}
		f := e.sealFrame(uint32(n), data[:n], e.sendNonce)
		e.sendNonce++
		if _, err := e.rw.Write(f); err != nil {
			return err
		}
		data = data[n:]
	}
	return nil
}

// readFrame reads and opens one frame; returns its payload.
func (e *evilConn) readFrame() ([]byte, error) {
	sealed := make([]byte, evSealed)
	if _, err := io.ReadFull(e.rw, sealed); err != nil {
		return nil, err
	}
	aead, _ := chacha20poly1305.New(e.recvKey[:])
	frame, err := aead.Open(nil, nonceOf(e.recvNonce), sealed, nil)
	if err != nil {
		return nil, fmt.Errorf("evil: frame %d does not open: %w", e.recvNonce, err)
	}
	e.recvNonce++
	n := binary.LittleEndian.Uint32(frame)
	if n > evFrameData {
		return nil, fmt.Errorf("evil: frame length field %d", n)
	}
	return frame[4 : 4+n], nil
}

type frameStream struct {
	e   *evilConn
	buf []byte
}

func (s *frameStream) Read(p []byte) (int, error) {
	for len(s.buf) == 0 {
		f, err := s.e.readFrame()
		if err != nil {
			return 0, err
		}
		s.buf = f
	}
	n := copy(p, s.buf)
	s.buf = s.buf[n:]
	return n, nil
}

func authBody(pub []byte, sig []byte) []byte {
	m := kp2p.AuthSigMessage{PubKey: pc.PublicKey{Sum: &pc.PublicKey_Ecdsa{Ecdsa: pub}}, Sig: sig}
	b, _ := m.Marshal()
	return b
}

// sendAuth sends an auth message claiming pub with signature sig.
func (e *evilConn) sendAuth(pub []byte, sig []byte) error {
	return e.writePlain(delimited(authBody(pub, sig)))
}

// recvAuth reads the peer's auth message and checks it like a careful peer.
func (e *evilConn) recvAuth() error {
	fs := &frameStream{e: e}
	b, err := readDelimited(fs, 1<<20)
	if err != nil {
		return err
	}
	var m kp2p.AuthSigMessage
	if err := m.Unmarshal(b); err != nil {
		return err
	}
	ec, ok := m.PubKey.Sum.(*pc.PublicKey_Ecdsa)
	if !ok {
		return errors.New("evil: no ecdsa key in auth message")
	}
	pk, err := crypto.UnmarshalPubkey(ec.Ecdsa)
	if err != nil {
		return err
	}
	e.remPub = pk
	e.remSig = m.Sig
	rec, err := crypto.SigToPub(e.challenge[:], m.Sig)
	if err != nil || rec == nil || rec.X.Cmp(pk.X) != 0 || rec.Y.Cmp(pk.Y) != 0 {
		return errors.New("evil: peer signature does not verify against the session challenge")
	}
	return nil
}

func sign(challenge []byte, k *ecdsa.PrivateKey) []byte {
	s, err := crypto.Sign(challenge, k)
	if err != nil {
		panic("harness: sign: " + err.Error())
	}
	return s
}

func pubBytes(k *ecdsa.PublicKey) []byte { return crypto.FromECDSAPub(k) }

func samePub(a, b *ecdsa.PublicKey) bool {
	return a != nil && b != nil && a.X != nil && b.X != nil && a.X.Cmp(b.X) == 0 && a.Y.Cmp(b.Y) == 0
}

// fixed identity keys (never generated)
func identity(label string) *ecdsa.PrivateKey {
	k, err := crypto.ToECDSA(crypto.Keccak256([]byte("verif-connsim-identity-" + label)))
	if err != nil {
		panic("harness: identity: " + err.Error())
	}
	return k
}

// known small-order / degenerate curve25519 points
var lowOrderPoints = [][]byte{
	make([]byte, 32),
	append([]byte{1}, make([]byte, 31)...),
	{0xe0, 0xeb, 0x7a, 0x7c, 0x3b, 0x41, 0xb8, 0xae, 0x16, 0x56, 0xe3, 0xfa, 0xf1, 0x9f, 0xc4, 0x6a, 0xda, 0x09, 0x8d, 0xeb, 0x9c, 0x32, 0xb1, 0xfd, 0x86, 0x62, 0x05, 0x16, 0x5f, 0x49, 0xb8, 0x00},
	{0x5f, 0x9c, 0x95, 0xbc, 0xa3, 0x50, 0x8c, 0x24, 0xb1, 0xd0, 0xb1, 0x55, 0x9c, 0x83, 0xef, 0x5b, 0x04, 0x44, 0x5c, 0xc4, 0x58, 0x1c, 0x8e, 0x86, 0xd8, 0x22, 0x4e, 0xdd, 0xd0, 0x9f, 0x11, 0x57},
	{0xec, 0xff, 0xff, 0xff, 0xff, 0xff, 0xff, 0xff, 0xff, 0xff, 0xff, 0xff, 0xff, 0xff, 0xff, 0xff, 0xff, 0xff, 0xff, 0xff, 0xff, 0xff, 0xff, 0xff, 0xff, 0xff, 0xff, 0xff, 0xff, 0xff, 0xff, 0x7f},
	{0xed, 0xff, 0xff, 0xff, 0xff, 0xff, 0xff, 0xff, 0xff, 0xff, 0xff, 0xff, 0xff, 0xff, 0xff, 0xff, 0xff, 0xff, 0xff, 0xff, 0xff, 0xff, 0xff, 0xff, 0xff, 0xff, 0xff, 0xff, 0xff, 0xff, 0xff, 0x7f},
	{0xee, 0xff, 0xff, 0xff, 0xff, 0xff, 0xff, 0xff, 0xff, 0xff, 0xff, 0xff, 0xff, 0xff, 0xff, 0xff, 0xff, 0xff, 0xff, 0xff, 0xff, 0xff, 0xff, 0xff, 0xff, 0xff, 0xff, 0xff, 0xff, 0xff, 0xff, 0x7f},
}
