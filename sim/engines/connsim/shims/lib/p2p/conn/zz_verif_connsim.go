package conn

// Added at build time through `go test -overlay` by the connsim engine of
// /verif. Read-only accessors, no logic.

// VerifRecving returns len and cap of the reassembly buffer of channel chID
// (-1,-1 when the channel does not exist). Call only at quiescence.
func (c *MConnection) VerifRecving(chID byte) (int, int) {
	ch, ok := c.channelsIdx[chID]
	if !ok {
		return -1, -1
	}
	return len(ch.recving), cap(ch.recving)
}

// VerifMaxPacketMsgSize returns the packet size limit the receiver enforces.
func (c *MConnection) VerifMaxPacketMsgSize() int { return c._maxPacketMsgSize }
