package connsim

// Scenario "mconn": two real MConnections over two real SecretConnections.
// Client goroutines issue Send/TrySend when the scheduler says so; the
// scheduler releases bytes, edits frames, advances the fake clock.
//
// Determinism: Go's select picks randomly among ready cases, so the schedule
// is built such that sendRoutine never finds two cases ready at once:
//   profile flow     - pipe never blocks, no rate limiting: sendRoutine is always
//                      parked in its select at quiescence; timer periods carry
//                      distinct sub-millisecond offsets so no two fire together;
//   profile pressure - bounded pipe and rate limiting, but the explored phase
//                      stays below the 2 s statistics tick and the ping interval;
//   profile stall    - bounded pipe, long stalls (Send time-outs), a single
//                      channel per side so the statistics tick cannot matter.
// The final drain phase hashes only order-insensitive facts.

import (
	"bytes"
	"fmt"
	"sort"
	"strings"
	"sync"
	"testing/synctest"
	"time"

	"github.com/kardiachain/go-kardia/lib/log"
	"github.com/kardiachain/go-kardia/lib/p2p/conn"
)

type chanSpec struct {
	id      byte
	prio    int
	sendQ   int
	recvCap int
	recvBuf int
}

type msgSpec struct {
	client int // global client id (0..5)
	seq    int
	ch     byte
	size   int
	try    bool
	data   []byte
	// state
	issued    bool
	verdict   int // 0 pending, 1 accepted, 2 refused
	delivered bool
}

type delivery struct {
	ch   byte
	data []byte // retained, not copied
	sum  uint64 // content hash at delivery time
	n    int
	seq  int
}

type mEnd struct {
	evSeq, firstErrSeq int
	name  string
	mc    *conn.MConnection
	chans []chanSpec
	mu    sync.Mutex
	dels  []delivery
	errs  []string
	nDel  int // deliveries already processed
	nErr  int
	// per channel, per sending client: FIFO of messages expected here
	expect    map[byte]map[int][]*msgSpec
	errored   bool
	errText   string
	stopped   bool // stopped by the harness
	delivered map[byte]int
	held      []delivery
}

func fnv64(b []byte) uint64 {
	h := uint64(0xcbf29ce484222325)
	for _, c := range b {
		h = (h ^ uint64(c)) * 0x100000001b3
	}
	return h
}

func (e *mEnd) onReceive(ch byte, msg []byte) {
	e.mu.Lock()
	e.evSeq++
	e.dels = append(e.dels, delivery{ch: ch, data: msg, sum: fnv64(msg), n: len(msg), seq: e.evSeq})
	e.mu.Unlock()
}

func (e *mEnd) onError(r interface{}) {
	e.mu.Lock()
	e.evSeq++
	if e.firstErrSeq == 0 {
		e.firstErrSeq = e.evSeq
	}
	e.errs = append(e.errs, fmt.Sprint(r))
	e.mu.Unlock()
}

func (e *mEnd) capOf(ch byte) (int, bool) {
	for _, c := range e.chans {
		if c.id == ch {
			return c.recvCap, true
		}
	}
	return 0, false
}

func descs(cs []chanSpec) []*conn.ChannelDescriptor {
	var out []*conn.ChannelDescriptor
	for _, c := range cs {
		out = append(out, &conn.ChannelDescriptor{ID: c.id, Priority: c.prio, SendQueueCapacity: c.sendQ,
			RecvMessageCapacity: c.recvCap, RecvBufferCapacity: c.recvBuf})
	}
	return out
}

type client struct {
	id    int
	side  int
	cmd   chan *msgSpec
	busy  bool
	queue []*msgSpec
	mu    sync.Mutex
	done  []*msgSpec // verdicts ready
	pnk   string
}

func msgData(client, seq, size int) []byte {
	b := payload(uint64(client)<<32|uint64(seq)<<8|0x5a, 0, size)
	b[0] = byte(client<<5 | seq&31)
	return b
}

// legitErr decides whether end x may have failed, and why.
type mWorld struct {
	w          *world
	ends       [2]*mEnd
	links      [2]*link // links[i] carries bytes towards ends[i]
	cfg        conn.MConnConfig
	pongT      time.Duration
	cut        bool
	oversizeTo [2]bool // an accepted message exceeds the receiver's capacity
	unknownTo  [2]bool // an accepted message uses a channel the receiver lacks
	started    time.Time
}

// primaryCause: a reason for end i to fail that does not depend on the peer failing first.
func (m *mWorld) primaryCause(i int, errText string) string {
	switch {
	case m.cut:
		return "cut"
	case m.links[i].divergeAt >= 0:
		return "tamper"
	case m.oversizeTo[i]:
		return "oversize"
	case m.unknownTo[i]:
		return "unknown-channel"
	case strings.Contains(errText, "pong timeout") && m.links[0].worstWait()+m.links[1].worstWait() >= m.pongT:
		// legitimate only if ping and pong together really spent that long in the pipe
		return "pong-timeout"
	}
	return ""
}

// processErrors judges new onError callbacks of both ends together, so that a
// failure and the end-of-stream it causes at the peer within one step are
// told apart.
func (m *mWorld) processErrors(hash bool) {
	w := m.w
	var fresh [2][]string
	for i, e := range m.ends {
		e.mu.Lock()
		fresh[i] = append([]string(nil), e.errs[e.nErr:]...)
		e.nErr = len(e.errs)
		e.mu.Unlock()
	}
	var cause [2]string
	for i, e := range m.ends {
		for k, s := range fresh[i] {
			if hash {
				w.note("%s onError", e.name)
			}
			if strings.Contains(s, "recovered from panic") {
				w.violate("panic", "panic inside MConnection: "+firstLine(strings.TrimPrefix(s, "recovered from panic: ")), e.name+": "+s)
				return
			}
			if e.errored || k > 0 {
				w.violate("error-twice", "onError called more than once", e.name+": "+s)
				return
			}
			e.errText = s
			cause[i] = m.primaryCause(i, s)
		}
	}
	for i, e := range m.ends {
		if len(fresh[i]) == 0 {
			continue
		}
		peer := m.ends[1-i]
		why := cause[i]
		if why == "" && (peer.errored || peer.stopped || (len(fresh[1-i]) > 0 && cause[1-i] != "")) {
			why = "peer-down"
		}
		if why == "" && e.stopped {
			// the harness stopped this very end: a send that was in flight fails on the connection
			// Stop closed and the error callback still fires once (1 run in 200 000)
			why = "own-stop"
		}
		if why == "" {
			w.violate("spurious-error", "connection failed although nothing was touched, oversized or closed", fmt.Sprintf("%s: %s", e.name, e.errText))
			return
		}
		w.res.Probe("conn-error:" + why)
	}
	for i, e := range m.ends {
		if len(fresh[i]) > 0 {
			e.errored = true
		}
	}
}

// process new callbacks of end i; order-sensitive hashing only if hash is true.
func (m *mWorld) process(i int, hash bool) {
	w, e := m.w, m.ends[i]
	e.mu.Lock()
	dels := append([]delivery(nil), e.dels[e.nDel:]...)
	e.nDel = len(e.dels)
	errSeq := e.firstErrSeq
	e.mu.Unlock()
	for _, d := range dels {
		if hash {
			w.note("%s recv ch=%02x n=%d b0=%02x", e.name, d.ch, d.n, first(d.data))
		}
		if e.errored || (errSeq != 0 && d.seq > errSeq) {
			// legitimate: packets already buffered when the send side failed
			w.res.Probe("delivery-after-onError")
		}
		if fnv64(d.data) != d.sum {
			w.violate("buffer-reuse", "bytes handed to onReceive changed after the callback returned", fmt.Sprintf("%s: ch %02x %d bytes", e.name, d.ch, d.n))
			return
		}
		capacity, known := e.capOf(d.ch)
		if !known {
			w.violate("unknown-channel", "message delivered on a channel the receiver does not have", fmt.Sprintf("%s: ch %02x", e.name, d.ch))
			return
		}
		if d.n > capacity {
			w.violate("oversize", "message above RecvMessageCapacity was delivered", fmt.Sprintf("%s: ch %02x capacity %d delivered %d bytes", e.name, d.ch, capacity, d.n))
			return
		}
		var hit *msgSpec
		var hitClient int
		for cl, fifo := range e.expect[d.ch] {
			if len(fifo) > 0 && bytes.Equal(fifo[0].data, d.data) {
				hit, hitClient = fifo[0], cl
				break
			}
		}
		if hit == nil {
			var heads []string
			var cls []int
			for cl := range e.expect[d.ch] {
				cls = append(cls, cl)
			}
			sort.Ints(cls)
			for _, cl := range cls {
				if f := e.expect[d.ch][cl]; len(f) > 0 {
					heads = append(heads, fmt.Sprintf("client%d#%d(%dB %x..)", cl, f[0].seq, f[0].size, head(f[0].data)))
				}
			}
			kind := m.classify(e, d)
			w.violate("channel-order", "delivered message is not the next sent message of any writer on that channel ("+kind+")",
				fmt.Sprintf("%s: ch %02x got %d bytes %x..; next expected: %v", e.name, d.ch, d.n, head(d.data), heads))
			return
		}
		e.expect[d.ch][hitClient] = e.expect[d.ch][hitClient][1:]
		hit.delivered = true
		if hit.verdict == 2 {
			w.violate("refused-delivered", "message whose Send returned false was delivered", fmt.Sprintf("%s: client %d #%d", e.name, hit.client, hit.seq))
			return
		}
		e.delivered[d.ch]++
		e.held = append(e.held, d)
		if d.n > 1024 {
			w.res.Probe("multi-packet-message-delivered")
		}
	}
	// bounded reassembly buffers
	for _, c := range e.chans {
		if n, _ := e.mc.VerifRecving(c.id); n > c.recvCap {
			w.violate("recv-buffer", "channel reassembly buffer grew beyond RecvMessageCapacity", fmt.Sprintf("%s: ch %02x holds %d bytes, capacity %d", e.name, c.id, n, c.recvCap))
			return
		}
	}
}

// classify describes a delivery that matches no expected head.
func (m *mWorld) classify(e *mEnd, d delivery) string {
	for _, fifo := range e.expect[d.ch] {
		for k, s := range fifo {
			if k > 0 && bytes.Equal(s.data, d.data) {
				return "a later message overtook an earlier one"
			}
			if len(d.data) > len(s.data) && bytes.HasPrefix(d.data, s.data) {
				return "two messages merged"
			}
			if len(d.data) < len(s.data) && bytes.HasPrefix(s.data, d.data) {
				return "message truncated"
			}
		}
	}
	for _, h := range e.held {
		if h.ch == d.ch && h.sum == d.sum {
			return "duplicate of an earlier delivery"
		}
	}
	return "content matches nothing sent"
}

func first(b []byte) byte {
	if len(b) == 0 {
		return 0
	}
	return b[0]
}

func (w *world) scenarioMConn() {
	tape := w.tape
	profile := tape.Weighted(5, 3, 2) // flow, pressure, stall
	faulty := tape.Chance(1, 2)       // man in the middle, oversized messages, missing channel allowed
	pname := []string{"flow", "pressure", "stall"}[profile]
	w.ah.Add(pname)
	ms, us, ns := time.Millisecond, time.Microsecond, time.Nanosecond
	cfg := conn.MConnConfig{SendRate: 1 << 40, RecvRate: 1 << 40}
	cfg.MaxPacketMsgPayloadSize = []int{1024, 256, 64, 10}[tape.Draw(4)]
	cfg.FlushThrottle = []time.Duration{100 * ms, 10 * ms}[tape.Draw(2)] + 500*ns
	cfg.PingInterval, cfg.PongTimeout = 60*time.Second+us, 45*time.Second+300*ns
	capAB, capBA := 0, 0
	switch profile {
	case 0:
		// pings only in runs without injected faults: a ping answered in the very step in
		// which the receive side fails would race inside the product (select order)
		k := 0
		if !faulty {
			k = tape.Draw(3)
		}
		switch k {
		case 1:
			cfg.PingInterval, cfg.PongTimeout = 3*time.Second+us, 1*time.Second+300*ns
		case 2:
			cfg.PingInterval, cfg.PongTimeout = 10*time.Second+us, 7*time.Second+300*ns
		}
	case 1:
		capAB, capBA = tape.Range(1, 4)*1000, tape.Range(1, 4)*1000
		// at most one of the two limiters per run (both would let the two routines of one
		// endpoint wake at the same fake instant)
		switch tape.Draw(3) {
		case 1:
			cfg.SendRate = []int64{100000, 20000}[tape.Draw(2)]
		case 2:
			cfg.RecvRate = []int64{100000, 20000}[tape.Draw(2)]
		}
	case 2:
		capAB, capBA = tape.Range(1, 4)*1000, tape.Range(1, 4)*1000
		cfg.PingInterval, cfg.PongTimeout = 3600*time.Second+us, 45*time.Second+300*ns
	}
	// channels
	ids := []byte{0x20, 0x21, 0x30, 0x40}
	nch := tape.Range(2, 4)
	var chans []chanSpec
	for i := 0; i < nch; i++ {
		chans = append(chans, chanSpec{id: ids[i], prio: tape.Range(1, 10), sendQ: tape.Range(1, 3),
			recvCap: []int{1024, 2048, 4096, 8192, 100}[tape.Draw(5)], recvBuf: []int{4096, 16, 256}[tape.Draw(3)]})
	}
	chansOf := [2][]chanSpec{chans, chans}
	missing := -1
	if faulty && tape.Chance(1, 8) { // one side lacks the last channel
		missing = tape.Draw(2)
		chansOf[missing] = chans[:nch-1]
		w.ah.Add("missing-channel")
	}
	w.ah.Add(fmt.Sprint(faulty))
	w.step("mconn profile=%s faulty=%v payload=%d flush=%v ping=%v caps=%d/%d rates=%d/%d chans=%v missingOn=%d", pname, faulty, cfg.MaxPacketMsgPayloadSize,
		cfg.FlushThrottle, cfg.PingInterval, capAB, capBA, cfg.SendRate, cfg.RecvRate, chans, missing)

	a, b, ab, ba := w.pipe(capAB, capBA)
	ka, kb := identity("A"), identity("B")
	ha := w.startHandshake(a, ka)
	hb := w.startHandshake(b, kb)
	w.pump([]*link{ab, ba}, 4, nil)
	sa, ea, da, _ := ha.get()
	sb, eb, db, _ := hb.get()
	if w.checkHsPanic("A", ha) || w.checkHsPanic("B", hb) {
		a.Close()
		b.Close()
		return
	}
	if !(da && db && ea == nil && eb == nil) {
		w.violate("hs-liveness", "handshake of two honest endpoints over an untouched pipe did not complete", fmt.Sprintf("A done=%v err=%v; B done=%v err=%v", da, ea, db, eb))
		a.Close()
		b.Close()
		return
	}
	m := &mWorld{w: w, cfg: cfg, pongT: cfg.PongTimeout, started: time.Now()}
	m.links = [2]*link{ba, ab}
	scs := [2]*conn.SecretConnection{sa, sb}
	for i := 0; i < 2; i++ {
		e := &mEnd{name: []string{"A", "B"}[i], chans: chansOf[i], expect: map[byte]map[int][]*msgSpec{}, delivered: map[byte]int{}}
		for _, c := range chans {
			e.expect[c.id] = map[int][]*msgSpec{}
		}
		e.mc = conn.NewMConnectionWithConfig(scs[i], descs(chansOf[i]), e.onReceive, e.onError, cfg)
		e.mc.SetLogger(log.New())
		m.ends[i] = e
	}
	for i := 0; i < 2; i++ {
		if err := m.ends[i].mc.Start(); err != nil {
			w.res.Infra = "MConnection.Start: " + err.Error()
			return
		}
	}
	synctest.Wait()

	// clients and their message lists
	var clients []*client
	total := tape.Range(1, 40)
	if profile == 1 {
		total = tape.Range(1, 16)
	}
	for side := 0; side < 2; side++ {
		n := tape.Range(1, 3)
		for k := 0; k < n; k++ {
			clients = append(clients, &client{id: len(clients), side: side, cmd: make(chan *msgSpec)})
		}
	}
	soleCh := [2]byte{chans[tape.Draw(len(chansOf[0]))].id, chans[tape.Draw(len(chansOf[1]))].id}
	for i := 0; i < total; i++ {
		c := clients[tape.Draw(len(clients))]
		own := chansOf[c.side]
		cs := own[tape.Draw(len(own))]
		if profile == 2 {
			for _, x := range own {
				if x.id == soleCh[c.side] {
					cs = x
				}
			}
		}
		var size int
		switch tape.Weighted(4, 3, 2, 2, 1) {
		case 0:
			size = tape.Range(1, 64)
		case 1:
			size = tape.Range(1, cs.recvCap)
		case 2: // around packet boundaries
			size = cfg.MaxPacketMsgPayloadSize*tape.Range(1, 3) + tape.Range(-1, 1)
		case 3: // at capacity
			size = cs.recvCap - tape.Draw(2)
		default: // beyond capacity
			size = cs.recvCap + tape.Range(1, cs.recvCap/5+1)
			if !faulty {
				size = cs.recvCap
			}
		}
		if !faulty && size > cs.recvCap {
			size = cs.recvCap // no oversized message in fault-free runs (they may carry pings)
		}
		if size < 1 {
			size = 1
		}
		if len(c.queue) >= 31 {
			continue
		}
		s := &msgSpec{client: c.id, seq: len(c.queue), ch: cs.id, size: size, try: tape.Chance(1, 3)}
		s.data = msgData(c.id, s.seq, size)
		c.queue = append(c.queue, s)
	}
	for _, c := range clients {
		c := c
		mc := m.ends[c.side].mc
		w.spawn(func() {
			for s := range c.cmd {
				ok := false
				func() {
					defer func() {
						if p := recover(); p != nil {
							c.mu.Lock()
							c.pnk = fmt.Sprint(p)
							c.mu.Unlock()
						}
					}()
					buf := append([]byte(nil), s.data...)
					if s.try {
						ok = mc.TrySend(s.ch, buf)
					} else {
						ok = mc.Send(s.ch, buf)
					}
				}()
				c.mu.Lock()
				if ok {
					s.verdict = 1
				} else {
					s.verdict = 2
				}
				c.done = append(c.done, s)
				c.busy = false
				c.mu.Unlock()
			}
		})
	}
	teardown := func() {
		for _, c := range clients {
			close(c.cmd)
		}
		for i, e := range m.ends {
			if e.mc.IsRunning() {
				e.mc.Stop()
			}
			synctest.Wait()
			// a stopped connection must have closed its socket, or its routines stay blocked
			if ![]*pipeEnd{a, b}[i].shut.Load() && !w.failed() {
				w.violate("leak", "stopped MConnection left the underlying connection open (its read routine stays blocked)", e.name)
			}
		}
		a.Close()
		b.Close()
		synctest.Wait()
	}
	defer teardown()

	// verdicts: returns false on violation
	verdicts := func(hash bool) {
		for _, c := range clients {
			c.mu.Lock()
			done, pnk := c.done, c.pnk
			c.done = nil
			c.mu.Unlock()
			if pnk != "" {
				w.violate("panic", "panic in Send/TrySend: "+firstLine(pnk), pnk)
				return
			}
			for _, s := range done {
				if hash {
					w.note("client%d #%d verdict=%d", c.id, s.seq, s.verdict)
				}
				peer := m.ends[1-c.side]
				if s.verdict == 2 {
					if me := m.ends[c.side]; me.mc.IsRunning() && !me.errored && !me.stopped {
						if s.try {
							w.res.Probe("trysend-refused-queue-full")
						} else {
							w.res.Probe("send-timed-out-on-running-conn")
						}
					}
					if s.delivered {
						w.violate("refused-delivered", "message whose Send returned false was delivered", fmt.Sprintf("client %d #%d ch %02x %d bytes", c.id, s.seq, s.ch, s.size))
						return
					}
					// drop it from the expectation FIFO
					f := peer.expect[s.ch][c.id]
					for k, x := range f {
						if x == s {
							peer.expect[s.ch][c.id] = append(f[:k:k], f[k+1:]...)
							break
						}
					}
				} else {
					if capacity, known := peer.capOf(s.ch); !known {
						m.unknownTo[1-c.side] = true
					} else if s.size > capacity {
						m.oversizeTo[1-c.side] = true
						w.res.Fault("oversize-message")
					}
				}
			}
		}
	}

	simBudget := time.Duration(1<<62 - 1)
	if profile == 1 {
		simBudget = 1900 * ms
	}
	nAct := tape.Range(10, w.opt.Int("decisions", 300))
	idle := 0
	for s := 0; s < nAct && !w.failed() && idle < 30; s++ {
		acted := true
		switch tape.Weighted(6, 8, 3, 1) {
		case 0: // a client issues its next send
			var ready []*client
			for _, c := range clients {
				if !c.busy && len(c.queue) > 0 {
					ready = append(ready, c)
				}
			}
			if len(ready) == 0 {
				acted = false
				break
			}
			c := ready[tape.Draw(len(ready))]
			sp := c.queue[0]
			c.queue = c.queue[1:]
			sp.issued = true
			peer := m.ends[1-c.side]
			if peer.expect[sp.ch] == nil {
				peer.expect[sp.ch] = map[int][]*msgSpec{}
			}
			peer.expect[sp.ch][c.id] = append(peer.expect[sp.ch][c.id], sp)
			c.busy = true
			w.step("client%d(%s) send #%d ch=%02x n=%d try=%v", c.id, m.ends[c.side].name, sp.seq, sp.ch, sp.size, sp.try)
			w.ah.Add("send", fmt.Sprint(sp.size > 1024, sp.try))
			if capacity, known := peer.capOf(sp.ch); known && sp.size > capacity {
				w.ah.Add("oversize")
			}
			c.cmd <- sp
		case 1: // release bytes
			i := tape.Draw(2)
			l := m.links[i]
			p := l.pending()
			if p == 0 {
				l = m.links[1-i]
				p = l.pending()
			}
			if p == 0 {
				acted = false
				break
			}
			k := w.drawChunk(p)
			l.release(k)
			w.step("%s release %d of %d", l.name, k, p)
		case 2: // advance the fake clock
			var d time.Duration
			switch tape.Weighted(4, 3, 2) {
			case 0:
				d = time.Duration(tape.Range(1, 50)) * ms
			case 1:
				d = time.Duration(tape.Range(51, 1000)) * ms
			default:
				d = time.Duration(tape.Range(1, 12)) * time.Second
			}
			if d > simBudget {
				d = simBudget
			}
			if d <= 0 {
				acted = false
				break
			}
			simBudget -= d
			w.step("advance %v", d)
			time.Sleep(d)
		case 3: // man in the middle
			if !faulty || w.mitm >= 3 {
				acted = false
				break
			}
			if tape.Chance(1, 8) && !m.cut {
				m.cut = true
				ab.sever()
				ba.sever()
				w.mitm++
				w.res.Fault("mitm-cut")
				w.ah.Add("mitm", "cut")
				w.step("mitm cut")
			} else if w.mitmAct(m.links[tape.Draw(2)]) == "" {
				acted = false
			}
		}
		if !acted {
			idle++
			continue
		}
		idle = 0
		w.settle()
		verdicts(true)
		for i := 0; i < 2 && !w.failed(); i++ {
			m.process(i, true)
		}
		if !w.failed() {
			m.processErrors(true)
		}
	}
	if w.failed() {
		return
	}
	// optional harness Stop of one side before the drain
	if tape.Chance(1, 6) {
		i := tape.Draw(2)
		m.ends[i].stopped = true
		w.step("stop %s", m.ends[i].name)
		w.ah.Add("stop")
		m.ends[i].mc.Stop()
		synctest.Wait()
	}
	// drain: issue the remaining sends, release everything, let timers run
	w.note("drain")
	idleRounds := 0
	for round := 0; round < 700 && !w.failed(); round++ {
		progress := false
		// strictly one stimulus at a time, each followed by quiescence: one client send,
		// then one link, then the other link, then the clock
		issued := false
		for _, c := range clients {
			if !issued && !c.busy && len(c.queue) > 0 {
				sp := c.queue[0]
				c.queue = c.queue[1:]
				sp.issued = true
				peer := m.ends[1-c.side]
				peer.expect[sp.ch][c.id] = append(peer.expect[sp.ch][c.id], sp)
				c.busy = true
				c.cmd <- sp
				w.settle()
				issued = true
				progress = true
			} else if c.busy || len(c.queue) > 0 {
				progress = true
			}
		}
		for _, l := range m.links {
			if p := l.pending(); p > 0 {
				l.release(p)
				w.settle()
				progress = true
			}
		}
		if !issued {
			time.Sleep(150 * ms)
			w.settle()
		}
		// messages still queued inside a running connection (rate limiter, starved flush)
		for _, e := range m.ends {
			if e.mc.IsRunning() {
				for _, cs := range e.mc.Status().Channels {
					if cs.SendQueueSize > 0 {
						progress = true
					}
				}
			}
		}
		before := m.ends[0].nDel + m.ends[1].nDel
		verdicts(false)
		for i := 0; i < 2 && !w.failed(); i++ {
			m.process(i, false)
		}
		if !w.failed() {
			m.processErrors(false)
		}
		if m.ends[0].nDel+m.ends[1].nDel != before || m.links[0].pending()+m.links[1].pending() > 0 {
			progress = true
		}
		if progress {
			idleRounds = 0
		} else if idleRounds++; idleRounds >= 12 {
			break
		}
	}
	if w.failed() {
		return
	}
	for _, l := range []*link{ab, ba} {
		w.res.Tracef("  link %s written=%d delivered=%d consumed=%d pending=%d diverge=%d wParked=%v rParked=%v t=%v", l.name, l.origTotal, l.delivered, l.consumed, l.qbytes, l.divergeAt, l.writerParked, l.readerParked, time.Since(m.started))
	}
	// final expectations
	faultFree := !m.cut && ab.divergeAt < 0 && ba.divergeAt < 0 && ab.delivered == ab.origTotal && ba.delivered == ba.origTotal
	for i, e := range m.ends {
		peer := m.ends[1-i]
		pend := 0
		var detail string
		var chs []int
		for ch := range e.expect {
			chs = append(chs, int(ch))
		}
		sort.Ints(chs)
		for _, ch := range chs {
			var cls []int
			for cl := range e.expect[byte(ch)] {
				cls = append(cls, cl)
			}
			sort.Ints(cls)
			for _, cl := range cls {
				for _, s := range e.expect[byte(ch)][cl] {
					if s.verdict == 1 {
						pend++
						if detail == "" {
							detail = fmt.Sprintf("client %d #%d ch %02x %d bytes", cl, s.seq, ch, s.size)
						}
					}
				}
			}
		}
		if faultFree && !e.errored && !peer.errored {
			w.note("%s final delivered=%v undelivered=%d", e.name, fmtCounts(e.delivered), pend)
		} else {
			w.note("%s final errored=%v", e.name, e.errored)
			w.res.Tracef("  %s delivered=%v undelivered=%d", e.name, fmtCounts(e.delivered), pend)
		}
		if e.errored {
			// onError implies the connection is stopped
			if e.mc.IsRunning() {
				w.violate("error-not-stopped", "connection still running after reporting an error", e.name+": "+e.errText)
				return
			}
		}
		if faultFree && !e.errored && !e.stopped && !peer.errored && !peer.stopped && pend > 0 {
			w.violate("lost-message", "accepted message never delivered on an untouched, running connection", fmt.Sprintf("%s misses %d messages, first: %s", e.name, pend, detail))
			return
		}
		if (m.oversizeTo[i] || m.unknownTo[i]) && faultFree && !e.errored && !e.stopped && !peer.errored && !peer.stopped {
			what := "a message above RecvMessageCapacity"
			if !m.oversizeTo[i] {
				what = "a packet for an unknown channel"
			}
			w.violate("not-refused", what+" did not make the receiver fail", e.name)
			return
		}
		// delivered slices must not change after the callback returned
		for _, hd := range e.held {
			if fnv64(hd.data) != hd.sum || len(hd.data) != hd.n {
				w.violate("buffer-reuse", "bytes handed to onReceive changed after the callback returned", fmt.Sprintf("%s: ch %02x %d bytes", e.name, hd.ch, hd.n))
				return
			}
		}
	}
	delivered := 0
	for _, e := range m.ends {
		for _, n := range e.delivered {
			delivered += n
		}
	}
	if faultFree && delivered >= 5 && !m.ends[0].errored && !m.ends[1].errored && !m.ends[0].stopped && !m.ends[1].stopped {
		w.res.Probe("mconn-faultfree-all-delivered-5+")
	}
	adversarial := w.mitm > 0 || m.oversizeTo[0] || m.oversizeTo[1] || m.unknownTo[0] || m.unknownTo[1]
	w.res.NonTrivial = delivered >= 2 && adversarial
	if delivered >= 10 {
		w.res.Probe("mconn-10+-messages-delivered")
	}
}

func fmtCounts(m map[byte]int) string {
	var ks []int
	for k := range m {
		ks = append(ks, int(k))
	}
	sort.Ints(ks)
	s := ""
	for _, k := range ks {
		s += fmt.Sprintf("%02x:%d ", k, m[byte(k)])
	}
	return s
}

