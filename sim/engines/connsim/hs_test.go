package connsim

// Scenarios "handshake" (a real endpoint against an adversary that speaks the
// protocol by hand) and "evilframes" (an authenticated adversary that owns the
// session keys and sends crafted sealed frames; also the interoperability
// check of the real endpoint against the independent implementation).

import (
	"bytes"
	"crypto/ecdsa"
	"fmt"
	"sync"
	"testing/synctest"
)

type evilScript struct {
	mu   sync.Mutex
	done bool
	err  error
	log  []string
}

func (s *evilScript) finish(err error) {
	s.mu.Lock()
	s.done, s.err = true, err
	s.mu.Unlock()
}

func (s *evilScript) isDone() bool {
	s.mu.Lock()
	defer s.mu.Unlock()
	return s.done
}

func (w *world) ephSecret() [32]byte {
	var k [32]byte
	copy(k[:], w.tape.Bytes(4))
	w.rnd.Read(k[4:])
	return k
}

var hsAttacks = []string{"honest", "claim-own-sig", "claim-replayed-sig", "claim-garbage-sig", "wrong-challenge", "low-order", "bad-eph", "bad-auth", "relay", "reflect"}

func (w *world) scenarioHandshake() {
	tape := w.tape
	attack := hsAttacks[tape.Weighted(2, 2, 2, 2, 2, 2, 2, 2, 2, 1)]
	w.ah.Add(attack)
	w.step("handshake attack=%s", attack)
	if attack != "honest" {
		w.res.Fault("hs-" + attack)
	}
	kV, kB, kE := identity("V"), identity("B"), identity("E")
	switch attack {
	case "relay":
		w.hsRelay(kV, kB)
		return
	case "reflect":
		w.hsReflect(kV)
		return
	}

	// a recorded genuine signature of B from an earlier session, for replay
	var recordedSig []byte
	if attack == "claim-replayed-sig" {
		x, y, xy, yx := w.pipe(0, 0)
		hb := w.startHandshake(y, kB)
		ev := newEvil(x, w.ephSecret())
		st := &evilScript{}
		w.spawn(func() {
			err := ev.sendEph(ev.ephPub[:])
			if err == nil {
				err = ev.recvEph()
			}
			if err == nil {
				ev.derive(ev.ephPub)
				err = ev.sendAuth(pubBytes(&kE.PublicKey), sign(ev.challenge[:], kE))
			}
			if err == nil {
				err = ev.recvAuth()
			}
			st.finish(err)
		})
		w.pump([]*link{xy, yx}, 0, nil)
		x.Close()
		y.Close()
		synctest.Wait()
		if w.checkHsPanic("B(recorded)", hb) {
			return
		}
		if st.err != nil || ev.remSig == nil {
			w.violate("interop", "honest handshake between the real endpoint and an independent implementation failed", fmt.Sprintf("recording session: %v", st.err))
			return
		}
		recordedSig = ev.remSig
	}

	x, y, xy, yx := w.pipe(0, 0)
	defer func() {
		x.Close()
		y.Close()
		synctest.Wait()
	}()
	hv := w.startHandshake(y, kV)
	ev := newEvil(x, w.ephSecret())
	st := &evilScript{}
	claimed := ev.ephPub
	var ephMsg []byte // raw bytes instead of a well-formed key message
	authPub, authKey := pubBytes(&kE.PublicKey), kE
	sigOf := func(ch []byte) []byte { return sign(ch, authKey) }
	var rawAuth []byte // raw plaintext instead of a well-formed auth message
	sub := ""
	switch attack {
	case "claim-own-sig":
		authPub = pubBytes(&kB.PublicKey)
	case "claim-replayed-sig":
		authPub = pubBytes(&kB.PublicKey)
		sigOf = func([]byte) []byte { return recordedSig }
	case "claim-garbage-sig":
		authPub = pubBytes(&kB.PublicKey)
		k := tape.Draw(6)
		sub = fmt.Sprint(k)
		g := tape.Bytes(8)
		sigOf = func(ch []byte) []byte {
			switch k {
			case 0:
				return nil
			case 1:
				return make([]byte, 65)
			case 2:
				return bytes.Repeat(g, 9)[:65]
			case 3:
				return bytes.Repeat(g, 9)[:64]
			case 4: // valid signature of the adversary with the recovery id altered
				s := sign(ch, kE)
				s[64] ^= 1
				return s
			default: // oversized
				return bytes.Repeat(g, 40)
			}
		}
	case "wrong-challenge":
		k := tape.Draw(4)
		sub = fmt.Sprint(k)
		fi, fb := tape.Draw(32), uint(tape.Draw(8))
		sigOf = func(ch []byte) []byte {
			c := append([]byte(nil), ch...)
			switch k {
			case 0:
				c[fi] ^= 1 << fb
			case 1: // the challenge reversed
				for i, j := 0, len(c)-1; i < j; i, j = i+1, j-1 {
					c[i], c[j] = c[j], c[i]
				}
			case 2:
				c = make([]byte, 32)
			default: // signs the peer's ephemeral key instead of the challenge
				c = append([]byte(nil), ev.remEph[:]...)
			}
			return sign(c, kE)
		}
	case "low-order":
		k := tape.Draw(len(lowOrderPoints))
		sub = fmt.Sprint(k)
		copy(claimed[:], lowOrderPoints[k])
	case "bad-eph":
		k := tape.Draw(7)
		sub = fmt.Sprint(k)
		switch k {
		case 0:
			ephMsg = delimited(nil)
		case 1:
			ephMsg = delimited(append([]byte{0x0a, 31}, tape.Bytes(31)...))
		case 2:
			ephMsg = delimited(append([]byte{0x0a, 64}, bytes.Repeat(tape.Bytes(8), 8)...))
		case 3:
			ephMsg = []byte{0xff, 0xff, 0xff, 0xff, 0xff, 0xff, 0xff, 0xff, 0xff, 0x01}
		case 4:
			ephMsg = []byte{0xff, 0xff, 0xff, 0xff, 0xff, 0xff, 0xff, 0xff, 0xff, 0xff, 0xff}
		case 5:
			ephMsg = delimited(tape.Bytes(tape.Range(1, 40)))
		default:
			ephMsg = append([]byte{0x80, 0x80, 0x40}, tape.Bytes(16)...) // claims 1 MiB, sends 16 bytes
		}
	case "bad-auth":
		k := tape.Draw(9)
		sub = fmt.Sprint(k)
		good := pubBytes(&kE.PublicKey)
		switch k {
		case 0:
			rawAuth = delimited(nil)
		case 1:
			rawAuth = delimited(authBody(nil, bytes.Repeat([]byte{1}, 65)))
		case 2:
			rawAuth = delimited(authBody(good[:33], bytes.Repeat([]byte{1}, 65)))
		case 3:
			rawAuth = delimited(authBody(good[1:], bytes.Repeat([]byte{1}, 65)))
		case 4: // 65 bytes, not a curve point
			rawAuth = delimited(authBody(append([]byte{4}, bytes.Repeat([]byte{0xff}, 64)...), bytes.Repeat([]byte{1}, 65)))
		case 5:
			rawAuth = delimited(tape.Bytes(tape.Range(1, 60)))
		case 6:
			rawAuth = []byte{0xff, 0xff, 0xff, 0xff, 0xff, 0xff, 0xff, 0xff, 0xff, 0x01}
		case 7: // sig field only
			rawAuth = delimited(append([]byte{0x12, 65}, make([]byte, 65)...))
		default: // key message with an empty oneof
			rawAuth = delimited([]byte{0x0a, 0x00, 0x12, 0x01, 0x00})
		}
	}
	if sub != "" {
		w.ah.Add(sub)
		w.note("variant %s", sub)
	}
	w.spawn(func() {
		var err error
		if ephMsg != nil {
			_, err = x.Write(ephMsg)
		} else {
			err = ev.sendEph(claimed[:])
		}
		if err == nil {
			err = ev.recvEph()
		}
		if err == nil {
			ev.derive(claimed)
			if rawAuth != nil {
				err = ev.writePlain(rawAuth)
			} else {
				err = ev.sendAuth(authPub, sigOf(ev.challenge[:]))
			}
		}
		if err == nil {
			err = ev.recvAuth()
		}
		st.finish(err)
	})
	w.pump([]*link{xy, yx}, 10, nil)
	if w.checkHsPanic("V", hv) {
		return
	}
	sc, err, done, _ := hv.get()
	completed := done && err == nil
	w.note("V done=%v completed=%v evilDone=%v evilOK=%v", done, completed, st.isDone(), st.isDone() && st.err == nil)
	switch attack {
	case "honest":
		if !completed || !st.isDone() || st.err != nil {
			w.violate("interop", "honest handshake between the real endpoint and an independent implementation failed", fmt.Sprintf("real: done=%v err=%v; independent: done=%v err=%v", done, err, st.isDone(), st.err))
			return
		}
		pk := sc.RemotePubKey()
		if !samePub(&pk, &kE.PublicKey) || !samePub(ev.remPub, &kV.PublicKey) {
			w.violate("remote-key", "handshake completed with a remote key that is not the peer's", "honest independent peer")
			return
		}
		w.res.NonTrivial = false
	default:
		if completed {
			pk := sc.RemotePubKey()
			who := "the adversary's own key"
			if samePub(&pk, &kB.PublicKey) {
				who = "a key whose private key the peer does not hold"
			}
			sig := map[string]string{
				"claim-own-sig":      "handshake completed for an identity whose private key the peer lacks (signature made with another key)",
				"claim-replayed-sig": "handshake completed for an identity whose private key the peer lacks (signature replayed from another session)",
				"claim-garbage-sig":  "handshake completed for an identity whose private key the peer lacks (malformed signature)",
				"wrong-challenge":    "handshake completed although the signature does not cover this session's challenge",
				"low-order":          "handshake completed with a small-order ephemeral key (shared secret known to everyone)",
				"bad-eph":            "handshake completed after a malformed ephemeral key message",
				"bad-auth":           "handshake completed after a malformed authentication message",
			}[attack]
			w.violate("authentication", sig, fmt.Sprintf("attack %s/%s: real endpoint completed, RemotePubKey is %s", attack, sub, who))
			return
		}
		if attack == "low-order" && len(yx.origRecs) > 1 {
			w.violate("authentication", "real endpoint went on to send its authentication frame after receiving a small-order ephemeral key", fmt.Sprintf("point #%s", sub))
			return
		}
		w.res.NonTrivial = done // the real endpoint rejected the attack
	}
}

// relay: M sits between real A and real B with its own ephemeral keys on both
// sides and forwards each side's authentication message to the other.
func (w *world) hsRelay(kA, kB *ecdsa.PrivateKey) {
	a, ma, l1, l2 := w.pipe(0, 0)
	mb, b, l3, l4 := w.pipe(0, 0)
	defer func() {
		a.Close()
		ma.Close()
		mb.Close()
		b.Close()
		synctest.Wait()
	}()
	ha := w.startHandshake(a, kA)
	hb := w.startHandshake(b, kB)
	ea, eb := newEvil(ma, w.ephSecret()), newEvil(mb, w.ephSecret())
	st := &evilScript{}
	w.spawn(func() {
		err := ea.sendEph(ea.ephPub[:])
		if err == nil {
			err = eb.sendEph(eb.ephPub[:])
		}
		if err == nil {
			err = ea.recvEph()
		}
		if err == nil {
			err = eb.recvEph()
		}
		if err != nil {
			st.finish(err)
			return
		}
		ea.derive(ea.ephPub)
		eb.derive(eb.ephPub)
		// read both genuine auth messages (their signatures fail against M's view only if
		// the endpoints are honest, which they are; ignore the verification result)
		ea.recvAuth()
		eb.recvAuth()
		if ea.remPub == nil || eb.remPub == nil {
			st.finish(fmt.Errorf("relay could not read the auth messages"))
			return
		}
		err = ea.sendAuth(pubBytes(eb.remPub), eb.remSig)
		if err == nil {
			err = eb.sendAuth(pubBytes(ea.remPub), ea.remSig)
		}
		st.finish(err)
	})
	w.pump([]*link{l1, l2, l3, l4}, 10, nil)
	if w.checkHsPanic("A", ha) || w.checkHsPanic("B", hb) {
		return
	}
	sa, erra, da, _ := ha.get()
	sb, errb, db, _ := hb.get()
	w.note("relay A done=%v ok=%v B done=%v ok=%v relayed=%v", da, da && erra == nil, db, db && errb == nil, st.isDone() && st.err == nil)
	if !st.isDone() || st.err != nil {
		w.res.Infra = fmt.Sprintf("relay script did not run to completion: %v", st.err)
		return
	}
	if da && erra == nil {
		pk := sa.RemotePubKey()
		w.violate("authentication", "handshake completed through a relaying man in the middle with substituted ephemeral keys", fmt.Sprintf("A completed; sees B's key: %v", samePub(&pk, &kB.PublicKey)))
		return
	}
	if db && errb == nil {
		pk := sb.RemotePubKey()
		w.violate("authentication", "handshake completed through a relaying man in the middle with substituted ephemeral keys", fmt.Sprintf("B completed; sees A's key: %v", samePub(&pk, &kA.PublicKey)))
		return
	}
	w.res.NonTrivial = da && db
}

// reflect: everything A writes comes back to A.
func (w *world) hsReflect(kA *ecdsa.PrivateKey) {
	l := newLink("a>a", 0)
	a := &pipeEnd{name: "a", in: l, out: l}
	defer func() {
		l.closeWriter()
		l.closeReader()
		synctest.Wait()
	}()
	ha := w.startHandshake(a, kA)
	w.pump([]*link{l}, 10, nil)
	if w.checkHsPanic("A", ha) {
		return
	}
	_, err, done, _ := ha.get()
	w.note("reflect A done=%v ok=%v", done, done && err == nil)
	if done && err == nil {
		w.violate("authentication", "handshake completed against a reflection of the endpoint's own messages", "A authenticated itself")
		return
	}
	w.res.NonTrivial = done
}

// ---- evilframes ----

func (w *world) scenarioEvilFrames() {
	tape := w.tape
	kV, kE := identity("V"), identity("E")
	x, y, xy, yx := w.pipe(0, 0)
	defer func() {
		x.Close()
		y.Close()
		synctest.Wait()
	}()
	hv := w.startHandshake(y, kV)
	ev := newEvil(x, w.ephSecret())
	st := &evilScript{}
	w.spawn(func() {
		err := ev.sendEph(ev.ephPub[:])
		if err == nil {
			err = ev.recvEph()
		}
		if err == nil {
			ev.derive(ev.ephPub)
			err = ev.sendAuth(pubBytes(&kE.PublicKey), sign(ev.challenge[:], kE))
		}
		if err == nil {
			err = ev.recvAuth()
		}
		st.finish(err)
	})
	w.pump([]*link{xy, yx}, 6, nil)
	if w.checkHsPanic("V", hv) {
		return
	}
	sc, err, done, _ := hv.get()
	if !done || err != nil || !st.isDone() || st.err != nil {
		w.violate("interop", "honest handshake between the real endpoint and an independent implementation failed", fmt.Sprintf("real: done=%v err=%v; independent: done=%v err=%v", done, err, st.isDone(), st.err))
		return
	}
	w.step("evilframes established")

	// 1. real endpoint writes, the independent implementation decrypts
	nW := tape.Range(0, 6)
	var wrote []byte
	for i := 0; i < nW; i++ {
		var n int
		switch tape.Weighted(3, 2, 2, 2) {
		case 0:
			n = tape.Range(1, 100)
		case 1:
			n = tape.Range(1020, 1030)
		case 2:
			n = 1024 * tape.Range(1, 2)
		default:
			n = tape.Range(1, 3500)
		}
		data := payload(0x77, len(wrote), n)
		w.step("V write %d", n)
		w.ah.Add("vw")
		var wn int
		var werr error
		var pnk string
		func() {
			defer func() {
				if p := recover(); p != nil {
					pnk = fmt.Sprint(p)
				}
			}()
			wn, werr = sc.Write(data) // unbounded pipe: never parks
		}()
		if pnk != "" {
			w.violate("panic", "panic in SecretConnection.Write: "+firstLine(pnk), pnk)
			return
		}
		if werr != nil || wn != n {
			w.violate("write-error", "Write failed on an open, uncut connection", fmt.Sprintf("Write(%d) = %d, %v", n, wn, werr))
			return
		}
		wrote = append(wrote, data...)
	}
	if len(wrote) > 0 {
		rs := &evilScript{}
		var got []byte
		w.spawn(func() {
			for len(got) < len(wrote) {
				f, err := ev.readFrame()
				if err != nil {
					rs.finish(err)
					return
				}
				got = append(got, f...)
			}
			rs.finish(nil)
		})
		w.pump([]*link{yx}, 6, nil)
		if !rs.isDone() || rs.err != nil || !bytes.Equal(got, wrote) {
			w.violate("interop-frames", "frames written by the real endpoint are not what an independent implementation of the frame format reads", fmt.Sprintf("wrote %d bytes; independent reader: done=%v err=%v got %d bytes equal=%v", len(wrote), rs.isDone(), rs.err, len(got), bytes.Equal(got, wrote)))
			return
		}
		w.note("independent reader got %d bytes", len(got))
	}

	// 2. adversary with keys sends crafted frames; real endpoint reads
	nF := tape.Range(1, 8)
	var expect []byte
	bad := ""
	for i := 0; i < nF && bad == ""; i++ {
		kind := tape.Weighted(6, 1, 2, 1, 1, 1)
		switch kind {
		case 0, 1: // honest frame (1: empty)
			n := 0
			if kind == 0 {
				n = tape.Range(1, evFrameData)
			}
			d := payload(0x99, len(expect), n)
			x.Write(ev.sealFrame(uint32(n), d, ev.sendNonce))
			ev.sendNonce++
			expect = append(expect, d...)
			w.step("E frame ok %d", n)
			w.ah.Add("ok")
		case 2: // length field beyond the frame
			lf := []uint32{evFrameData + 1, 2000, 0x7fffffff, 0xffffffff, 0x80000000, 1028, 1029}[tape.Draw(7)]
			x.Write(ev.sealFrame(lf, payload(0x55, 0, evFrameData), ev.sendNonce))
			ev.sendNonce++
			bad = fmt.Sprintf("length-field-%d", lf)
		case 3: // nonce skipped
			x.Write(ev.sealFrame(5, []byte("hello"), ev.sendNonce+1))
			bad = "nonce-skipped"
		case 4: // nonce reused
			if ev.sendNonce == 0 {
				continue
			}
			x.Write(ev.sealFrame(5, []byte("hello"), ev.sendNonce-1))
			bad = "nonce-reused"
		default: // sealed with the other direction's key
			e2 := *ev
			e2.sendKey = ev.recvKey
			x.Write(e2.sealFrame(5, []byte("hello"), ev.sendNonce))
			bad = "wrong-key"
		}
	}
	if bad != "" {
		w.step("E frame bad %s", bad)
		w.ah.Add("bad", bad[:5])
		w.res.Fault("evil-frame-" + bad[:5])
		// something valid after it, to see whether it is swallowed
		x.Write(ev.sealFrame(3, []byte("end"), ev.sendNonce))
	}
	rr := &evilScript{}
	var got []byte
	var rpnk string
	bufN := []int{4096, 1, 7, 1024, 1500}[tape.Draw(5)]
	w.spawn(func() {
		defer func() {
			if p := recover(); p != nil {
				rpnk = fmt.Sprint(p)
				rr.finish(fmt.Errorf("panic"))
			}
		}()
		buf := make([]byte, bufN)
		for len(got) < len(expect)+8 {
			n, err := sc.Read(buf)
			got = append(got, buf[:n]...)
			if err != nil {
				rr.finish(err)
				return
			}
		}
		rr.finish(nil)
	})
	w.pump([]*link{xy}, 8, nil)
	if rpnk != "" {
		w.violate("panic", "panic in SecretConnection.Read: "+firstLine(rpnk), "after "+bad+": "+rpnk)
		return
	}
	w.note("V read %d bytes err=%v", len(got), rr.isDone())
	if !bytes.HasPrefix(got, expect) && !bytes.HasPrefix(expect, got) || len(got) > len(expect) {
		w.violate("plaintext", "plaintext read differs from the valid frames sent before the first invalid frame", fmt.Sprintf("after %s: expected %d bytes, got %d (first 8: %x)", bad, len(expect), len(got), head(got)))
		return
	}
	if len(got) < len(expect) {
		w.violate("lost", "plaintext carried by intact frames was not delivered", fmt.Sprintf("expected %d bytes, got %d, reader err=%v", len(expect), len(got), rr.err))
		return
	}
	if bad != "" && !rr.isDone() {
		w.violate("tamper-undetected", "an invalid frame from an authenticated peer ("+strings0(bad)+") was consumed without an error", bad)
		return
	}
	if bad == "" && rr.isDone() {
		w.violate("read-error", "Read failed although no ciphertext was touched", fmt.Sprint(rr.err))
		return
	}
	w.res.NonTrivial = bad != "" && len(expect)+len(wrote) > 0
}

func strings0(bad string) string {
	for i, c := range bad {
		if c >= '0' && c <= '9' {
			return bad[:i] + "N"
		}
	}
	return bad
}
