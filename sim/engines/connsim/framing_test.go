package connsim

// Mode "framing" (property C18): the remote endpoint is the adversary. It owns
// a real, established SecretConnection and writes raw bytes into it; the other
// side is a real MConnection. The adversary's items are generated together
// with their meaning, so the expected behaviour of the receiver comes from a
// small model (per-channel reassembly with a capacity), not from the product.

import (
	"bytes"
	"encoding/binary"
	"fmt"
	"strings"
	"testing/synctest"
	"time"

	"github.com/kardiachain/go-kardia/lib/log"
	"github.com/kardiachain/go-kardia/lib/p2p/conn"
)

func pbVarint(x uint64) []byte {
	var b [10]byte
	return append([]byte(nil), b[:binary.PutUvarint(b[:], x)]...)
}

func pbBytes(field int, b []byte) []byte {
	out := pbVarint(uint64(field<<3 | 2))
	out = append(out, pbVarint(uint64(len(b)))...)
	return append(out, b...)
}

func pbInt(field int, v uint64) []byte {
	return append(pbVarint(uint64(field<<3)), pbVarint(v)...)
}

// packetMsg encodes Packet{PacketMsg{channel, eof, data}} by hand.
func packetMsg(ch int64, eof bool, data []byte) []byte {
	var m []byte
	if ch != 0 {
		m = append(m, pbInt(1, uint64(ch))...)
	}
	if eof {
		m = append(m, pbInt(2, 1)...)
	}
	if len(data) > 0 {
		m = append(m, pbBytes(3, data)...)
	}
	return pbBytes(3, m)
}

func (w *world) scenarioFraming() {
	tape := w.tape
	ms := time.Millisecond
	strict := w.opt.Int("strict_chid", 1) == 1
	cfg := conn.MConnConfig{SendRate: 1 << 40, RecvRate: 1 << 40}
	cfg.MaxPacketMsgPayloadSize = []int{1024, 256, 64}[tape.Draw(3)]
	cfg.FlushThrottle = 10*ms + 500*time.Nanosecond
	cfg.PingInterval, cfg.PongTimeout = 3600*time.Second+time.Microsecond, 45*time.Second
	ids := []byte{0x20, 0x21, 0x30}
	var chans []chanSpec
	for i, n := 0, tape.Range(1, 3); i < n; i++ {
		chans = append(chans, chanSpec{id: ids[i], prio: tape.Range(1, 5), sendQ: 1,
			recvCap: []int{1024, 100, 2048, 4096}[tape.Draw(4)], recvBuf: []int{4096, 16}[tape.Draw(2)]})
	}
	w.step("framing payload=%d chans=%v", cfg.MaxPacketMsgPayloadSize, chans)
	a, b, ab, ba := w.pipe(0, 0)
	kA, kB := identity("A"), identity("B")
	ha := w.startHandshake(a, kA)
	hb := w.startHandshake(b, kB)
	w.pump([]*link{ab, ba}, 0, nil)
	sa, ea, da, _ := ha.get()
	sb, eb, db, _ := hb.get()
	if !(da && db && ea == nil && eb == nil) {
		w.res.Infra = fmt.Sprintf("framing: handshake failed: %v %v", ea, eb)
		a.Close()
		b.Close()
		return
	}
	e := &mEnd{name: "B", chans: chans, expect: map[byte]map[int][]*msgSpec{}, delivered: map[byte]int{}}
	e.mc = conn.NewMConnectionWithConfig(sb, descs(chans), e.onReceive, e.onError, cfg)
	e.mc.SetLogger(log.New())
	if err := e.mc.Start(); err != nil {
		w.res.Infra = "MConnection.Start: " + err.Error()
		return
	}
	defer func() {
		if e.mc.IsRunning() {
			e.mc.Stop()
		}
		a.Close()
		b.Close()
		synctest.Wait()
	}()
	synctest.Wait()
	maxPkt := e.mc.VerifMaxPacketMsgSize()

	// the model
	buf := map[byte][]byte{}
	var expectDel []delivery // in order
	fatal := ""              // first item after which the receiver must fail
	lenient := false         // an item of unknown meaning was sent: only invariants from here
	capOf := func(id byte) int { c, _ := e.capOf(id); return c }
	write := func(raw []byte) {
		if _, err := sa.Write(raw); err != nil {
			w.note("adversary write failed: %v", err != nil)
		}
	}
	nItems := tape.Range(1, w.opt.Int("items", 30))
	nDelSeen := 0
	check := func() bool {
		e.mu.Lock()
		dels := append([]delivery(nil), e.dels...)
		errs := append([]string(nil), e.errs...)
		e.mu.Unlock()
		for _, s := range errs {
			if strings.Contains(s, "recovered from panic") {
				w.violate("panic", "panic inside MConnection while reading peer bytes: "+firstLine(strings.TrimPrefix(s, "recovered from panic: ")), s)
				return false
			}
		}
		for ; nDelSeen < len(dels); nDelSeen++ {
			d := dels[nDelSeen]
			w.note("B recv ch=%02x n=%d", d.ch, d.n)
			if c, ok := e.capOf(d.ch); !ok {
				w.violate("unknown-channel", "message delivered on a channel the receiver does not have", fmt.Sprintf("ch %02x", d.ch))
				return false
			} else if d.n > c {
				w.violate("oversize", "message above RecvMessageCapacity was delivered", fmt.Sprintf("ch %02x capacity %d delivered %d", d.ch, c, d.n))
				return false
			}
			if lenient {
				continue
			}
			if nDelSeen >= len(expectDel) {
				why := "nothing was due"
				if strings.Contains(fatal, "outside the byte range") {
					w.violate("alias-channel", "packet whose channel id is outside the byte range was accepted as channel (id mod 256)", fmt.Sprintf("delivered on ch %02x: %q", d.ch, d.data))
					return false
				}
				if fatal != "" {
					why = "the stream was invalid from " + fatal + " on"
				}
				w.violate("ghost-message", "receiver delivered a message the peer's byte stream does not contain", fmt.Sprintf("ch %02x %d bytes; %s", d.ch, d.n, why))
				return false
			}
			x := expectDel[nDelSeen]
			if x.ch != d.ch || !bytes.Equal(x.data, d.data) {
				w.violate("reassembly", "reassembled message differs from the packets the peer sent", fmt.Sprintf("expected ch %02x %d bytes, got ch %02x %d bytes", x.ch, len(x.data), d.ch, d.n))
				return false
			}
		}
		for _, c := range chans {
			if n, _ := e.mc.VerifRecving(c.id); n > c.recvCap {
				w.violate("recv-buffer", "channel reassembly buffer grew beyond RecvMessageCapacity", fmt.Sprintf("ch %02x holds %d bytes, capacity %d", c.id, n, c.recvCap))
				return false
			}
		}
		return true
	}
	closed := false
	for i := 0; i < nItems && fatal == "" && !closed && !w.failed(); i++ {
		c := chans[tape.Draw(len(chans))]
		kind := tape.Weighted(10, 2, 2, 2, 2, 1, 1, 1, 2, 1, 1, 1, 1)
		name := ""
		switch kind {
		case 0: // well-formed packet
			n := tape.Range(0, cfg.MaxPacketMsgPayloadSize)
			if tape.Chance(1, 4) {
				n = cfg.MaxPacketMsgPayloadSize
			}
			eof := tape.Chance(2, 5)
			data := payload(uint64(i)<<8|0x33, 0, n)
			write(delimited(packetMsg(int64(c.id), eof, data)))
			name = fmt.Sprintf("packet ch=%02x n=%d eof=%v", c.id, n, eof)
			w.ah.Add("pkt", fmt.Sprint(eof))
			if len(buf[c.id])+n > c.recvCap {
				fatal = "a packet that takes the message over RecvMessageCapacity"
				w.res.Fault("framing-over-capacity")
			} else {
				buf[c.id] = append(buf[c.id], data...)
				if eof {
					expectDel = append(expectDel, delivery{ch: c.id, data: buf[c.id]})
					buf[c.id] = nil
				}
			}
		case 1: // packet far above the packet size limit
			n := cfg.MaxPacketMsgPayloadSize*2 + tape.Range(0, 2000)
			write(delimited(packetMsg(int64(c.id), true, make([]byte, n))))
			name, fatal = fmt.Sprintf("oversize packet n=%d", n), "a packet above the packet size limit"
		case 2: // unknown channel
			id := []int64{0x7f, 0, 0x22, 0xff}[tape.Draw(4)]
			write(delimited(packetMsg(id, true, []byte("x"))))
			name, fatal = fmt.Sprintf("unknown channel %x", id), "a packet for an unknown channel"
		case 3: // channel id outside the byte range that aliases a known channel
			id := []int64{int64(c.id) + 256, int64(c.id) + 65536, int64(c.id) - 256, int64(c.id) | 1<<31}[tape.Draw(4)]
			raw := packetMsg(0, true, []byte("alias"))
			inner := append(pbInt(1, uint64(id)), pbInt(2, 1)...)
			inner = append(inner, pbBytes(3, []byte("alias"))...)
			raw = pbBytes(3, inner)
			write(delimited(raw))
			name = fmt.Sprintf("aliasing channel id %d", id)
			if strict {
				fatal = "a packet whose channel id is outside the byte range"
			} else {
				lenient = true
			}
			w.res.Fault("framing-alias-channel")
		case 4: // length prefix beyond the limit, with or without body
			l := []uint64{uint64(maxPkt) + 1, 1 << 20, 1 << 31, 1<<63 - 1, 1<<64 - 1}[tape.Draw(5)]
			raw := pbVarint(l)
			if tape.Chance(1, 2) {
				raw = append(raw, make([]byte, 64)...)
			}
			write(raw)
			name, fatal = fmt.Sprintf("length prefix %d", l), "a length prefix above the packet size limit"
		case 5: // varint that never ends
			write(bytes.Repeat([]byte{0xff}, 11))
			name, fatal = "endless varint", "a malformed length prefix"
		case 6: // body that cannot be a protobuf message
			write(delimited([]byte{0xff, 0xff, 0xff, 0xff, 0xff, 0xff, 0xff, 0xff, 0xff, 0xff, 0xff}))
			name, fatal = "unparsable body", "a packet body that is not a protobuf message"
		case 7: // empty packet / unknown oneof member
			if tape.Chance(1, 2) {
				write(delimited(nil))
				name = "empty packet"
			} else {
				write(delimited(pbBytes(9, []byte("zz"))))
				name = "unknown packet kind"
			}
			fatal = "a packet of no known kind"
		case 8: // ping / pong
			if tape.Chance(1, 2) {
				write(delimited(pbBytes(1, nil)))
				name = "ping"
			} else {
				write(delimited(pbBytes(2, nil)))
				name = "pong"
			}
		case 9: // random body of valid length: meaning unknown
			write(delimited(tape.Bytes(tape.Range(1, 24))))
			name, lenient = "random body", true
		case 10: // packet msg with wrong wire types inside
			inner := append(pbBytes(1, []byte{1, 2}), pbBytes(2, []byte{1})...)
			write(delimited(pbBytes(3, inner)))
			name, fatal = "packet with wrong wire types", "a packet body that is not a protobuf message"
		case 11: // truncated packet, then the peer closes
			full := delimited(packetMsg(int64(c.id), true, payload(9, 0, 40)))
			write(full[:tape.Range(1, len(full)-1)])
			name, fatal, closed = "truncated packet then close", "a truncated packet followed by end of stream", true
		default: // many tiny EOF-less packets (stream without end)
			k := tape.Range(20, 200)
			var raw []byte
			one := delimited(packetMsg(int64(c.id), false, []byte{0xab}))
			for j := 0; j < k; j++ {
				raw = append(raw, one...)
			}
			write(raw)
			name = fmt.Sprintf("%d one-byte packets without EOF on ch=%02x", k, c.id)
			if len(buf[c.id])+k > c.recvCap {
				fatal = "a packet that takes the message over RecvMessageCapacity"
				w.res.Fault("framing-over-capacity")
			} else {
				buf[c.id] = append(buf[c.id], bytes.Repeat([]byte{0xab}, k)...)
			}
		}
		w.step("item %s", name)
		if kind != 0 && kind != 8 {
			w.res.Fault("framing-item-" + fmt.Sprint(kind))
			w.ah.Add("bad", fmt.Sprint(kind))
		}
		if closed {
			a.Close()
		}
		// deliver with tape-chosen chunking
		for r := 0; r < 6; r++ {
			p := ab.pending()
			if p == 0 {
				break
			}
			ab.release(w.drawChunk(p))
			w.settle()
			if !check() {
				return
			}
		}
		if p := ab.pending(); p > 0 {
			ab.release(p)
			w.settle()
		}
		if tape.Chance(1, 6) {
			time.Sleep(time.Duration(tape.Range(1, 300)) * ms)
			w.settle()
		}
		if !check() {
			return
		}
		_ = capOf
	}
	time.Sleep(200 * ms)
	w.settle()
	if !check() {
		return
	}
	e.mu.Lock()
	nErr := len(e.errs)
	var errText string
	if nErr > 0 {
		errText = e.errs[0]
	}
	e.mu.Unlock()
	w.note("final delivered=%d expected=%d errored=%v running=%v", nDelSeen, len(expectDel), nErr > 0, e.mc.IsRunning())
	if nErr > 1 {
		w.violate("error-twice", "onError called more than once", fmt.Sprint(nErr))
		return
	}
	if !lenient {
		if nDelSeen < len(expectDel) {
			w.violate("lost-message", "well-formed message preceding any malformed input was not delivered", fmt.Sprintf("delivered %d of %d", nDelSeen, len(expectDel)))
			return
		}
		if fatal != "" && nErr == 0 {
			w.violate("malformed-accepted", "receiver keeps running after "+fatal, fmt.Sprintf("running=%v", e.mc.IsRunning()))
			return
		}
		if fatal == "" && nErr > 0 {
			w.violate("spurious-error", "connection failed although every packet was well-formed and within capacity", errText)
			return
		}
	}
	if nErr > 0 && e.mc.IsRunning() {
		w.violate("error-not-stopped", "connection still running after reporting an error", errText)
		return
	}
	// the receiver's own output (pongs) stays bounded by what it was asked
	if ba.origTotal > 1079+1044*(nItems+2) {
		w.violate("output-bound", "receiver wrote more frames than the peer sent requests", fmt.Sprintf("%d bytes", ba.origTotal))
		return
	}
	w.res.NonTrivial = (fatal != "" || lenient) && (nDelSeen > 0 || len(expectDel) == 0 && nItems > 1)
}
