package connsim

// Scenario "stream": two real SecretConnections, one writer and one reader
// goroutine per direction, scheduler-chosen writes, reads, releases and
// man-in-the-middle edits (also during the handshake).

import (
	"bytes"
	"fmt"
	"sync"
	"testing/synctest"

	"github.com/kardiachain/go-kardia/lib/p2p/conn"
)

// frame geometry observed on a link: first record is the plain ephemeral key
// message, every later record is one sealed frame.
func (l *link) geometry() (first, sealed int) {
	if len(l.origRecs) > 0 {
		first = len(l.origRecs[0])
	}
	if len(l.origRecs) > 1 {
		sealed = len(l.origRecs[1])
	}
	return
}

// badFrameDelivered: the reader has been handed a complete frame that differs
// from what the writer wrote at that position.
func (l *link) badFrameDelivered() bool {
	if l.divergeAt < 0 {
		return false
	}
	first, sealed := l.geometry()
	if l.divergeAt < first {
		return l.delivered >= first
	}
	if sealed == 0 {
		return false
	}
	f := (l.divergeAt - first) / sealed
	return l.delivered >= first+(f+1)*sealed
}

// plainBounds returns the bounds on the plaintext the reader may/must obtain
// given where the delivered stream diverged: every Write call completed
// before the first bad record must arrive (lo); nothing beyond the last good
// record's call may arrive (hi). Without divergence lo=hi=everything delivered.
func (l *link) plainBounds() (lo, hi int) {
	limit := l.delivered
	if l.divergeAt >= 0 && l.divergeAt < limit {
		limit = l.divergeAt
	}
	off := 0
	for i, r := range l.origRecs {
		if off+len(r) > limit { // first record not (intact and fully) delivered
			return l.origStamp[i][0], hi
		}
		off += len(r)
		hi = l.origStamp[i][1]
	}
	return hi, hi
}

type readResult struct {
	n    int
	data []byte
	err  error
	pnk  string
}

type streamDir struct {
	name    string
	l       *link
	sc      *conn.SecretConnection // writer's endpoint
	rsc     *conn.SecretConnection // reader's endpoint
	key     uint64
	mu      sync.Mutex
	wcmd    chan []byte
	rcmd    chan int
	wBusy   bool
	rBusy   bool
	wres    []readResult // completed writes (n, err)
	rres    []readResult
	wsizes  []int
	written int // plaintext submitted
	wdone   int // plaintext of completed writes
	got     int // plaintext verified at the reader
	rerr    error
	werr    error
	readsAfterErr int
	tampered bool
}

func (w *world) startStreamDir(d *streamDir) {
	d.wcmd = make(chan []byte)
	d.rcmd = make(chan int)
	w.spawn(func() {
		for data := range d.wcmd {
			var r readResult
			func() {
				defer func() {
					if p := recover(); p != nil {
						r.pnk = fmt.Sprint(p)
					}
				}()
				r.n, r.err = d.sc.Write(data)
			}()
			d.mu.Lock()
			d.wres = append(d.wres, r)
			d.wBusy = false
			d.mu.Unlock()
		}
	})
	w.spawn(func() {
		for n := range d.rcmd {
			var r readResult
			buf := make([]byte, n)
			func() {
				defer func() {
					if p := recover(); p != nil {
						r.pnk = fmt.Sprint(p)
					}
				}()
				r.n, r.err = d.rsc.Read(buf)
			}()
			if r.n >= 0 && r.n <= n {
				r.data = buf[:r.n]
			}
			d.mu.Lock()
			d.rres = append(d.rres, r)
			d.rBusy = false
			d.mu.Unlock()
		}
	})
}

// collect processes completed reads/writes of one direction; true = violation.
func (w *world) collectStream(d *streamDir) {
	d.mu.Lock()
	rres, wres := d.rres, d.wres
	d.rres, d.wres = nil, nil
	d.mu.Unlock()
	for _, r := range wres {
		size := d.wsizes[0]
		d.wsizes = d.wsizes[1:]
		if r.pnk != "" {
			w.violate("panic", "panic in SecretConnection.Write: "+firstLine(r.pnk), r.pnk)
			return
		}
		w.note("%s wrote n=%d err=%v", d.name, r.n, r.err != nil)
		if r.err != nil {
			d.werr = r.err
			if !d.l.cut && !d.l.rclosed && !d.l.broken {
				w.violate("write-error", "Write failed on an open, uncut connection", fmt.Sprintf("%s: Write(%d) = %d, %v", d.name, size, r.n, r.err))
				return
			}
			continue
		}
		if r.n != size {
			w.violate("write-count", "Write returned nil error with a short count", fmt.Sprintf("%s: Write(%d) = %d", d.name, size, r.n))
			return
		}
		d.wdone += size
	}
	for _, r := range rres {
		if r.pnk != "" {
			w.violate("panic", "panic in SecretConnection.Read: "+firstLine(r.pnk), r.pnk)
			return
		}
		w.note("%s read n=%d err=%v", d.name, r.n, r.err != nil)
		if r.data == nil && r.n != 0 {
			w.violate("read-count", "Read returned a count outside its buffer", fmt.Sprintf("%s: n=%d", d.name, r.n))
			return
		}
		if r.n > 0 {
			if d.rerr != nil {
				// Not demanded by the property: after rejecting an inserted frame the stream
				// may continue with the authentic next frame. Content is still checked below.
				w.res.Probe("read-continues-after-rejected-frame")
			}
			want := payload(d.key, d.got, r.n)
			if d.got+r.n > d.written || !bytes.Equal(want, r.data) {
				kind := "differs from what was written at that position (modified, duplicated or reordered)"
				if d.got+r.n > d.written {
					kind = "exceeds what was written"
				}
				w.violate("plaintext", "plaintext read "+kind, fmt.Sprintf("%s: at offset %d got %d bytes %x.. want %x.. (written %d, link diverged at %d)",
					d.name, d.got, r.n, head(r.data), head(want), d.written, d.l.divergeAt))
				return
			}
			d.got += r.n
		}
		if r.err != nil {
			if d.rerr == nil {
				d.rerr = r.err
				if d.l.divergeAt < 0 && !d.l.cut && !d.l.wclosed {
					w.violate("read-error", "Read failed although no ciphertext was touched", fmt.Sprintf("%s: %v after %d bytes", d.name, r.err, d.got))
					return
				}
			}
		}
	}
}

func head(b []byte) []byte {
	if len(b) > 8 {
		return b[:8]
	}
	return b
}

var mitmKinds = []string{"flip", "drop", "dup", "swap", "truncate", "replay", "inject", "cross"}

// mitmAct performs one tape-chosen edit on link l; returns its kind or "".
func (w *world) mitmAct(l *link) string {
	un := l.untouched()
	wt := []int{4, 2, 2, 2, 2, 2, 1, 1}
	if len(un) == 0 {
		wt = []int{0, 0, 0, 0, 0, 2, 1, 1}
	} else if len(un) < 2 {
		wt[3] = 0
	}
	if len(l.origRecs) == 0 {
		wt[5] = 0
	}
	if l.reverse == nil || len(l.reverse.origRecs) == 0 {
		wt[7] = 0
	}
	kind := mitmKinds[w.tape.Weighted(wt...)]
	switch kind {
	case "flip":
		if len(un) == 0 {
			return ""
		}
		i := un[w.tape.Draw(len(un))]
		n := len(l.q[i].data) * 8
		var bit int
		switch w.tape.Weighted(2, 2, 1) {
		case 0:
			bit = w.tape.Draw(n)
		case 1:
			bit = w.tape.Draw(min(n, 64)) // the first bytes (length field region)
		default:
			bit = n - 1 - w.tape.Draw(min(n, 128)) // the tag
		}
		l.mitmFlip(i, bit)
		w.step("mitm %s flip rec#%d bit %d", l.name, l.q[i].orig, bit)
	case "drop":
		if len(un) == 0 {
			return ""
		}
		i := un[w.tape.Draw(len(un))]
		o := l.q[i].orig
		l.mitmDrop(i)
		w.step("mitm %s drop rec#%d", l.name, o)
	case "dup":
		if len(un) == 0 {
			return ""
		}
		i := un[w.tape.Draw(len(un))]
		l.mitmDup(i)
		w.step("mitm %s dup rec#%d", l.name, l.q[i].orig)
	case "swap":
		if len(un) < 2 {
			return ""
		}
		a := w.tape.Draw(len(un) - 1)
		i, j := un[a], un[a+1]
		l.mitmSwap(i, j)
		w.step("mitm %s swap rec#%d rec#%d", l.name, l.q[j].orig, l.q[i].orig)
	case "truncate":
		if len(un) == 0 {
			return ""
		}
		i := un[w.tape.Draw(len(un))]
		o := l.q[i].orig
		keep := w.tape.Draw(len(l.q[i].data))
		l.mitmTruncate(i, keep)
		w.step("mitm %s truncate rec#%d to %d", l.name, o, keep)
	case "replay":
		done := len(l.origRecs)
		if done == 0 {
			return ""
		}
		o := w.tape.Draw(done)
		pos := len(l.q)
		if len(un) > 0 && w.tape.Chance(1, 2) {
			pos = un[w.tape.Draw(len(un))]
		}
		l.mitmReplay(pos, o)
		w.step("mitm %s replay rec#%d at q[%d]", l.name, o, pos)
	case "cross": // a frame of the opposite direction is reflected into this one
		o := w.tape.Draw(len(l.reverse.origRecs))
		pos := len(l.q)
		if len(un) > 0 && w.tape.Chance(1, 2) {
			pos = un[w.tape.Draw(len(un))]
		}
		l.mitmInject(pos, l.reverse.origRecs[o])
		w.step("mitm %s reflect rec#%d of %s at q[%d]", l.name, o, l.reverse.name, pos)
	case "inject":
		_, sealed := l.geometry()
		n := sealed
		if n == 0 || w.tape.Chance(1, 3) {
			n = w.tape.Range(1, 1200)
		}
		pos := len(l.q)
		if len(un) > 0 && w.tape.Chance(1, 2) {
			pos = un[w.tape.Draw(len(un))]
		}
		l.mitmInject(pos, w.tape.Bytes(min(n, 40)))
		if n > 40 {
			l.mitmInject(pos+1, make([]byte, n-40))
		}
		w.step("mitm %s inject %d bytes at q[%d]", l.name, n, pos)
	}
	w.mitm++
	w.res.Fault("mitm-" + kind)
	w.ah.Add("mitm", kind)
	return kind
}

func (w *world) scenarioStream() {
	tape := w.tape
	capOf := func() int {
		if tape.Chance(1, 3) {
			return tape.Range(1, 4) * 1000
		}
		return 0
	}
	a, b, ab, ba := w.pipe(capOf(), capOf())
	ka, kb := identity("A"), identity("B")
	hsMitm := tape.Chance(1, 6)
	w.step("stream caps=%d/%d hsMitm=%v", ab.capBytes, ba.capBytes, hsMitm)
	ha := w.startHandshake(a, ka)
	hb := w.startHandshake(b, kb)
	defer func() {
		a.Close()
		b.Close()
		synctest.Wait()
	}()
	links := []*link{ab, ba}
	bothDone := func() bool {
		_, _, d1, _ := ha.get()
		_, _, d2, _ := hb.get()
		return d1 && d2
	}
	if hsMitm {
		w.ah.Add("hs-mitm")
		// let some of the handshake flow, then edit queued handshake records
		for i, n := 0, tape.Range(0, 3); i < n; i++ {
			l := links[tape.Draw(2)]
			if p := l.pending(); p > 0 {
				l.release(w.drawChunk(p))
				w.settle()
			}
		}
		for i, n := 0, tape.Range(1, 2); i < n; i++ {
			w.mitmAct(links[tape.Draw(2)])
		}
	}
	w.pump(links, 12, bothDone)
	if w.checkHsPanic("A", ha) || w.checkHsPanic("B", hb) {
		return
	}
	sa, ea, da, _ := ha.get()
	sb, eb, db, _ := hb.get()
	w.note("handshake A done=%v ok=%v B done=%v ok=%v", da, da && ea == nil, db, db && eb == nil)
	// authentication oracle: whoever completes sees the true key of the other
	if da && ea == nil {
		pk := sa.RemotePubKey()
		if !samePub(&pk, &kb.PublicKey) {
			w.violate("remote-key", "handshake completed with a remote key that is not the peer's", "A sees a key different from B's")
			return
		}
	}
	if db && eb == nil {
		pk := sb.RemotePubKey()
		if !samePub(&pk, &ka.PublicKey) {
			w.violate("remote-key", "handshake completed with a remote key that is not the peer's", "B sees a key different from A's")
			return
		}
	}
	// tamper evidence during the handshake: the reader of an edited record must not complete
	if ba.divergeAt >= 0 && ba.divergeAt < ba.consumed && da && ea == nil {
		w.violate("hs-tamper", "handshake completed although a handshake record towards this side was altered", fmt.Sprintf("A completed; link b>a diverged at byte %d", ba.divergeAt))
		return
	}
	if ab.divergeAt >= 0 && ab.divergeAt < ab.consumed && db && eb == nil {
		w.violate("hs-tamper", "handshake completed although a handshake record towards this side was altered", fmt.Sprintf("B completed; link a>b diverged at byte %d", ab.divergeAt))
		return
	}
	if ab.divergeAt < 0 && ba.divergeAt < 0 && ab.delivered == ab.origTotal && ba.delivered == ba.origTotal {
		if !(da && ea == nil && db && eb == nil) {
			w.violate("hs-liveness", "handshake of two honest endpoints over an untouched pipe did not complete", fmt.Sprintf("A done=%v err=%v; B done=%v err=%v", da, ea, db, eb))
			return
		}
	}
	if !(da && ea == nil && db && eb == nil) {
		if w.mitm > 0 {
			w.res.NonTrivial = true
			w.res.Probe("handshake-broken-by-mitm")
		}
		return
	}
	if ab.divergeAt >= 0 || ba.divergeAt >= 0 {
		w.res.Probe("handshake-survived-edit") // e.g. an edit that restored the original order
	}

	dirs := []*streamDir{
		{name: "a>b", l: ab, sc: sa, rsc: sb, key: 0xA11CE},
		{name: "b>a", l: ba, sc: sb, rsc: sa, key: 0xB0B},
	}
	for _, d := range dirs {
		w.startStreamDir(d)
	}
	defer func() {
		for _, d := range dirs {
			close(d.wcmd)
			close(d.rcmd)
		}
	}()
	cut := false
	nAct := tape.Range(8, w.opt.Int("actions", 120))
	maxPlain := 24000
	for s := 0; s < nAct && !w.failed(); s++ {
		d := dirs[tape.Draw(2)]
		switch tape.Weighted(5, 5, 6, 1, 0) {
		case 0: // write
			if d.wBusy || d.written >= maxPlain || d.werr != nil {
				continue
			}
			var n int
			switch tape.Weighted(3, 3, 2, 2, 2) {
			case 0:
				n = tape.Range(1, 16)
			case 1:
				n = tape.Range(1, 1000)
			case 2:
				n = tape.Range(1020, 1030)
			case 3:
				n = 1024 * tape.Range(1, 3)
			default:
				n = tape.Range(1031, 5000)
			}
			d.l.mu.Lock()
			d.l.curLo, d.l.curHi = d.written, d.written+n
			d.l.mu.Unlock()
			data := payload(d.key, d.written, n)
			d.written += n
			d.wsizes = append(d.wsizes, n)
			d.wBusy = true
			w.step("%s write %d", d.name, n)
			w.ah.Add("w")
			d.wcmd <- data
		case 1: // read
			if d.rBusy || d.readsAfterErr >= 2 {
				continue
			}
			if d.rerr != nil {
				d.readsAfterErr++
			}
			var n int
			switch tape.Weighted(3, 2, 2, 2) {
			case 0:
				n = 4096
			case 1:
				n = tape.Range(1, 8)
			case 2:
				n = tape.Range(1, 1100)
			default:
				n = 1024
			}
			d.rBusy = true
			w.step("%s read %d", d.name, n)
			w.ah.Add("r")
			d.rcmd <- n
		case 2: // release
			p := d.l.pending()
			if p == 0 {
				continue
			}
			k := w.drawChunk(p)
			d.l.release(k)
			w.step("%s release %d of %d", d.name, k, p)
		case 3: // man in the middle
			if w.mitm >= 3 {
				continue
			}
			if tape.Chance(1, 8) && !cut {
				cut = true
				ab.sever()
				ba.sever()
				w.mitm++
				w.res.Fault("mitm-cut")
				w.ah.Add("mitm", "cut")
				w.step("mitm cut")
			} else if w.mitmAct(d.l) != "" {
				d.tampered = true
			}
		}
		w.settle()
		for _, d := range dirs {
			w.collectStream(d)
		}
	}
	if w.failed() {
		return
	}
	// final drain: release everything, read until the reader parks or fails
	w.note("drain")
	for round := 0; round < 400 && !w.failed(); round++ {
		progress := false
		for _, d := range dirs {
			if d.l.pending() > 0 {
				d.l.release(d.l.pending())
				progress = true
			}
			if !d.rBusy && d.rerr == nil {
				d.rBusy = true
				d.rcmd <- 4096
				progress = true
			}
		}
		w.settle()
		before := dirs[0].got + dirs[1].got
		for _, d := range dirs {
			w.collectStream(d)
		}
		if !progress || (dirs[0].got+dirs[1].got == before && allParkedOrFailed(dirs)) {
			break
		}
	}
	if w.failed() {
		return
	}
	for _, d := range dirs {
		lo, hi := d.l.plainBounds()
		w.note("%s final got=%d written=%d bounds=[%d,%d] rerr=%v diverged=%v", d.name, d.got, d.written, lo, hi, d.rerr != nil, d.l.divergeAt >= 0)
		if d.l.cut {
			continue
		}
		if d.got < lo && !d.wBusy {
			w.violate("lost", "plaintext carried by intact frames was not delivered", fmt.Sprintf("%s: read %d bytes, at least %d were carried by intact frames before any edit", d.name, d.got, lo))
			return
		}
		if d.l.badFrameDelivered() && d.rerr == nil {
			w.violate("tamper-undetected", "an altered, replayed or misplaced frame was consumed without an error", fmt.Sprintf("%s: link diverged at byte %d, %d bytes delivered, reader still waiting after %d plaintext bytes", d.name, d.l.divergeAt, d.l.delivered, d.got))
			return
		}
		if d.l.divergeAt < 0 && d.l.delivered == d.l.origTotal && d.got != d.written && d.werr == nil && !d.wBusy {
			w.violate("lost", "plaintext carried by intact frames was not delivered", fmt.Sprintf("%s: wrote %d read %d, nothing was touched", d.name, d.written, d.got))
			return
		}
	}
	work := dirs[0].got+dirs[1].got > 0
	w.res.NonTrivial = work && w.mitm > 0
	if work && dirs[0].got > 3000 && dirs[1].got > 3000 {
		w.res.Probe("stream-both-directions-multiframe")
	}
}

func allParkedOrFailed(dirs []*streamDir) bool {
	for _, d := range dirs {
		if !d.rBusy && d.rerr == nil {
			return false
		}
	}
	return true
}
