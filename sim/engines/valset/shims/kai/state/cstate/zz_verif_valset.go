package cstate

// Export shim added at build time through -overlay (no file in /repo is edited).
// No logic: re-export of an unexported identifier.

var VerifValsetUpdateState = updateState
