// Engine valset (C12): tape-generated validator-set histories run against the
// real types.ValidatorSet and, step by step, against an executable
// transcription of the weighted round-robin specification in big integers.
package valset

import (
	"fmt"
	"math"
	"math/big"
	"sort"
	"testing"

	"verif/sim/core"

	"github.com/kardiachain/go-kardia/kai/state/cstate"
	"github.com/kardiachain/go-kardia/lib/common"
	"github.com/kardiachain/go-kardia/lib/log"
	kproto "github.com/kardiachain/go-kardia/proto/kardiachain/types"
	"github.com/kardiachain/go-kardia/types"
)

const prop = "C12"

var maxTotal = big.NewInt(math.MaxInt64 / 8)

// ---------------- reference model ----------------

type mval struct {
	addr  common.Address
	power *big.Int
	prio  *big.Int
}

type model struct {
	vals     []*mval // kept in the specified order: power desc, address asc
	proposer *common.Address
}

func (m *model) total() *big.Int {
	t := new(big.Int)
	for _, v := range m.vals {
		t.Add(t, v.power)
	}
	return t
}

func (m *model) find(a common.Address) *mval {
	for _, v := range m.vals {
		if v.addr == a {
			return v
		}
	}
	return nil
}

func (m *model) copy() *model {
	c := &model{}
	for _, v := range m.vals {
		c.vals = append(c.vals, &mval{v.addr, new(big.Int).Set(v.power), new(big.Int).Set(v.prio)})
	}
	if m.proposer != nil {
		a := *m.proposer
		c.proposer = &a
	}
	return c
}

// rescale: keep max-min within 2*total by dividing by ceil(diff/(2*total)).
func (m *model) rescale() bool {
	if len(m.vals) == 0 {
		return false
	}
	diffMax := new(big.Int).Mul(big.NewInt(2), m.total())
	if diffMax.Sign() <= 0 {
		return false
	}
	mx, mn := new(big.Int).Set(m.vals[0].prio), new(big.Int).Set(m.vals[0].prio)
	for _, v := range m.vals {
		if v.prio.Cmp(mx) > 0 {
			mx.Set(v.prio)
		}
		if v.prio.Cmp(mn) < 0 {
			mn.Set(v.prio)
		}
	}
	diff := new(big.Int).Sub(mx, mn)
	if diff.Cmp(diffMax) <= 0 {
		return false
	}
	// ratio = ceil(diff/diffMax)
	ratio := new(big.Int).Add(diff, diffMax)
	ratio.Sub(ratio, big.NewInt(1))
	ratio.Quo(ratio, diffMax)
	for _, v := range m.vals {
		v.prio.Quo(v.prio, ratio) // truncated, as integer division in the spec's host language
	}
	return true
}

// centre on the floor average.
func (m *model) centre() {
	sum := new(big.Int)
	for _, v := range m.vals {
		sum.Add(sum, v.prio)
	}
	n := big.NewInt(int64(len(m.vals)))
	avg := new(big.Int)
	mod := new(big.Int)
	avg.DivMod(sum, n, mod) // Euclidean; divisor > 0 => floor
	for _, v := range m.vals {
		v.prio.Sub(v.prio, avg)
	}
}

func (m *model) increment(times int) {
	m.rescale()
	m.centre()
	t := m.total()
	var p *mval
	for i := 0; i < times; i++ {
		for _, v := range m.vals {
			v.prio.Add(v.prio, v.power)
		}
		p = nil
		for _, v := range m.vals {
			if p == nil || v.prio.Cmp(p.prio) > 0 || (v.prio.Cmp(p.prio) == 0 && bytesLess(v.addr, p.addr)) {
				p = v
			}
		}
		p.prio.Sub(p.prio, t)
	}
	a := p.addr
	m.proposer = &a
}

func bytesLess(a, b common.Address) bool {
	for i := range a {
		if a[i] != b[i] {
			return a[i] < b[i]
		}
	}
	return false
}

type change struct {
	addr  common.Address
	power int64
}

// update applies a change set all-or-nothing; returns a reason when rejected.
func (m *model) update(ch []change, allowDeletes bool) string {
	if len(ch) == 0 {
		return ""
	}
	seen := map[common.Address]bool{}
	for _, c := range ch {
		if seen[c.addr] {
			return "duplicate"
		}
		seen[c.addr] = true
	}
	for _, c := range ch {
		if c.power < 0 {
			return "negative"
		}
		if big.NewInt(c.power).Cmp(maxTotal) > 0 {
			return "power-above-cap"
		}
	}
	removed := new(big.Int)
	nDel := 0
	for _, c := range ch {
		if c.power == 0 {
			if !allowDeletes {
				return "delete-not-allowed"
			}
			v := m.find(c.addr)
			if v == nil {
				return "remove-unknown"
			}
			removed.Add(removed, v.power)
			nDel++
		}
	}
	// total after updates, before removals
	tvp := m.total()
	nNew := 0
	for _, c := range ch {
		if c.power == 0 {
			continue
		}
		if v := m.find(c.addr); v != nil {
			tvp.Add(tvp, new(big.Int).Sub(big.NewInt(c.power), v.power))
		} else {
			tvp.Add(tvp, big.NewInt(c.power))
			nNew++
		}
	}
	after := new(big.Int).Sub(tvp, removed)
	if after.Cmp(maxTotal) > 0 {
		return "total-above-cap"
	}
	if nNew == 0 && nDel == len(m.vals) {
		return "empty-set"
	}
	// apply
	for _, c := range ch {
		if c.power == 0 {
			continue
		}
		if v := m.find(c.addr); v != nil {
			v.power = big.NewInt(c.power)
		} else {
			p := new(big.Int).Rsh(tvp, 3)
			p.Add(p, tvp)
			p.Neg(p) // -(T + T/8), T = total after updates before removals
			m.vals = append(m.vals, &mval{c.addr, big.NewInt(c.power), p})
		}
	}
	for _, c := range ch {
		if c.power == 0 {
			for i, v := range m.vals {
				if v.addr == c.addr {
					m.vals = append(m.vals[:i], m.vals[i+1:]...)
					break
				}
			}
		}
	}
	m.rescale()
	m.centre()
	sort.SliceStable(m.vals, func(i, j int) bool {
		c := m.vals[i].power.Cmp(m.vals[j].power)
		if c != 0 {
			return c > 0
		}
		return bytesLess(m.vals[i].addr, m.vals[j].addr)
	})
	return ""
}

// ---------------- comparison ----------------

func snapshot(vs *types.ValidatorSet) string {
	s := ""
	for _, v := range vs.Validators {
		s += fmt.Sprintf("%x:%d:%d,", v.Address[:3], v.VotingPower, v.ProposerPriority)
	}
	if vs.Proposer != nil {
		s += fmt.Sprintf("P=%x", vs.Proposer.Address[:3])
	}
	return s
}

func (m *model) String() string {
	s := ""
	for _, v := range m.vals {
		s += fmt.Sprintf("%x:%v:%v,", v.addr[:3], v.power, v.prio)
	}
	if m.proposer != nil {
		s += fmt.Sprintf("P=%x", m.proposer[:3])
	}
	return s
}

// compare returns (oracle, signature, detail) of the first disagreement.
func compare(vs *types.ValidatorSet, m *model, checkProposer bool, after string) (string, string, string) {
	if len(vs.Validators) != len(m.vals) {
		return "membership", "set size differs from specification after " + after, fmt.Sprintf("impl %s\nspec %s", snapshot(vs), m)
	}
	for i, v := range vs.Validators {
		mv := m.vals[i]
		if v.Address != mv.addr {
			return "order", "validator order differs from specification after " + after, fmt.Sprintf("index %d impl %s\nspec %s", i, snapshot(vs), m)
		}
		if big.NewInt(v.VotingPower).Cmp(mv.power) != 0 {
			return "power", "voting power differs from specification after " + after, fmt.Sprintf("index %d impl %s\nspec %s", i, snapshot(vs), m)
		}
	}
	if big.NewInt(vs.TotalVotingPower()).Cmp(m.total()) != 0 {
		return "total", "total voting power differs from specification after " + after, fmt.Sprintf("impl total %d spec %v", vs.TotalVotingPower(), m.total())
	}
	for i, v := range vs.Validators {
		if big.NewInt(v.ProposerPriority).Cmp(m.vals[i].prio) != 0 {
			return "priority", "proposer priority differs from specification after " + after, fmt.Sprintf("index %d impl %s\nspec %s", i, snapshot(vs), m)
		}
	}
	if checkProposer && m.proposer != nil {
		p := vs.GetProposer()
		if p == nil || p.Address != *m.proposer {
			return "proposer", "proposer differs from specification after " + after, fmt.Sprintf("impl %s\nspec %s", snapshot(vs), m)
		}
	}
	return "", "", ""
}

// window: max-min <= 2*total, judged on the implementation alone.
func windowOK(vs *types.ValidatorSet) (bool, string) {
	mx, mn := big.NewInt(math.MinInt64), big.NewInt(math.MaxInt64)
	for _, v := range vs.Validators {
		p := big.NewInt(v.ProposerPriority)
		if p.Cmp(mx) > 0 {
			mx = p
		}
		if p.Cmp(mn) < 0 {
			mn = p
		}
	}
	diff := new(big.Int).Sub(mx, mn)
	lim := new(big.Int).Mul(big.NewInt(2), big.NewInt(vs.TotalVotingPower()))
	return diff.Cmp(lim) <= 0, fmt.Sprintf("max-min=%v 2*total=%v set=%s", diff, lim, snapshot(vs))
}

// ---------------- engine ----------------

type engine struct{}

func (engine) Name() string { return "valset" }

func addrOf(i int) common.Address {
	var a common.Address
	// spread over the address space but with shared prefixes for tie-break coverage
	a[0] = byte(0x10 + (i*37)%200)
	a[1] = byte(i)
	a[19] = byte(i * 7)
	return a
}

func drawPower(t *core.Tape) int64 {
	switch t.Weighted(6, 3, 2, 1, 1) {
	case 0:
		return int64(t.Range(1, 10))
	case 1:
		return int64(t.Range(1, 1000))
	case 2:
		return int64(t.Range(1, 1<<30))
	case 3: // near the cap
		return math.MaxInt64/8 - int64(t.Draw(1000))
	default:
		return (math.MaxInt64 / 8) / int64(t.Range(2, 16))
	}
}

func toVals(ch []change) []*types.Validator {
	out := make([]*types.Validator, len(ch))
	for i, c := range ch {
		out[i] = &types.Validator{Address: c.addr, VotingPower: c.power}
	}
	return out
}

func (engine) Run(t *testing.T, tape *core.Tape, opt core.Options) (res *core.RunResult) {
	res = core.NewResult()
	h := core.NewHasher()
	ah := core.NewHasher()
	var ops []string
	step := func(f string, a ...interface{}) {
		s := fmt.Sprintf(f, a...)
		if len(ops) < 60 {
			ops = append(ops, s)
		}
		res.Tracef("%s", s)
		h.Add(s)
	}
	defer func() {
		if r := recover(); r != nil {
			res.Violate(prop, "panic", "panic in validator-set code: "+firstLine(fmt.Sprint(r)), fmt.Sprint(r))
		}
		res.TraceHash = h.Sum()
		res.AbstractHash = ah.Sum()
		res.Sample = map[string]interface{}{"ops": ops}
	}()

	universe := tape.Range(2, 14)
	// initial set: 1..min(universe,12) validators
	n0 := tape.Range(1, min(universe, 12))
	perm := tape.Perm(universe)
	var init []change
	m := &model{}
	// keep the initial total below the cap
	budget := new(big.Int).Set(maxTotal)
	for i := 0; i < n0; i++ {
		p := drawPower(tape)
		if big.NewInt(p).Cmp(budget) > 0 {
			p = 1
		}
		if budget.Sign() <= 0 {
			break
		}
		budget.Sub(budget, big.NewInt(p))
		init = append(init, change{addrOf(perm[i]), p})
	}
	step("new %v", fmtChanges(init))
	vs := types.NewValidatorSet(toVals(init))
	if why := m.update(init, false); why != "" {
		res.Infra = "generator produced an invalid initial set: " + why
		return
	}
	m.increment(1)
	if o, sig, d := compare(vs, m, true, "NewValidatorSet"); o != "" {
		res.Violate(prop, o, sig, d)
		return
	}

	height := uint64(1)
	nSteps := tape.Range(5, opt.Int("steps", 120))
	changesSeen, errsSeen, rescales := 0, 0, 0
	for s := 0; s < nSteps; s++ {
		res.Steps++
		switch tape.Weighted(5, 4, 1, 1, 2) {
		case 0: // IncrementProposerPriority(k)
			k := 1
			if tape.Chance(1, 4) {
				k = tape.Range(1, 40)
			}
			step("inc %d", k)
			ah.Add("inc")
			vs.IncrementProposerPriority(int64(k))
			mm := m.copy()
			if mm.rescale() {
				rescales++
				res.Probe("rescale-needed-at-increment")
			}
			m.increment(k)
			if o, sig, d := compare(vs, m, true, "IncrementProposerPriority"); o != "" {
				res.Violate(prop, o, sig, d)
				return
			}
		case 1: // UpdateWithChangeSet
			ch, kind := genChanges(tape, m, universe)
			step("update[%s] %v", kind, fmtChanges(ch))
			ah.Add("upd", kind)
			before := snapshot(vs)
			// order independence: same change set, permuted, on a copy
			var vs2 *types.ValidatorSet
			var ch2 []change
			if len(ch) > 1 {
				vs2 = vs.Copy()
				p := tape.Perm(len(ch))
				for _, j := range p {
					ch2 = append(ch2, ch[j])
				}
			}
			err := vs.UpdateWithChangeSet(toVals(ch))
			mm := m.copy()
			why := m.update(ch, true)
			if (err != nil) != (why != "") {
				res.Violate(prop, "update-verdict", fmt.Sprintf("change set (%s) accepted=%v by implementation, accepted=%v by specification", kindClass(kind, why), err == nil, why == ""),
					fmt.Sprintf("changes=%v err=%v spec=%q set before=%s", fmtChanges(ch), err, why, before))
				return
			}
			if err != nil {
				errsSeen++
				res.Fault("invalid-changeset:" + why)
				if snapshot(vs) != before {
					res.Violate(prop, "all-or-nothing", "rejected change set ("+why+") modified the set", fmt.Sprintf("before %s\nafter  %s", before, snapshot(vs)))
					return
				}
				m = mm
			} else {
				if len(ch) > 0 {
					changesSeen++
				}
				// did the spec need a rescale here?
				if o, sig, d := compare(vs, m, false, "UpdateWithChangeSet"); o != "" {
					res.Violate(prop, o, sig, d)
					return
				}
			}
			if vs2 != nil {
				err2 := vs2.UpdateWithChangeSet(toVals(ch2))
				if (err2 != nil) != (err != nil) || (err == nil && stripProposer(snapshot(vs2)) != stripProposer(snapshot(vs))) {
					res.Violate(prop, "order-independence", "result of a change set depends on the order of its entries",
						fmt.Sprintf("order A %v -> %s (err %v)\norder B %v -> %s (err %v)", fmtChanges(ch), snapshot(vs), err, fmtChanges(ch2), snapshot(vs2), err2))
					return
				}
			}
		case 2: // Copy and continue on the copy
			step("copy")
			ah.Add("copy")
			c := vs.Copy()
			vs.IncrementProposerPriority(1) // mutate the original: the copy must not move
			snap := snapshot(c)
			vs.IncrementProposerPriority(3)
			if stripProposer(snapshot(c)) != stripProposer(snap) {
				res.Violate(prop, "copy-independent", "copy of a validator set changed when the original advanced", snap+" -> "+snapshot(c))
				return
			}
			vs = c
		case 3: // proto round trip
			step("proto")
			ah.Add("proto")
			pb, err := vs.ToProto()
			if err != nil {
				res.Violate(prop, "proto", "ToProto failed on a valid set", err.Error())
				return
			}
			bz, _ := pb.Marshal()
			var pb2 kproto.ValidatorSet
			if err := pb2.Unmarshal(bz); err != nil {
				res.Violate(prop, "proto", "proto unmarshal failed", err.Error())
				return
			}
			back, err := types.ValidatorSetFromProto(&pb2)
			if err != nil {
				res.Violate(prop, "proto", "ValidatorSetFromProto failed on own encoding", err.Error())
				return
			}
			if snapshot(back) != snapshot(vs) || back.GetProposer().Address != vs.GetProposer().Address {
				res.Violate(prop, "proto", "validator set changed across its proto round trip", snapshot(vs)+" -> "+snapshot(back))
				return
			}
			vs = back
		case 4: // the cstate.updateState pattern: copy, optional update, increment(1)
			ch, kind := genChanges(tape, m, universe)
			if tape.Chance(1, 2) {
				ch = nil
				kind = "none"
			}
			step("block[%s] %v", kind, fmtChanges(ch))
			ah.Add("block", kind)
			mm := m.copy()
			if tape.Chance(2, 3) {
				// the real cstate.updateState on a state whose next set is vs: the result's next set
				// must be "change set applied, then one round", its current set the old next set
				// and its last set the old current set, all with their priorities untouched
				height++
				cur := vs.Copy()
				cur.IncrementProposerPriority(int64(tape.Range(1, 3))) // some other point of the rotation
				st := cstate.LatestBlockState{ChainID: "valset", InitialHeight: 1, LastBlockHeight: height - 1,
					NextValidators: vs, Validators: cur, LastValidators: cur.Copy(), LastHeightValidatorsChanged: 1}
				beforeNext, beforeCur := snapshot(vs), snapshot(cur)
				ns, err := cstate.VerifValsetUpdateState(log.New(), st, types.BlockID{}, &types.Header{Height: height}, toVals(ch))
				why := ""
				if len(ch) > 0 {
					why = mm.update(ch, true)
				}
				if (err != nil) != (why != "") {
					res.Violate(prop, "update-verdict", fmt.Sprintf("updateState: change set (%s) accepted=%v by implementation, accepted=%v by specification", kindClass(kind, why), err == nil, why == ""),
						fmt.Sprintf("changes=%v err=%v spec=%q", fmtChanges(ch), err, why))
					return
				}
				res.Probe("real-updateState")
				if err != nil {
					res.Fault("invalid-changeset:" + why)
					if snapshot(vs) != beforeNext {
						res.Violate(prop, "all-or-nothing", "updateState with a rejected change set ("+why+") modified the state's next validator set", beforeNext+" -> "+snapshot(vs))
						return
					}
					continue
				}
				if len(ch) > 0 {
					changesSeen++
					res.Probe("real-updateState-with-change-set")
				}
				mm.increment(1)
				if snapshot(ns.Validators) != beforeNext || snapshot(ns.LastValidators) != beforeCur || snapshot(vs) != beforeNext {
					res.Violate(prop, "state-shift", "updateState does not carry the old next / current sets over unchanged as the new current / last sets",
						fmt.Sprintf("old next %s\nnew cur  %s\nold cur  %s\nnew last %s", beforeNext, snapshot(ns.Validators), beforeCur, snapshot(ns.LastValidators)))
					return
				}
				vs, m = ns.NextValidators, mm
				if o, sig, d := compare(vs, m, true, "updateState (change set, then one round)"); o != "" {
					res.Violate(prop, o, sig, d)
					return
				}
				continue
			}
			n := vs.Copy()
			if len(ch) > 0 {
				err := n.UpdateWithChangeSet(toVals(ch))
				why := mm.update(ch, true)
				if (err != nil) != (why != "") {
					res.Violate(prop, "update-verdict", fmt.Sprintf("change set (%s) accepted=%v by implementation, accepted=%v by specification", kindClass(kind, why), err == nil, why == ""),
						fmt.Sprintf("changes=%v err=%v spec=%q", fmtChanges(ch), err, why))
					return
				}
				if err != nil {
					res.Fault("invalid-changeset:" + why)
					continue
				}
				changesSeen++
			}
			n.IncrementProposerPriority(1)
			mm.increment(1)
			vs, m = n, mm
			if o, sig, d := compare(vs, m, true, "block update (copy, change set, increment)"); o != "" {
				res.Violate(prop, o, sig, d)
				return
			}
		}
		if ok, d := windowOK(vs); !ok && len(vs.Validators) > 0 {
			// the window is guaranteed right after rescale+centre, i.e. after update and at the
			// start of increment; after k increments it can exceed by at most total. Judge at
			// the points where the specification itself is inside the window.
			mm := m.copy()
			if !mm.rescale() {
				continue
			}
			_ = d
		}
	}

	// window, judged where the specification guarantees it: right after an update
	// or a single increment the spread is at most 2*total + total.
	if len(vs.Validators) > 1 {
		c := vs.Copy()
		c.IncrementProposerPriority(1)
		mx, mn := big.NewInt(math.MinInt64), big.NewInt(math.MaxInt64)
		for _, v := range c.Validators {
			p := big.NewInt(v.ProposerPriority)
			if p.Cmp(mx) > 0 {
				mx = p
			}
			if p.Cmp(mn) < 0 {
				mn = p
			}
		}
		lim := new(big.Int).Mul(big.NewInt(3), big.NewInt(c.TotalVotingPower()))
		if new(big.Int).Sub(mx, mn).Cmp(lim) > 0 {
			res.Violate(prop, "window", "priority spread exceeds the 2*total window right after an increment",
				fmt.Sprintf("max-min=%v total=%d set=%s", new(big.Int).Sub(mx, mn), c.TotalVotingPower(), snapshot(c)))
			return
		}
	}

	// starvation: on the final (static) set every validator proposes within
	// ceil(4*total/power)+n rounds; only for sets where that is cheap.
	if len(vs.Validators) > 1 {
		tot := vs.TotalVotingPower()
		minP := vs.Validators[0].VotingPower
		for _, v := range vs.Validators {
			if v.VotingPower < minP {
				minP = v.VotingPower
			}
		}
		if tot/minP <= 500 {
			bound := int(4*tot/minP) + len(vs.Validators) + 4
			seen := map[common.Address]int{}
			c := vs.Copy()
			for r := 0; r < bound; r++ {
				c.IncrementProposerPriority(1)
				seen[c.GetProposer().Address]++
			}
			res.Probe("fairness-window-checked")
			for _, v := range c.Validators {
				if seen[v.Address] == 0 {
					res.Violate(prop, "starvation", "a validator does not propose within 4*total/power rounds on a static set",
						fmt.Sprintf("validator %x power %d total %d never proposed in %d rounds; start set=%s", v.Address[:3], v.VotingPower, tot, bound, snapshot(vs)))
					return
				}
			}
			// proportionality over bound rounds: |count - bound*power/total| <= 2 + slack for the transient
			for _, v := range c.Validators {
				exp := new(big.Rat).SetFrac(new(big.Int).Mul(big.NewInt(int64(bound)), big.NewInt(v.VotingPower)), big.NewInt(tot))
				got := new(big.Rat).SetInt64(int64(seen[v.Address]))
				d := new(big.Rat).Sub(got, exp)
				d.Abs(d)
				if d.Cmp(big.NewRat(5, 1)) > 0 {
					res.Violate(prop, "proportional", "share of proposals is not proportional to voting power on a static set",
						fmt.Sprintf("validator %x power %d/%d proposed %d of %d rounds (expected %s)", v.Address[:3], v.VotingPower, tot, seen[v.Address], bound, exp.FloatString(2)))
					return
				}
			}
		}
	}
	res.NonTrivial = changesSeen > 0 && res.Steps >= 5
	if rescales > 0 {
		res.Probe("histories-with-rescale")
	}
	if errsSeen > 0 {
		res.Probe("histories-with-rejected-changeset")
	}
	return res
}

func stripProposer(s string) string {
	for i := len(s) - 1; i >= 0; i-- {
		if s[i] == ',' {
			return s[:i+1]
		}
	}
	return s
}

func kindClass(kind, why string) string {
	if why != "" {
		return why
	}
	return kind
}

func firstLine(s string) string {
	for i, c := range s {
		if c == '\n' {
			return s[:i]
		}
	}
	if len(s) > 120 {
		return s[:120]
	}
	return s
}

func fmtChanges(ch []change) string {
	s := "["
	for _, c := range ch {
		s += fmt.Sprintf("%x:%d ", c.addr[:3], c.power)
	}
	return s + "]"
}

// genChanges draws a change set; most are valid, some are one of the invalid classes.
func genChanges(t *core.Tape, m *model, universe int) ([]change, string) {
	kind := []string{"valid", "valid-big", "duplicate", "negative", "remove-unknown", "empty-set", "above-cap", "single-above-cap", "empty", "wrap-int64"}[t.Weighted(10, 3, 1, 1, 1, 1, 1, 1, 1, 1)]
	var ch []change
	in := map[common.Address]bool{}
	for _, v := range m.vals {
		in[v.addr] = true
	}
	used := map[common.Address]bool{}
	pick := func(member bool) (common.Address, bool) {
		var c []common.Address
		for i := 0; i < universe; i++ {
			a := addrOf(i)
			if in[a] == member && !used[a] {
				c = append(c, a)
			}
		}
		if len(c) == 0 {
			return common.Address{}, false
		}
		a := c[t.Draw(len(c))]
		used[a] = true
		return a, true
	}
	room := new(big.Int).Sub(maxTotal, m.total())
	smallPower := func() int64 {
		p := drawPower(t)
		if kind != "valid-big" && p > 1<<31 {
			p = int64(t.Range(1, 1000))
		}
		return p
	}
	nOps := t.Range(1, 4)
	removals := 0
	for i := 0; i < nOps; i++ {
		switch t.Weighted(3, 3, 2) {
		case 0: // add
			if a, ok := pick(false); ok {
				p := smallPower()
				if big.NewInt(p).Cmp(room) > 0 {
					p = 1
				}
				if room.Sign() > 0 {
					room.Sub(room, big.NewInt(p))
					ch = append(ch, change{a, p})
				}
			}
		case 1: // change power
			if a, ok := pick(true); ok {
				old := m.find(a).power
				p := smallPower()
				delta := new(big.Int).Sub(big.NewInt(p), old)
				if delta.Cmp(room) > 0 {
					p = 1
					delta = new(big.Int).Sub(big.NewInt(p), old)
				}
				room.Sub(room, delta)
				ch = append(ch, change{a, p})
			}
		case 2: // remove (keep at least one)
			if len(m.vals)-removals > 1 {
				if a, ok := pick(true); ok {
					removals++
					room.Add(room, m.find(a).power)
					ch = append(ch, change{a, 0})
				}
			}
		}
	}
	switch kind {
	case "duplicate":
		if len(ch) > 0 {
			d := ch[t.Draw(len(ch))]
			if t.Chance(1, 2) {
				d.power = int64(t.Range(0, 5))
			}
			ch = append(ch, d)
		}
	case "negative":
		a, ok := pick(t.Chance(1, 2))
		if !ok {
			a, ok = pick(true)
		}
		if ok {
			ch = append(ch, change{a, -int64(t.Range(1, 100))})
		}
	case "remove-unknown":
		if a, ok := pick(false); ok {
			ch = append(ch, change{a, 0})
		}
	case "empty-set":
		ch = nil
		for _, v := range m.vals {
			ch = append(ch, change{v.addr, 0})
		}
	case "above-cap":
		// several entries whose sum passes the cap although each is below it
		ch = nil
		used = map[common.Address]bool{}
		for i := 0; i < 9; i++ {
			a, ok := pick(t.Chance(1, 3))
			if !ok {
				a, ok = pick(false)
			}
			if !ok {
				a, ok = pick(true)
			}
			if ok {
				ch = append(ch, change{a, math.MaxInt64/8/8 + int64(t.Range(1, 1000))})
			}
		}
	case "wrap-int64":
		// many entries, each legal on its own (at or just below the cap), whose sum wraps a 64-bit
		// counter back into the legal range: 16 x cap = 2^64 - 16
		n := []int{8, 15, 16, 17, 24, 32}[t.Draw(6)]
		for i := 0; i < n; i++ {
			ch = append(ch, change{addrOf(100 + i), math.MaxInt64/8 - int64(t.Draw(3))})
		}
	case "single-above-cap":
		if a, ok := pick(t.Chance(1, 2)); ok {
			ch = append(ch, change{a, math.MaxInt64/8 + int64(t.Range(1, 1000))})
		}
	case "empty":
		ch = nil
	}
	// tape-chosen entry order
	p := t.Perm(len(ch))
	out := make([]change, len(ch))
	for i, j := range p {
		out[i] = ch[j]
	}
	return out, kind
}

func TestSim(t *testing.T) { core.Main(t, engine{}) }
