// Engine votesim (C02): the real types.VoteSet / consensus/types.HeightVoteSet as
// the receiving end of an adversarial network, and ValidatorSet.VerifyCommit as
// the judge of adversarially mutated commits.
//
// Reference model (independent of the product's data structures and arithmetic):
//   - validity of a vote is decided by *intent*: the run keeps a registry of every
//     tuple (chain, type, height, round, block id, timestamp) each key really
//     signed; a presented vote is valid iff its index/address/step fit the vote
//     set and its signature bytes were produced by that validator's key for
//     exactly the presented tuple;
//   - per vote set: validator -> first valid vote, and per block id the set of
//     validators that ever offered a valid vote for it; all tallies in big
//     integers with the test 3*sum > 2*total;
//   - an own commit verifier built on the same registry;
//   - an own protobuf encoder of the canonical vote, compared with the product's
//     sign bytes at the end of a run.
package votesim

import (
	"crypto/ecdsa"
	"errors"
	"fmt"
	"math"
	"math/big"
	"sort"
	"strings"
	"sync"
	"testing"
	"time"

	"verif/sim/core"

	cstypes "github.com/kardiachain/go-kardia/consensus/types"
	"github.com/kardiachain/go-kardia/lib/common"
	"github.com/kardiachain/go-kardia/lib/crypto"
	"github.com/kardiachain/go-kardia/lib/log"
	"github.com/kardiachain/go-kardia/lib/p2p"
	kproto "github.com/kardiachain/go-kardia/proto/kardiachain/types"
	"github.com/kardiachain/go-kardia/types"
)

const (
	prop       = "C02"
	chainID    = "votesim-chain"
	otherChain = "votesim-chain-b"
	maxVals    = 10
	nKeys      = maxVals + 2 // two outsiders
	baseTime   = int64(1600000000)
	// documented allowance of HeightVoteSet: "We let each peer provide us with up to 2
	// unexpected catchup rounds."
	catchupAllowance = 2
)

var (
	keys     []*ecdsa.PrivateKey
	signers  []*types.DefaultPrivValidator
	addrs    []common.Address
	capTotal = big.NewInt(math.MaxInt64 / 8)
)

func init() {
	for i := 0; i < nKeys; i++ {
		k, err := crypto.ToECDSA(crypto.Keccak256([]byte(fmt.Sprintf("votesim fixed validator key #%d", i))))
		if err != nil {
			panic(err)
		}
		keys = append(keys, k)
		signers = append(signers, types.NewDefaultPrivValidator(k))
		addrs = append(addrs, crypto.PubkeyToAddress(k.PublicKey))
	}
}

// ---------------- block ids ----------------

type bidKey struct {
	hash  common.Hash
	total uint32
	phash common.Hash
}

func (b bidKey) blockID() types.BlockID {
	return types.BlockID{Hash: b.hash, PartsHeader: types.PartSetHeader{Total: b.total, Hash: b.phash}}
}

func keyOfBlockID(id types.BlockID) bidKey {
	return bidKey{id.Hash, id.PartsHeader.Total, id.PartsHeader.Hash}
}

func (b bidKey) isNil() bool { return b == bidKey{} }

func hashOf(s string) common.Hash { return common.BytesToHash(crypto.Keccak256([]byte(s))) }

var (
	hA, hB     = hashOf("votesim block A"), hashOf("votesim block B")
	pA, pB, pC = hashOf("votesim parts A"), hashOf("votesim parts B"), hashOf("votesim parts C")
	// palette[0] is the nil vote; A is the block honest validators prefer.
	palette = []bidKey{
		{},
		{hA, 1, pA}, // A
		{hB, 3, pB}, // B
		{hA, 1, pC}, // same block hash, other part-set hash
		{hA, 2, pA}, // same block hash and part-set hash, other part count
		{hA, 1, lastByte(pA)},  // part-set hash differs in its last byte only
		{hA, 1, firstByte(pA)}, // part-set hash differs in its first byte only
		{lastByte(hA), 1, pA},  // block hash differs in its last byte only
	}
	palNames   = []string{"nil", "A", "B", "A/parts", "A/total", "A/parts-last-byte", "A/parts-first-byte", "A/hash-last-byte"}
	incomplete = []bidKey{{hA, 0, common.Hash{}}, {common.Hash{}, 1, pA}}
)

func lastByte(h common.Hash) common.Hash  { h[len(h)-1] ^= 0x01; return h }
func firstByte(h common.Hash) common.Hash { h[0] ^= 0x80; return h }

func palIndex(b bidKey) int {
	for i, p := range palette {
		if p == b {
			return i
		}
	}
	return -1
}

func (b bidKey) String() string {
	for i, p := range palette {
		if p == b {
			return palNames[i]
		}
	}
	return fmt.Sprintf("%x/%d/%x", b.hash[:3], b.total, b.phash[:3])
}

// sameButTotal: two distinct block ids that differ only in the part count.
func sameButTotal(a, b bidKey) bool {
	return a != b && a.hash == b.hash && a.phash == b.phash
}

// ---------------- signing (the honest validator's own code path), cached ----------------

type tuple struct {
	chain  string
	typ    kproto.SignedMsgType
	height uint64
	round  uint32
	bid    bidKey
	sec    int64
	nanos  int32
}

func (t tuple) time() time.Time { return time.Unix(t.sec, int64(t.nanos)).UTC() }

type sigKey struct {
	key int
	t   tuple
}

var (
	sigMu    sync.Mutex
	sigCache = map[sigKey][]byte{}
)

// signTuple signs with DefaultPrivValidator.SignVote, exactly as a validator does.
// Signatures are deterministic (RFC 6979), so the process-wide cache cannot change behaviour.
func signTuple(key int, t tuple) []byte {
	sigMu.Lock()
	defer sigMu.Unlock()
	k := sigKey{key, t}
	if s, ok := sigCache[k]; ok {
		return s
	}
	v := &types.Vote{Type: t.typ, Height: t.height, Round: t.round, BlockID: t.bid.blockID(), Timestamp: t.time()}
	pv := v.ToProto()
	if err := signers[key].SignVote(t.chain, pv); err != nil {
		panic("votesim: cannot sign: " + err.Error())
	}
	if len(sigCache) > 200000 { // bound memory in long thorough runs; contents are a pure function of the key
		sigCache = map[sigKey][]byte{}
	}
	sigCache[k] = pv.Signature
	return pv.Signature
}

// ---------------- own canonical encoding of the sign bytes ----------------

func uvarint(b []byte, x uint64) []byte {
	for x >= 0x80 {
		b = append(b, byte(x)|0x80)
		x >>= 7
	}
	return append(b, byte(x))
}

// canonicalSignBytes: length-delimited protobuf of
// CanonicalVote{1:type 2:height 3:round 4:block_id{1:hash 2:part_set_header{1:total 2:hash}} 5:timestamp{1:s 2:ns} 6:chain_id}.
func canonicalSignBytes(t tuple) []byte {
	var m []byte
	if t.typ != 0 {
		m = uvarint(append(m, 0x08), uint64(t.typ))
	}
	if t.height != 0 {
		m = uvarint(append(m, 0x10), t.height)
	}
	if t.round != 0 {
		m = uvarint(append(m, 0x18), uint64(t.round))
	}
	if !t.bid.isNil() {
		var ph []byte
		if t.bid.total != 0 {
			ph = uvarint(append(ph, 0x08), uint64(t.bid.total))
		}
		ph = append(append(ph, 0x12, 32), t.bid.phash[:]...)
		var b []byte
		b = append(append(b, 0x0a, 32), t.bid.hash[:]...)
		b = append(uvarint(append(b, 0x12), uint64(len(ph))), ph...)
		m = append(uvarint(append(m, 0x22), uint64(len(b))), b...)
	}
	var ts []byte
	if t.sec != 0 {
		ts = uvarint(append(ts, 0x08), uint64(t.sec))
	}
	if t.nanos != 0 {
		ts = uvarint(append(ts, 0x10), uint64(t.nanos))
	}
	m = append(uvarint(append(m, 0x2a), uint64(len(ts))), ts...)
	if t.chain != "" {
		m = append(uvarint(append(m, 0x32), uint64(len(t.chain))), t.chain...)
	}
	return append(uvarint(nil, uint64(len(m))), m...)
}

// ---------------- model ----------------

type srec struct {
	key int
	t   tuple
}

type mvote struct {
	bid   bidKey
	sig   string
	sec   int64
	nanos int32
}

type mset struct {
	round   uint32
	typ     kproto.SignedMsgType
	first   map[int]mvote
	valid   map[int][]mvote
	signers map[bidKey]map[int]bool
	used    map[bidKey]bool // block ids voted for or claimed here
	usedSeq []bidKey
	claims  map[string]bidKey
	claimed map[bidKey]bool
	majSeen bool

	commitChecks int
	lastChecked  int // number of valid votes at the last commit check
	nValid       int
	bare         *types.VoteSet
}

func newMset(round uint32, typ kproto.SignedMsgType) *mset {
	return &mset{round: round, typ: typ, first: map[int]mvote{}, valid: map[int][]mvote{},
		signers: map[bidKey]map[int]bool{}, used: map[bidKey]bool{}, claims: map[string]bidKey{}, claimed: map[bidKey]bool{}}
}

func (s *mset) use(b bidKey) {
	if !s.used[b] {
		s.used[b] = true
		s.usedSeq = append(s.usedSeq, b)
	}
}

type setKey struct {
	round uint32
	typ   kproto.SignedMsgType
}

type run struct {
	res  *core.RunResult
	tape *core.Tape
	opt  core.Options
	h    *core.Hasher
	ah   *core.Hasher
	ops  []string

	n      int
	keyOf  []int      // validator index -> key index
	power  []*big.Int // by validator index (own table)
	total  *big.Int
	byz    []bool // by validator index
	vs     *types.ValidatorSet
	height uint64

	hvs      *cstypes.HeightVoteSet
	bare     *mset
	sets     map[setKey]*mset
	setSeq   []*mset
	tracked  map[uint32]bool
	cur      uint32
	maxRound uint32
	catchups map[string]int

	signed      map[string][]srec
	delivered   []*types.Vote
	deliveredAs []string
	pref        map[[3]int]int // (validator, round, type) -> palette index chosen by an honest validator

	commitBudget  int
	validVotes    int
	majorities    int
	g1w, g2w, g3w int
}

func (r *run) step(f string, a ...interface{}) {
	s := fmt.Sprintf(f, a...)
	if len(r.ops) < 40 {
		r.ops = append(r.ops, s)
	}
	r.res.Tracef("%s", s)
	r.h.Add(s)
}

var digitRuns = strings.NewReplacer("0", "N", "1", "N", "2", "N", "3", "N", "4", "N", "5", "N", "6", "N", "7", "N", "8", "N", "9", "N")

func normPanic(v interface{}) string {
	s := firstLine(fmt.Sprint(v))
	s = digitRuns.Replace(s)
	for strings.Contains(s, "NN") {
		s = strings.ReplaceAll(s, "NN", "N")
	}
	return s
}

// guard runs product code; a panic there is a finding. Returns false after a panic.
func (r *run) guard(op string, f func()) (ok bool) {
	defer func() {
		if p := recover(); p != nil {
			r.step("PANIC in %s: %v", op, firstLine(fmt.Sprint(p)))
			r.res.Violate(prop, "panic", "panic in "+op+": "+normPanic(p), fmt.Sprint(p))
			ok = false
		}
	}()
	f()
	return true
}

func (r *run) sign(key int, t tuple) []byte {
	sig := signTuple(key, t)
	k := string(sig)
	for _, x := range r.signed[k] {
		if x.key == key && x.t == t {
			return sig
		}
	}
	r.signed[k] = append(r.signed[k], srec{key, t})
	return sig
}

// validlySigned: did validator idx's key sign exactly tuple t, producing exactly these bytes?
func (r *run) validlySigned(idx int, t tuple, sig []byte) bool {
	for _, x := range r.signed[string(sig)] {
		if x.key == r.keyOf[idx] && x.t == t {
			return true
		}
	}
	return false
}

func (r *run) sumOf(m map[int]bool) *big.Int {
	s := new(big.Int)
	for i := range m {
		s.Add(s, r.power[i])
	}
	return s
}

func (r *run) gt23(x *big.Int) bool {
	return new(big.Int).Mul(big.NewInt(3), x).Cmp(new(big.Int).Mul(big.NewInt(2), r.total)) > 0
}

func (r *run) pset(s *mset) *types.VoteSet {
	if r.hvs == nil {
		return s.bare
	}
	if s.typ == kproto.PrevoteType {
		return r.hvs.Prevotes(s.round)
	}
	return r.hvs.Precommits(s.round)
}

func (r *run) set(round uint32, typ kproto.SignedMsgType) *mset {
	k := setKey{round, typ}
	if s, ok := r.sets[k]; ok {
		return s
	}
	s := newMset(round, typ)
	r.sets[k] = s
	r.setSeq = append(r.setSeq, s)
	return s
}

func tupleOfVote(chain string, v *types.Vote) tuple {
	return tuple{chain, v.Type, v.Height, v.Round, keyOfBlockID(v.BlockID), v.Timestamp.Unix(), int32(v.Timestamp.Nanosecond())}
}

// modelValid: is v a valid vote for vote set s under the property's reading?
func (r *run) modelValid(s *mset, v *types.Vote) (bool, string) {
	idx := int(v.ValidatorIndex)
	if v.ValidatorIndex >= uint32(r.n) {
		return false, "index"
	}
	if v.ValidatorAddress != addrs[r.keyOf[idx]] {
		return false, "address"
	}
	if v.Height != r.height || v.Round != s.round || v.Type != s.typ {
		return false, "step"
	}
	if !r.validlySigned(idx, tupleOfVote(chainID, v), v.Signature) {
		return false, "signature"
	}
	return true, ""
}

func fmtSet(m map[int]bool) string {
	var k []int
	for i := range m {
		k = append(k, i)
	}
	sort.Ints(k)
	return fmt.Sprint(k)
}

func errClass(err error) string {
	if err == nil {
		return "nil"
	}
	var c *types.ErrVoteConflictingVotes
	switch {
	case errors.As(err, &c):
		return "conflict"
	case errors.Is(err, types.ErrVoteUnexpectedStep):
		return "step"
	case errors.Is(err, types.ErrVoteInvalidValidatorIndex):
		return "index"
	case errors.Is(err, types.ErrVoteInvalidValidatorAddress):
		return "address"
	case errors.Is(err, types.ErrVoteInvalidSignature):
		return "signature"
	case errors.Is(err, types.ErrVoteNonDeterministicSignature):
		return "nondeterministic"
	case errors.Is(err, cstypes.ErrGotVoteFromUnwantedRound):
		return "unwanted-round"
	case errors.Is(err, cstypes.ErrNilVoteType):
		return "nil-type"
	}
	return "other"
}

// observe compares every read accessor of the product vote set with the model.
func (r *run) observe(s *mset, after string) bool {
	p := r.pset(s)
	if p == nil {
		r.res.Violate(prop, "hvs-tracking", "vote set of a tracked round is missing after "+after, fmt.Sprintf("round %d type %v", s.round, s.typ))
		return false
	}
	var (
		majID         types.BlockID
		majOK, hasMaj bool
		anyP, allP    bool
		bits          = make([]bool, r.n)
		byIdx         = make([]*types.Vote, r.n)
		byBlock       = map[bidKey][]bool{}
		sizeBA        int
	)
	if !r.guard("VoteSet accessors", func() {
		majID, majOK = p.TwoThirdsMajority()
		hasMaj = p.HasTwoThirdsMajority()
		anyP = p.HasTwoThirdsAny()
		allP = p.HasAll()
		ba := p.BitArray()
		sizeBA = ba.Size()
		for i := 0; i < r.n; i++ {
			bits[i] = ba.GetIndex(i)
			byIdx[i] = p.GetByIndex(uint32(i))
		}
		for _, b := range s.usedSeq {
			bb := p.BitArrayByBlockID(b.blockID())
			x := make([]bool, r.n)
			if bb != nil {
				for i := 0; i < r.n; i++ {
					x[i] = bb.GetIndex(i)
				}
			}
			byBlock[b] = x
		}
	}) {
		return false
	}
	where := fmt.Sprintf("set round=%d type=%v after %s", s.round, s.typ, after)
	voted := map[int]bool{}
	firstBy := map[bidKey]map[int]bool{}
	for i, mv := range s.first {
		voted[i] = true
		if firstBy[mv.bid] == nil {
			firstBy[mv.bid] = map[int]bool{}
		}
		firstBy[mv.bid][i] = true
	}
	votedSum := r.sumOf(voted)
	exactly23 := func(x *big.Int) bool {
		return new(big.Int).Mul(big.NewInt(3), x).Cmp(new(big.Int).Mul(big.NewInt(2), r.total)) == 0
	}
	if exactly23(votedSum) {
		r.res.Probe("voted-power-exactly-two-thirds")
	}
	nSound := 0
	for _, b := range s.usedSeq {
		if exactly23(r.sumOf(s.signers[b])) {
			r.res.Probe("block-signed-by-exactly-two-thirds")
		}
		if r.gt23(r.sumOf(s.signers[b])) {
			nSound++
		}
	}
	if nSound > 1 {
		r.res.Probe("two-block-ids-with-two-thirds-of-signers")
	}

	if hasMaj != majOK {
		r.res.Violate(prop, "maj-consistent", "HasTwoThirdsMajority disagrees with TwoThirdsMajority", where)
		return false
	}
	if majOK {
		mk := keyOfBlockID(majID)
		sg := s.signers[mk]
		if !r.gt23(r.sumOf(sg)) {
			sig := "two-thirds majority reported for a block id that was validly signed by at most 2/3 of the voting power"
			pooled := map[int]bool{}
			for b, m := range s.signers {
				if b == mk || sameButTotal(b, mk) {
					for i := range m {
						pooled[i] = true
					}
				}
			}
			if r.gt23(r.sumOf(pooled)) {
				sig += " (votes for block ids that differ only in the part-set total were pooled)"
			}
			r.res.Violate(prop, "maj-sound", sig,
				fmt.Sprintf("%s: reported %v; valid signers of it %s with power %v of total %v; powers %v", where, mk, fmtSet(sg), r.sumOf(sg), r.total, r.power))
			return false
		}
		if !s.majSeen {
			s.majSeen = true
			r.majorities++
			r.res.Probe("majority-reported")
			if mk.isNil() {
				r.res.Probe("majority-for-nil")
			}
		}
	}
	for _, b := range s.usedSeq {
		if m := firstBy[b]; m != nil && r.gt23(r.sumOf(m)) {
			if !majOK {
				r.res.Violate(prop, "maj-complete", "validators with more than 2/3 of the power offered the same block as their first valid vote but no two-thirds majority is reported",
					fmt.Sprintf("%s: block %v first voters %s power %v of %v", where, b, fmtSet(m), r.sumOf(m), r.total))
				return false
			}
		}
	}
	if want := r.gt23(votedSum); anyP != want {
		r.res.Violate(prop, "any", fmt.Sprintf("HasTwoThirdsAny is %v although 3*voted > 2*total is %v", anyP, want),
			fmt.Sprintf("%s: voted %s power %v of %v", where, fmtSet(voted), votedSum, r.total))
		return false
	}
	if want := votedSum.Cmp(r.total) == 0; allP != want {
		r.res.Violate(prop, "all", fmt.Sprintf("HasAll is %v although voted == total is %v", allP, want),
			fmt.Sprintf("%s: voted %s power %v of %v", where, fmtSet(voted), votedSum, r.total))
		return false
	}
	if sizeBA != r.n {
		r.res.Violate(prop, "bitarray", "vote bit array has a size other than the validator count", where)
		return false
	}
	for i := 0; i < r.n; i++ {
		if bits[i] != voted[i] {
			r.res.Violate(prop, "bitarray", fmt.Sprintf("vote bit array bit is %v for a validator whose has-valid-vote is %v", bits[i], voted[i]),
				fmt.Sprintf("%s: validator %d", where, i))
			return false
		}
		gv := byIdx[i]
		if (gv != nil) != voted[i] {
			r.res.Violate(prop, "get-by-index", fmt.Sprintf("GetByIndex non-nil is %v for a validator whose has-valid-vote is %v", gv != nil, voted[i]),
				fmt.Sprintf("%s: validator %d", where, i))
			return false
		}
		if gv != nil {
			found := false
			for _, mv := range s.valid[i] {
				if mv.sig == string(gv.Signature) && mv.bid == keyOfBlockID(gv.BlockID) && mv.sec == gv.Timestamp.Unix() && mv.nanos == int32(gv.Timestamp.Nanosecond()) {
					found = true
				}
			}
			if !found || int(gv.ValidatorIndex) != i {
				sig := "GetByIndex returns a vote the validator never validly cast in this vote set"
				want := tupleOfVote(chainID, gv)
				for _, x := range r.signed[string(gv.Signature)] {
					y := x.t
					y.typ = want.typ
					if x.key == r.keyOf[i] && x.t != want && y == want {
						sig += " (its signature was made for the other vote type)"
						break
					}
				}
				r.res.Violate(prop, "get-by-index", sig,
					fmt.Sprintf("%s: validator %d got %v", where, i, gv))
				return false
			}
		}
	}
	for _, b := range s.usedSeq {
		x := byBlock[b]
		for i := 0; i < r.n; i++ {
			if x[i] && !s.signers[b][i] {
				sig := "BitArrayByBlockID marks a validator that never validly signed that block id"
				for ob, m := range s.signers {
					if sameButTotal(ob, b) && m[i] {
						sig += " (it signed a block id that differs only in the part-set total)"
						break
					}
				}
				r.res.Violate(prop, "bitarray-block-sound", sig, fmt.Sprintf("%s: block %v validator %d", where, b, i))
				return false
			}
			if mv, ok := s.first[i]; ok && mv.bid == b && !x[i] {
				r.res.Violate(prop, "bitarray-block-complete", "BitArrayByBlockID misses a validator whose first valid vote was for that block id",
					fmt.Sprintf("%s: block %v validator %d", where, b, i))
				return false
			}
		}
	}
	return true
}

// observeHVS: structure of the height vote set and POLInfo.
func (r *run) observeHVS(after string) bool {
	if r.hvs == nil {
		return true
	}
	ok := true
	var pr uint32
	var pb types.BlockID
	exists := map[setKey]bool{}
	if !r.guard("HeightVoteSet accessors", func() {
		for rr := uint32(0); rr <= r.maxRound+1; rr++ {
			exists[setKey{rr, kproto.PrevoteType}] = r.hvs.Prevotes(rr) != nil
			exists[setKey{rr, kproto.PrecommitType}] = r.hvs.Precommits(rr) != nil
		}
		pr, pb = r.hvs.POLInfo()
	}) {
		return false
	}
	for rr := uint32(0); rr <= r.maxRound+1 && ok; rr++ {
		for _, ty := range []kproto.SignedMsgType{kproto.PrevoteType, kproto.PrecommitType} {
			if exists[setKey{rr, ty}] != r.tracked[rr] {
				r.res.Violate(prop, "hvs-tracking", fmt.Sprintf("height vote set has-round is %v where the model's is %v after %s", exists[setKey{rr, ty}], r.tracked[rr], after),
					fmt.Sprintf("round %d type %v current round %d", rr, ty, r.cur))
				return false
			}
		}
	}
	// POLInfo: sound and not below a first-vote quorum
	if pr != 0 || !keyOfBlockID(pb).isNil() {
		s := r.sets[setKey{pr, kproto.PrevoteType}]
		var sg map[int]bool
		if s != nil {
			sg = s.signers[keyOfBlockID(pb)]
		}
		if pr > r.cur || !r.gt23(r.sumOf(sg)) {
			r.res.Violate(prop, "pol-sound", "POLInfo names a round and block whose prevotes lack +2/3 of validly signed power",
				fmt.Sprintf("after %s: POLInfo=(%d,%v) current round %d signers %s", after, pr, keyOfBlockID(pb), r.cur, fmtSet(sg)))
			return false
		}
	}
	for rr := r.cur; rr >= 1; rr-- {
		s := r.sets[setKey{rr, kproto.PrevoteType}]
		if s == nil {
			continue
		}
		by := map[bidKey]map[int]bool{}
		for i, mv := range s.first {
			if by[mv.bid] == nil {
				by[mv.bid] = map[int]bool{}
			}
			by[mv.bid][i] = true
		}
		q := false
		for _, m := range by {
			if r.gt23(r.sumOf(m)) {
				q = true
			}
		}
		if q {
			if pr < rr {
				r.res.Violate(prop, "pol-complete", "POLInfo reports a round below one whose prevotes hold a first-vote quorum",
					fmt.Sprintf("after %s: POLInfo round %d, quorum at round %d, current %d", after, pr, rr, r.cur))
				return false
			}
			break
		}
	}
	return true
}

// wire: what the reactor does before a vote reaches the vote set.
func wire(v *types.Vote) (*types.Vote, error) {
	bz, err := v.ToProto().Marshal()
	if err != nil {
		return nil, err
	}
	var pv kproto.Vote
	if err := pv.Unmarshal(bz); err != nil {
		return nil, err
	}
	return types.VoteFromProto(&pv)
}

// deliver hands one vote to the product and compares.
func (r *run) deliver(v0 *types.Vote, peer string, label string, adversarial bool) {
	var v *types.Vote
	var werr error
	if !r.guard("vote wire decoding", func() { v, werr = wire(v0) }) {
		return
	}
	if werr != nil {
		r.step("%s val=%d r=%d t=%d bid=%v: rejected on the wire (%v)", label, v0.ValidatorIndex, v0.Round, v0.Type, keyOfBlockID(v0.BlockID), werr)
		r.ah.Add(label, "wire-reject")
		r.res.Probe("wire-rejected:" + label)
		return
	}
	if len(r.delivered) < 64 && !strings.HasPrefix(label, "replayed ") {
		r.delivered = append(r.delivered, v)
		r.deliveredAs = append(r.deliveredAs, label)
	}
	var s *mset
	var added bool
	var err error
	if r.hvs != nil {
		existed := r.tracked[v.Round]
		if !r.guard("HeightVoteSet.AddVote", func() { added, err = r.hvs.AddVote(v, p2p.ID(peer)) }) {
			return
		}
		if !existed {
			var created bool
			if !r.guard("HeightVoteSet.Prevotes", func() { created = r.hvs.Prevotes(v.Round) != nil }) {
				return
			}
			if created {
				r.catchups[peer]++
				r.tracked[v.Round] = true
				if v.Round > r.maxRound {
					r.maxRound = v.Round
				}
				r.res.Probe("catchup-round-created")
				if r.catchups[peer] > catchupAllowance {
					r.res.Violate(prop, "hvs-catchup", "a peer made the height vote set track more unexpected rounds than the allowance",
						fmt.Sprintf("peer %q now %d rounds; vote round %d current %d", peer, r.catchups[peer], v.Round, r.cur))
					return
				}
			} else {
				r.step("%s val=%d r=%d t=%d peer=%q -> untracked round refused added=%v err=%s", label, v.ValidatorIndex, v.Round, v.Type, peer, added, errClass(err))
				r.ah.Add(label, "round-refused")
				r.res.Fault("vote-for-untracked-round-refused")
				if added || err == nil {
					r.res.Violate(prop, "hvs-catchup", "vote for an untracked round neither created the round nor returned an error", fmt.Sprintf("added=%v err=%v", added, err))
					return
				}
				if r.catchups[peer] < catchupAllowance {
					tmp := newMset(v.Round, v.Type)
					if ok, _ := r.modelValid(tmp, v); ok {
						r.res.Violate(prop, "hvs-catchup", "valid vote for a future round refused although the peer has catch-up allowance left",
							fmt.Sprintf("peer %q used %d; vote round %d current %d err=%v", peer, r.catchups[peer], v.Round, r.cur, err))
						return
					}
				}
				r.observeHVS(label)
				return
			}
		}
		s = r.set(v.Round, v.Type)
	} else {
		s = r.bare
		if !r.guard("VoteSet.AddVote", func() { added, err = s.bare.AddVote(v) }) {
			return
		}
	}
	valid, why := r.modelValid(s, v)
	idx := int(v.ValidatorIndex)
	bid := keyOfBlockID(v.BlockID)
	mv := mvote{bid, string(v.Signature), v.Timestamp.Unix(), int32(v.Timestamp.Nanosecond())}
	class := "invalid:" + why
	if valid {
		prev, has := s.first[idx]
		switch {
		case !has:
			class = "first"
		default:
			class = "conflict"
			if prev.bid == bid {
				class = "resigned"
			}
			for _, x := range s.valid[idx] {
				if x.sig == mv.sig && x.bid == bid {
					class = "duplicate"
				}
			}
		}
	}
	r.step("%s val=%d r=%d t=%d bid=%v ts=%d peer=%q -> %s added=%v err=%s", label, v.ValidatorIndex, v.Round, v.Type, bid, mv.sec-baseTime, peer, class, added, errClass(err))
	r.ah.Add(label, class)
	where := fmt.Sprintf("%s (model: %s) validator index %d block %v: added=%v err=%v", label, class, v.ValidatorIndex, bid, added, err)
	switch {
	case !valid:
		if added {
			r.res.Violate(prop, "add-verdict", "invalid vote ("+label+", "+why+" does not fit) was added", where)
			return
		}
		if errClass(err) == "conflict" {
			r.res.Violate(prop, "add-verdict", "invalid vote ("+label+", "+why+" does not fit) was treated as a conflicting vote of the validator", where)
			return
		}
		if err == nil {
			// an exact replay of something already refused or held is reported as a silent duplicate; tolerate
			// only when the bytes equal a vote the set already holds
			held := false
			if idx < r.n {
				for _, x := range s.valid[idx] {
					if x.sig == mv.sig {
						held = true
					}
				}
			}
			if !held {
				r.res.Violate(prop, "add-verdict", "invalid vote ("+label+", "+why+" does not fit) returned no error", where)
				return
			}
		}
	case class == "first":
		if !added || err != nil {
			r.res.Violate(prop, "add-verdict", "first valid vote of a validator was not added without error", where)
			return
		}
	case class == "duplicate":
		// only the first vote is certainly held; a conflicting vote may have been dropped and may be
		// taken later (after a peer claim), which the property does not forbid
		if added && s.first[idx].sig == mv.sig {
			r.res.Violate(prop, "add-verdict", "exact duplicate of a validator's first vote reported as added", where)
			return
		}
	}
	if adversarial || class == "conflict" || class == "resigned" || class == "duplicate" {
		k := label
		if valid && !adversarial {
			k = class
		}
		r.res.Fault("vote:" + k)
	}
	if valid {
		if class == "conflict" {
			if s.majSeen {
				r.res.Probe("conflict-after-majority")
			} else {
				r.res.Probe("conflict-before-majority")
			}
			if s.claimed[bid] {
				r.res.Probe("conflict-for-peer-claimed-block")
			} else {
				r.res.Probe("conflict-for-unclaimed-block")
			}
		}
		if class == "first" {
			s.first[idx] = mv
			r.validVotes++
		}
		if class != "duplicate" {
			s.valid[idx] = append(s.valid[idx], mv)
			s.nValid++
		}
		if s.signers[bid] == nil {
			s.signers[bid] = map[int]bool{}
		}
		s.signers[bid][idx] = true
		s.use(bid)
	}
	if !r.observe(s, label) {
		return
	}
	if !r.observeHVS(label) {
		return
	}
	r.maybeCommit(s, false)
}

// ---------------- commits ----------------

func copyCommit(c *types.Commit) *types.Commit {
	sigs := make([]types.CommitSig, len(c.Signatures))
	for i, s := range c.Signatures {
		sigs[i] = s
		sigs[i].Signature = append([]byte(nil), s.Signature...)
	}
	return types.NewCommit(c.Height, c.Round, c.BlockID, sigs)
}

// specVerify: the independent commit verifier.
func (r *run) specVerify(chain string, bid bidKey, height uint64, c *types.Commit) (bool, string) {
	if c == nil {
		return false, "nil"
	}
	cb := keyOfBlockID(c.BlockID)
	if cb.isNil() {
		return false, "form:nil-block"
	}
	if len(c.Signatures) == 0 {
		return false, "form:empty"
	}
	for _, cs := range c.Signatures {
		switch cs.BlockIDFlag {
		case types.BlockIDFlagAbsent:
			if cs.ValidatorAddress != (common.Address{}) || !cs.Timestamp.IsZero() || len(cs.Signature) != 0 {
				return false, "form:absent-carries-data"
			}
		case types.BlockIDFlagCommit, types.BlockIDFlagNil:
			if len(cs.Signature) == 0 {
				return false, "form:no-signature"
			}
		default:
			return false, "form:flag"
		}
	}
	if len(c.Signatures) != r.n {
		return false, "size"
	}
	if c.Height != height {
		return false, "height"
	}
	if cb != bid {
		return false, "block-id"
	}
	tally := new(big.Int)
	for idx, cs := range c.Signatures {
		if cs.BlockIDFlag == types.BlockIDFlagAbsent {
			continue
		}
		vb := bidKey{}
		if cs.BlockIDFlag == types.BlockIDFlagCommit {
			vb = cb
		}
		t := tuple{chain, kproto.PrecommitType, c.Height, c.Round, vb, cs.Timestamp.Unix(), int32(cs.Timestamp.Nanosecond())}
		if !r.validlySigned(idx, t, cs.Signature) {
			if cs.BlockIDFlag == types.BlockIDFlagCommit {
				return false, "signature"
			}
			return false, "signature-of-nil-vote"
		}
		if cs.BlockIDFlag == types.BlockIDFlagCommit {
			tally.Add(tally, r.power[idx])
		}
	}
	if !r.gt23(tally) {
		if new(big.Int).Mul(big.NewInt(3), tally).Cmp(new(big.Int).Mul(big.NewInt(2), r.total)) == 0 {
			r.res.Probe("commit-with-exactly-two-thirds")
		}
		return false, "power"
	}
	return true, ""
}

func (r *run) maybeCommit(s *mset, final bool) {
	if s.typ != kproto.PrecommitType || r.commitBudget <= 0 || r.res.Failed() {
		return
	}
	p := r.pset(s)
	if p == nil {
		return
	}
	var id types.BlockID
	var ok bool
	if !r.guard("VoteSet.TwoThirdsMajority", func() { id, ok = p.TwoThirdsMajority() }) {
		return
	}
	X := keyOfBlockID(id)
	if !ok || X.isNil() {
		return
	}
	if s.lastChecked == s.nValid && s.commitChecks > 0 {
		return
	}
	if !final && s.commitChecks > 0 && !r.tape.Chance(1, 6) {
		return
	}
	s.commitChecks++
	s.lastChecked = s.nValid
	r.commitBudget--
	r.commitCheck(s, p, X)
}

func (r *run) commitCheck(s *mset, p *types.VoteSet, X bidKey) {
	var c *types.Commit
	if !r.guard("VoteSet.MakeCommit", func() { c = p.MakeCommit() }) {
		return
	}
	r.res.Probe("commit-made")
	var verr error
	if !r.guard("ValidatorSet.VerifyCommit", func() { verr = r.vs.VerifyCommit(chainID, X.blockID(), r.height, c) }) {
		return
	}
	sok, swhy := r.specVerify(chainID, X, r.height, c)
	nFor, nNil, nAbs := 0, 0, 0
	for _, cs := range c.Signatures {
		switch cs.BlockIDFlag {
		case types.BlockIDFlagCommit:
			nFor++
		case types.BlockIDFlagNil:
			nNil++
		default:
			nAbs++
		}
	}
	r.step("commit r=%d for=%d nil=%d absent=%d -> verify err=%v spec=%v%s", s.round, nFor, nNil, nAbs, verr != nil, sok, swhy)
	r.ah.Add("commit")
	if verr != nil {
		sig := "commit built by MakeCommit from a reported majority is rejected by VerifyCommit with the same validator set"
		for b, m := range s.signers {
			if sameButTotal(b, X) && len(m) > 0 {
				sig += " (votes for block ids that differ only in the part-set total were pooled)"
				break
			}
		}
		r.res.Violate(prop, "commit-complete", sig,
			fmt.Sprintf("err=%v; independent verifier: ok=%v %s; commit %v", verr, sok, swhy, c))
		return
	}
	if !sok {
		r.res.Violate(prop, "commit-sound", "commit built by MakeCommit is accepted by VerifyCommit but fails independent verification ("+swhy+")",
			fmt.Sprintf("commit %v", c))
		return
	}
	// round trip
	var back *types.VoteSet
	var bid types.BlockID
	var bok bool
	if !r.guard("CommitToVoteSet", func() {
		back = types.CommitToVoteSet(chainID, c, r.vs)
		bid, bok = back.TwoThirdsMajority()
	}) {
		return
	}
	if !bok || keyOfBlockID(bid) != X {
		r.res.Violate(prop, "commit-roundtrip", "vote set rebuilt from a commit does not report the commit's majority",
			fmt.Sprintf("ok=%v id=%v want %v", bok, keyOfBlockID(bid), X))
		return
	}
	k := r.tape.Range(1, r.opt.Int("mutations", 3))
	for j := 0; j < k && !r.res.Failed(); j++ {
		r.mutateAndJudge(s, c, X)
	}
}

func pick(t *core.Tape, xs []int) int { return xs[t.Draw(len(xs))] }

func (r *run) mutateAndJudge(s *mset, good *types.Commit, X bidKey) {
	c := copyCommit(good)
	chain, bid, height := chainID, X, r.height
	var forI, nilI, absI, nonAbs []int
	for i, cs := range c.Signatures {
		switch cs.BlockIDFlag {
		case types.BlockIDFlagCommit:
			forI = append(forI, i)
			nonAbs = append(nonAbs, i)
		case types.BlockIDFlagNil:
			nilI = append(nilI, i)
			nonAbs = append(nonAbs, i)
		default:
			absI = append(absI, i)
		}
	}
	precommit := func(i int, b bidKey, sec int64) (tuple, []byte) {
		t := tuple{chainID, kproto.PrecommitType, c.Height, c.Round, b, sec, 0}
		return t, r.sign(r.keyOf[i], t)
	}
	other := func() bidKey { return palette[2+r.tape.Draw(6)] } // B, A/parts, A/total, near-collisions of A
	label := ""
	sigs := c.Signatures
	kinds := []string{"absent-one", "trim", "resigned", "flip-signature", "swap", "duplicate-validator", "moved-signature",
		"for-block->nil", "nil->for-block", "absent->nil-garbage", "nil-signature-flipped", "absent-keeps-data", "drop-last", "append",
		"commit-height", "both-heights", "round", "commit-block-id", "both-block-ids", "timestamp", "nil-signed-other-block",
		"chain", "flag-invalid", "empty-signature", "for-block-signed-other-block", "prevote-signature", "truncated-signature",
		"genuine-for-other-height", "genuine-for-other-block", "genuine-for-other-round"}
	w := []int{4, 6, 2, 3, 3, 3, 3, 2, 2, 3, 3, 1, 1, 1, 1, 1, 2, 1, 2, 1, 2, 1, 1, 1, 2, r.g1w, r.g3w, 2, 2, 1}
	// resignAll: every signer of the commit genuinely signs again for another height / round / block
	resignAll := func(h uint64, rd uint32, b bidKey) {
		for i := range sigs {
			if sigs[i].BlockIDFlag == types.BlockIDFlagAbsent {
				continue
			}
			vb := bidKey{}
			if sigs[i].BlockIDFlag == types.BlockIDFlagCommit {
				vb = b
			}
			t := tuple{chainID, kproto.PrecommitType, h, rd, vb, sigs[i].Timestamp.Unix(), int32(sigs[i].Timestamp.Nanosecond())}
			sigs[i].Signature = append([]byte(nil), r.sign(r.keyOf[i], t)...)
		}
	}
	kind := kinds[r.tape.Weighted(w...)]
	label = kind
	applied := true
	switch kind {
	case "absent-one":
		sigs[pick(r.tape, forI)] = types.NewCommitSigAbsent()
	case "trim":
		k := r.tape.Range(1, len(forI))
		pm := r.tape.Perm(len(forI))
		for j := 0; j < k; j++ {
			sigs[forI[pm[j]]] = types.NewCommitSigAbsent()
		}
	case "resigned":
		i := pick(r.tape, forI)
		t, sg := precommit(i, X, sigs[i].Timestamp.Unix()+1+int64(r.tape.Draw(2)))
		sigs[i].Timestamp, sigs[i].Signature = t.time(), sg
	case "flip-signature":
		i := pick(r.tape, forI)
		sigs[i].Signature[r.tape.Draw(64)] ^= byte(1 << uint(r.tape.Draw(8)))
	case "nil-signature-flipped":
		if len(nilI) == 0 {
			applied = false
			break
		}
		i := pick(r.tape, nilI)
		sigs[i].Signature[r.tape.Draw(64)] ^= byte(1 << uint(r.tape.Draw(8)))
	case "swap":
		if r.n < 2 {
			applied = false
			break
		}
		i := pick(r.tape, nonAbs)
		j := (i + 1 + r.tape.Draw(r.n-1)) % r.n
		sigs[i], sigs[j] = sigs[j], sigs[i]
	case "duplicate-validator":
		if r.n < 2 {
			applied = false
			break
		}
		i := pick(r.tape, forI)
		j := (i + 1 + r.tape.Draw(r.n-1)) % r.n
		sigs[j] = sigs[i]
		sigs[j].Signature = append([]byte(nil), sigs[i].Signature...)
	case "moved-signature":
		if r.n < 2 {
			applied = false
			break
		}
		i := pick(r.tape, forI)
		j := (i + 1 + r.tape.Draw(r.n-1)) % r.n
		sigs[j] = types.CommitSig{BlockIDFlag: types.BlockIDFlagCommit, ValidatorAddress: addrs[r.keyOf[j]], Timestamp: sigs[i].Timestamp,
			Signature: append([]byte(nil), sigs[i].Signature...)}
	case "for-block->nil":
		sigs[pick(r.tape, forI)].BlockIDFlag = types.BlockIDFlagNil
	case "nil->for-block":
		if len(nilI) == 0 {
			applied = false
			break
		}
		sigs[pick(r.tape, nilI)].BlockIDFlag = types.BlockIDFlagCommit
	case "absent->nil-garbage":
		if len(absI) == 0 {
			applied = false
			break
		}
		j := pick(r.tape, absI)
		var sg []byte
		switch r.tape.Draw(3) {
		case 0: // the validator's own precommit for the block, relabelled nil
			_, sg = precommit(j, X, baseTime)
		case 1: // a nil precommit signed by somebody else
			o := (r.keyOf[j] + 1 + r.tape.Draw(nKeys-1)) % nKeys
			sg = r.sign(o, tuple{chainID, kproto.PrecommitType, c.Height, c.Round, bidKey{}, baseTime, 0})
		default:
			sg = make([]byte, 65)
			sg[0], sg[33] = 1, 1
		}
		sigs[j] = types.CommitSig{BlockIDFlag: types.BlockIDFlagNil, ValidatorAddress: addrs[r.keyOf[j]], Timestamp: time.Unix(baseTime, 0).UTC(), Signature: sg}
	case "absent-keeps-data":
		sigs[pick(r.tape, forI)].BlockIDFlag = types.BlockIDFlagAbsent
	case "drop-last":
		c.Signatures = sigs[:len(sigs)-1]
	case "append":
		if r.tape.Chance(1, 2) {
			c.Signatures = append(sigs, sigs[pick(r.tape, forI)])
		} else {
			c.Signatures = append(sigs, types.NewCommitSigAbsent())
		}
	case "commit-height":
		c.Height++
	case "both-heights":
		c.Height++
		height++
	case "round":
		c.Round++
	case "commit-block-id":
		c.BlockID = other().blockID()
	case "both-block-ids":
		bid = other()
		c.BlockID = bid.blockID()
	case "timestamp":
		i := pick(r.tape, nonAbs)
		sigs[i].Timestamp = sigs[i].Timestamp.Add(time.Second)
	case "nil-signed-other-block":
		// a nil-flag entry that carries the validator's genuine precommit for some block
		j := r.tape.Draw(r.n)
		t, sg := precommit(j, palette[1+r.tape.Draw(2)], baseTime)
		sigs[j] = types.CommitSig{BlockIDFlag: types.BlockIDFlagNil, ValidatorAddress: addrs[r.keyOf[j]], Timestamp: t.time(), Signature: sg}
	case "for-block-signed-other-block":
		// a for-block entry carrying the validator's genuine precommit for another block
		j := r.tape.Draw(r.n)
		ob := other()
		if ob == X {
			ob = palette[0]
		}
		t, sg := precommit(j, ob, baseTime)
		sigs[j] = types.CommitSig{BlockIDFlag: types.BlockIDFlagCommit, ValidatorAddress: addrs[r.keyOf[j]], Timestamp: t.time(), Signature: sg}
	case "chain":
		chain = otherChain
	case "flag-invalid":
		sigs[pick(r.tape, nonAbs)].BlockIDFlag = types.BlockIDFlag(4 * r.tape.Draw(2))
	case "empty-signature":
		sigs[pick(r.tape, nonAbs)].Signature = nil
	case "prevote-signature":
		// the validator's genuine *prevote* for the block presented as its precommit
		j := r.tape.Draw(r.n)
		if len(absI) > 0 {
			j = pick(r.tape, absI)
		}
		t := tuple{chainID, kproto.PrevoteType, c.Height, c.Round, X, baseTime + 7, 0}
		sg := r.sign(r.keyOf[j], t)
		sigs[j] = types.CommitSig{BlockIDFlag: types.BlockIDFlagCommit, ValidatorAddress: addrs[r.keyOf[j]], Timestamp: t.time(), Signature: sg}
	case "genuine-for-other-height":
		// a genuine commit of the same validators for the same block id at another height, judged for this height
		c.Height++
		resignAll(c.Height, c.Round, X)
	case "genuine-for-other-block":
		// a genuine commit for another block, judged as justification of this block
		ob := other()
		c.BlockID = ob.blockID()
		resignAll(c.Height, c.Round, ob)
	case "genuine-for-other-round":
		// the round is self-described by the commit: a genuine commit of another round is a valid justification
		c.Round++
		resignAll(c.Height, c.Round, X)
	case "truncated-signature":
		i := pick(r.tape, nonAbs)
		sigs[i].Signature = sigs[i].Signature[:1+r.tape.Draw(64)]
	}
	if !applied {
		r.step("mutate %s: not applicable", label)
		return
	}
	var verr error
	if !r.guard("ValidatorSet.VerifyCommit on a mutated commit ("+label+")", func() { verr = r.vs.VerifyCommit(chain, bid.blockID(), height, c) }) {
		return
	}
	sok, swhy := r.specVerify(chain, bid, height, c)
	r.step("mutate %s -> VerifyCommit accept=%v spec accept=%v %s", label, verr == nil, sok, swhy)
	r.ah.Add("mutate", label, fmt.Sprint(sok))
	r.res.Fault("commit:" + label)
	if sok {
		r.res.Probe("mutated-commit-still-valid")
	}
	if swhy == "power" {
		r.res.Probe("mutated-commit-short-of-power")
	}
	detail := fmt.Sprintf("mutation %s: VerifyCommit err=%v; independent verifier ok=%v %s; total %v powers %v; commit %v", label, verr, sok, swhy, r.total, r.power, c)
	if verr == nil && !sok {
		oracle := "commit-sound"
		if strings.HasPrefix(swhy, "form:") || swhy == "signature-of-nil-vote" {
			oracle = "commit-verdict"
		}
		r.res.Violate(prop, oracle, "mutated commit ("+label+") accepted by VerifyCommit although the independent verifier rejects it ("+swhy+")", detail)
		return
	}
	if verr != nil && sok {
		r.res.Violate(prop, "commit-verdict", "mutated commit ("+label+") rejected by VerifyCommit although the independent verifier accepts it", detail)
		return
	}
	if sok {
		var bid2 types.BlockID
		var bok bool
		if !r.guard("CommitToVoteSet", func() {
			bid2, bok = types.CommitToVoteSet(chain, c, r.vs).TwoThirdsMajority()
		}) {
			return
		}
		if !bok || keyOfBlockID(bid2) != bid {
			r.res.Violate(prop, "commit-roundtrip", "vote set rebuilt from an accepted commit does not report the commit's majority", detail)
		}
	}
}

// ---------------- generator ----------------

func genPowers(t *core.Tape, n int) ([]int64, string) {
	p := make([]int64, n)
	capI := int64(math.MaxInt64 / 8)
	profile := ""
	switch t.Weighted(4, 3, 2, 3, 2) {
	case 0:
		profile = "ones"
		for i := range p {
			p[i] = 1
		}
	case 1:
		profile = "small"
		for i := range p {
			p[i] = int64(t.Range(1, 10))
		}
	case 2:
		profile = "equal-k"
		k := int64(t.Range(2, 1000))
		for i := range p {
			p[i] = k
		}
	case 3:
		profile = "skewed"
		var rest int64
		for i := 1; i < n; i++ {
			p[i] = int64(t.Range(1, 5))
			rest += p[i]
		}
		if n == 1 {
			p[0] = int64(t.Range(1, 1000))
		} else {
			// one validator right around 1/3, 1/2 or 2/3 of the total
			num := []int64{1, 2, 4}[t.Draw(3)] // p0 = rest*num/2 -> share 1/3, 1/2, 2/3
			p[0] = rest*num/2 + int64(t.Draw(3)) - 1
			if p[0] < 1 {
				p[0] = 1
			}
		}
	default:
		profile = "near-cap"
		tot := capI - int64(t.Draw(4))
		if t.Chance(1, 2) {
			for i := 1; i < n; i++ {
				p[i] = 1
			}
			p[0] = tot - int64(n-1)
		} else {
			base := tot / int64(n)
			for i := range p {
				p[i] = base
			}
			p[0] += tot - base*int64(n)
		}
	}
	if adj := t.Draw(4); adj > 0 {
		target := int64(adj - 1)
		var sum int64
		for _, x := range p {
			sum += x
		}
		delta := ((target-sum%3)%3 + 3) % 3
		if sum+delta <= capI {
			p[0] += delta
		} else if p[0] > 3 {
			p[0] -= (3 - delta) % 3
		}
		profile += fmt.Sprintf("/mod3=%d", target)
	}
	return p, profile
}

func (r *run) drawRound() uint32 {
	switch r.tape.Weighted(5, 2, 1, 2) {
	case 0:
		return r.cur
	case 1:
		if r.cur > 0 {
			return r.cur - 1
		}
		return r.cur
	case 2:
		return uint32(r.tape.Draw(int(r.cur) + 1))
	default:
		return r.cur + 1 + uint32(r.tape.Draw(3))
	}
}

func (r *run) drawPeer() string {
	if r.hvs == nil {
		return "p0"
	}
	return []string{"p0", "p1", "p2", ""}[r.tape.Draw(4)]
}

// target: the (round, type) a generated vote is meant for.
func (r *run) drawTarget() (uint32, kproto.SignedMsgType) {
	if r.hvs == nil {
		return r.bare.round, r.bare.typ
	}
	ty := kproto.PrecommitType
	if r.tape.Chance(1, 3) {
		ty = kproto.PrevoteType
	}
	return r.drawRound(), ty
}

func (r *run) drawBlock(i int, round uint32, ty kproto.SignedMsgType) (bidKey, int64) {
	if !r.byz[i] {
		k := [3]int{i, int(round), int(ty)}
		pi, ok := r.pref[k]
		if !ok {
			pi = []int{1, 0, 2}[r.tape.Weighted(7, 2, 1)]
			r.pref[k] = pi
		}
		return palette[pi], baseTime + int64(i%2)
	}
	pi := []int{1, 0, 2, 3, 4, 5, 6, 7}[r.tape.Weighted(15, 6, 6, 3, r.g2w, 2, 1, 1)]
	return palette[pi], baseTime + int64(r.tape.Draw(3))
}

func (r *run) mkVote(i int, t tuple, sig []byte) *types.Vote {
	return &types.Vote{ValidatorAddress: addrs[r.keyOf[i]], ValidatorIndex: uint32(i), Height: t.height, Round: t.round,
		Timestamp: t.time(), Type: t.typ, BlockID: t.bid.blockID(), Signature: append([]byte(nil), sig...)}
}

func (r *run) voteEvent(distort bool) {
	round, ty := r.drawTarget()
	i := r.tape.Draw(r.n)
	if !distort && r.tape.Draw(4) != 1 {
		// prefer a validator that has not voted in the target set yet (keeps histories from
		// degenerating into replays); draw value 1 keeps the drawn validator
		var s *mset
		if r.hvs == nil {
			s = r.bare
		} else {
			s = r.sets[setKey{round, ty}]
		}
		if s != nil {
			for k := 0; k < r.n; k++ {
				if _, ok := s.first[(i+k)%r.n]; !ok {
					i = (i + k) % r.n
					break
				}
			}
		}
	}
	b, sec := r.drawBlock(i, round, ty)
	t0 := tuple{chainID, ty, r.height, round, b, sec, 0}
	peer := r.drawPeer()
	if !distort {
		r.deliver(r.mkVote(i, t0, r.sign(r.keyOf[i], t0)), peer, "vote", false)
		return
	}
	bareOnly := 0
	if r.hvs == nil {
		bareOnly = 2
	}
	kinds := []string{"wrong-index", "wrong-address", "other-height", "height-relabelled", "other-round", "round-relabelled", "other-type",
		"type-relabelled", "invalid-type", "other-chain", "signature-flipped", "signed-by-other-validator", "signed-by-outsider",
		"signature-zeroes", "signature-truncated", "block-relabelled", "timestamp-relabelled", "incomplete-block-id", "signature-empty"}
	w := []int{3, 3, 2, 2, bareOnly, 2, bareOnly, r.g1w, 1, 2, 3, 3, 2, 1, r.g3w, 3, 2, 1, 1}
	kind := kinds[r.tape.Weighted(w...)]
	t1 := t0
	var v *types.Vote
	own := func(t tuple) []byte { return r.sign(r.keyOf[i], t) }
	switch kind {
	case "wrong-index":
		v = r.mkVote(i, t0, own(t0))
		switch c := r.tape.Draw(4); {
		case c == 0 && r.n > 1:
			v.ValidatorIndex = uint32((i + 1 + r.tape.Draw(r.n-1)) % r.n)
		case c == 1:
			v.ValidatorIndex = uint32(r.n)
		case c == 2:
			v.ValidatorIndex = math.MaxUint32
		default:
			v.ValidatorIndex = uint32(r.n + 1 + r.tape.Draw(100))
		}
	case "wrong-address":
		v = r.mkVote(i, t0, own(t0))
		switch c := r.tape.Draw(3); {
		case c == 0 && r.n > 1:
			v.ValidatorAddress = addrs[r.keyOf[(i+1+r.tape.Draw(r.n-1))%r.n]]
		case c == 1:
			v.ValidatorAddress = addrs[nKeys-1]
		default:
			v.ValidatorAddress = common.Address{}
		}
	case "other-height", "height-relabelled":
		if r.height > 1 && r.tape.Chance(1, 2) {
			t1.height--
		} else {
			t1.height++
		}
		if kind == "other-height" {
			v = r.mkVote(i, t1, own(t1))
		} else {
			v = r.mkVote(i, t0, own(t1))
		}
	case "other-round", "round-relabelled":
		if round > 0 && r.tape.Chance(1, 2) {
			t1.round--
		} else {
			t1.round++
		}
		if kind == "other-round" {
			v = r.mkVote(i, t1, own(t1))
		} else {
			v = r.mkVote(i, t0, own(t1))
		}
	case "other-type", "type-relabelled":
		t1.typ = kproto.PrevoteType + kproto.PrecommitType - ty
		if kind == "other-type" {
			v = r.mkVote(i, t1, own(t1))
		} else {
			// relabelling is only an attack if the validator did not also sign the presented tuple:
			// use a timestamp nobody else uses
			t0.sec, t1.sec = baseTime+11, baseTime+11
			v = r.mkVote(i, t0, own(t1))
		}
	case "invalid-type":
		t1.typ = []kproto.SignedMsgType{0, kproto.ProposalType, 3}[r.tape.Draw(3)]
		v = r.mkVote(i, t1, own(t1))
	case "other-chain":
		t1.chain = otherChain
		v = r.mkVote(i, t0, own(t1))
	case "signature-flipped":
		v = r.mkVote(i, t0, own(t0))
		v.Signature[r.tape.Draw(64)] ^= byte(1 << uint(r.tape.Draw(8)))
	case "signed-by-other-validator":
		if r.n < 2 {
			kind = "signed-by-outsider"
			v = r.mkVote(i, t0, r.sign(nKeys-1, t0))
		} else {
			j := (i + 1 + r.tape.Draw(r.n-1)) % r.n
			v = r.mkVote(i, t0, r.sign(r.keyOf[j], t0))
		}
	case "signed-by-outsider":
		v = r.mkVote(i, t0, r.sign(nKeys-1-r.tape.Draw(2), t0))
	case "signature-zeroes":
		v = r.mkVote(i, t0, make([]byte, 65))
	case "signature-truncated":
		sg := own(t0)
		v = r.mkVote(i, t0, sg[:1+r.tape.Draw(64)])
	case "block-relabelled":
		if pi := palIndex(t0.bid); pi >= 0 && pi < 4 {
			t1.bid = palette[(pi+1+r.tape.Draw(3))%4]
		} else {
			t1.bid = palette[r.tape.Draw(4)]
		}
		v = r.mkVote(i, t0, own(t1))
	case "timestamp-relabelled":
		t1.sec += 5
		v = r.mkVote(i, t0, own(t1))
	case "incomplete-block-id":
		t1.bid = incomplete[r.tape.Draw(2)]
		v = r.mkVote(i, t1, own(t1))
	case "signature-empty":
		v = r.mkVote(i, t0, nil)
	}
	r.deliver(v, peer, kind, true)
}

func (r *run) claimEvent() {
	peer := []string{"p0", "p1", "p2"}[r.tape.Draw(3)]
	b := palette[[]int{1, 2, 0, 3, 4, 5, 6, 7}[r.tape.Weighted(12, 9, 3, 3, r.g2w, 2, 1, 1)]]
	round, ty := r.drawTarget()
	var err error
	var s *mset
	if r.hvs != nil {
		if !r.guard("HeightVoteSet.SetPeerMaj23", func() { err = r.hvs.SetPeerMaj23(round, ty, p2p.ID(peer), b.blockID()) }) {
			return
		}
		if r.tracked[round] {
			s = r.set(round, ty)
		}
	} else {
		s = r.bare
		if !r.guard("VoteSet.SetPeerMaj23", func() { err = s.bare.SetPeerMaj23(p2p.ID(peer), b.blockID()) }) {
			return
		}
	}
	r.step("claim peer=%s r=%d t=%d bid=%v -> err=%v", peer, round, ty, b, err != nil)
	r.ah.Add("claim")
	if s == nil {
		r.observeHVS("peer claim")
		return
	}
	if prev, ok := s.claims[peer]; !ok {
		s.claims[peer] = b
		s.claimed[b] = true
		s.use(b)
		r.res.Fault("peer-claim")
		if len(s.first) > 0 {
			r.res.Probe("peer-claim-after-votes")
		}
		if err != nil {
			r.res.Violate(prop, "claim", "first majority claim of a peer for a vote set returned an error", fmt.Sprint(err))
			return
		}
	} else if prev != b {
		r.res.Fault("peer-claim-conflicting")
	}
	if r.observe(s, "peer claim") {
		r.observeHVS("peer claim")
	}
}

func (r *run) replayEvent() {
	if len(r.delivered) == 0 {
		r.voteEvent(false)
		return
	}
	k := r.tape.Draw(len(r.delivered))
	r.deliver(r.delivered[k], r.drawPeer(), "replayed "+r.deliveredAs[k], r.deliveredAs[k] != "vote")
}

func (r *run) setRoundEvent() {
	if r.hvs == nil {
		r.voteEvent(false)
		return
	}
	target := r.cur + uint32(r.tape.Draw(3))
	if target > 8 {
		target = 8
	}
	if target < r.cur {
		target = r.cur
	}
	if !r.guard("HeightVoteSet.SetRound", func() { r.hvs.SetRound(target) }) {
		return
	}
	for rr := uint32(0); rr <= target; rr++ {
		r.tracked[rr] = true
	}
	r.cur = target
	if target > r.maxRound {
		r.maxRound = target
	}
	r.step("set-round %d", target)
	r.ah.Add("set-round")
	r.observeHVS("SetRound")
}

// signBytesCheck: the product's sign bytes against the own canonical encoding.
func (r *run) signBytesCheck() {
	typeSig, typeDetail := "", ""
	for _, v := range r.delivered {
		if v.Type != kproto.PrevoteType && v.Type != kproto.PrecommitType {
			continue
		}
		t := tupleOfVote(chainID, v)
		var got []byte
		if !r.guard("VoteSignBytes", func() { got = types.VoteSignBytes(chainID, v.ToProto()) }) {
			return
		}
		want := canonicalSignBytes(t)
		r.h.AddBytes(got)
		if string(got) == string(want) {
			continue
		}
		detail := fmt.Sprintf("vote %v\nproduct %x\nown     %x", v, got, want)
		other := false
		for _, ot := range []kproto.SignedMsgType{kproto.PrevoteType, kproto.PrecommitType, 0} {
			t2 := t
			t2.typ = ot
			if ot != t.typ && string(canonicalSignBytes(t2)) == string(got) {
				other = true
				if typeSig == "" {
					typeSig = fmt.Sprintf("sign bytes of a vote of type %d are those of a vote of type %d: the signature does not commit to the vote type", t.typ, ot)
					typeDetail = detail
				}
			}
		}
		if !other {
			r.res.Violate(prop, "sign-bytes", "sign bytes of a vote differ from the canonical encoding of its fields", detail)
			return
		}
	}
	if typeSig != "" {
		r.res.Violate(prop, "sign-bytes", typeSig, typeDetail)
	}
}

type engine struct{}

func (engine) Name() string { return "votesim" }

func (engine) Run(t *testing.T, tape *core.Tape, opt core.Options) (res *core.RunResult) {
	res = core.NewResult()
	r := &run{res: res, tape: tape, opt: opt, h: core.NewHasher(), ah: core.NewHasher(),
		sets: map[setKey]*mset{}, tracked: map[uint32]bool{}, catchups: map[string]int{},
		signed: map[string][]srec{}, pref: map[[3]int]int{}}
	defer func() {
		if p := recover(); p != nil {
			res.Infra = fmt.Sprintf("votesim harness panic: %v", p)
		}
		res.TraceHash = r.h.Sum()
		res.AbstractHash = r.ah.Sum()
		res.Sample = map[string]interface{}{"ops": r.ops}
	}()
	r.g1w, r.g2w, r.g3w = opt.Int("g1w", 1), opt.Int("g2w", 1), opt.Int("g3w", 1)

	// validator set
	r.n = tape.Range(1, maxVals)
	pw, profile := genPowers(tape, r.n)
	kperm := tape.Perm(r.n) // which fixed key gets which power
	var vals []*types.Validator
	powerOfKey := map[int]int64{}
	for j := 0; j < r.n; j++ {
		powerOfKey[kperm[j]] = pw[j]
		vals = append(vals, types.NewValidator(addrs[kperm[j]], pw[j]))
	}
	func() {
		defer func() {
			if p := recover(); p != nil {
				res.Infra = fmt.Sprintf("generator produced an invalid validator set %v: %v", pw, p)
			}
		}()
		r.vs = types.NewValidatorSet(vals)
	}()
	if res.Infra != "" {
		return
	}
	r.total = new(big.Int)
	for _, v := range r.vs.Validators {
		k := -1
		for j := 0; j < r.n; j++ {
			if addrs[j] == v.Address {
				k = j
			}
		}
		if k < 0 || powerOfKey[k] != v.VotingPower {
			res.Infra = "validator set does not hold the generated validators"
			return
		}
		r.keyOf = append(r.keyOf, k)
		r.power = append(r.power, big.NewInt(powerOfKey[k]))
		r.total.Add(r.total, big.NewInt(powerOfKey[k]))
	}
	if r.total.Cmp(capTotal) > 0 {
		res.Infra = "generated total above the cap"
		return
	}
	byzMode := tape.Weighted(3, 4, 2, 1)
	nByz := 0
	for i := 0; i < r.n; i++ {
		b := false
		switch byzMode {
		case 1:
			b = tape.Chance(1, 4)
		case 2:
			b = tape.Chance(1, 2)
		case 3:
			b = true
		}
		r.byz = append(r.byz, b)
		if b {
			nByz++
		}
	}
	r.height = []uint64{1, 2, 3, 1000003}[tape.Draw(4)]
	mode := opt.Params["mode"]
	if mode == "" {
		mode = []string{"bare", "hvs"}[tape.Weighted(3, 2)]
	}
	r.commitBudget = opt.Int("commits", 3)
	if mode == "hvs" {
		if !r.guard("NewHeightVoteSet", func() { r.hvs = cstypes.NewHeightVoteSet(log.NewNopLogger(), chainID, r.height, r.vs) }) {
			return
		}
		r.tracked[1] = true
		r.cur, r.maxRound = 1, 1
	} else {
		ty := kproto.PrecommitType
		if tape.Chance(1, 4) {
			ty = kproto.PrevoteType
		}
		r.bare = newMset(uint32(tape.Draw(4)), ty)
		r.setSeq = append(r.setSeq, r.bare)
		if !r.guard("NewVoteSet", func() { r.bare.bare = types.NewVoteSet(chainID, r.height, r.bare.round, ty, r.vs) }) {
			return
		}
	}
	r.step("setup mode=%s n=%d profile=%s powers=%v total=%v byz=%v height=%d", mode, r.n, profile, r.power, r.total, r.byz, r.height)
	r.ah.Add("setup", mode, fmt.Sprint(r.n), profile, fmt.Sprint(nByz), fmt.Sprint(new(big.Int).Mod(r.total, big.NewInt(3))))
	res.Probe("profile:" + strings.SplitN(profile, "/", 2)[0])
	res.Probe(fmt.Sprintf("total-mod3=%v", new(big.Int).Mod(r.total, big.NewInt(3))))
	if r.bare != nil && !r.observe(r.bare, "creation") {
		return
	}

	wSet := 0
	if r.hvs != nil {
		wSet = 2
	}
	nEvents := tape.Range(4, opt.Int("events", 60))
	for e := 0; e < nEvents && !res.Failed() && res.Infra == ""; e++ {
		res.Steps++
		switch tape.Weighted(12, 5, 2, 2, wSet) {
		case 0:
			r.voteEvent(false)
		case 1:
			r.voteEvent(true)
		case 2:
			r.claimEvent()
		case 3:
			r.replayEvent()
		default:
			r.setRoundEvent()
		}
	}
	if res.Failed() {
		return
	}
	// final sweep: every vote set once more, commits of every majority not yet judged in its final state
	for _, s := range r.setSeq {
		if r.hvs != nil && !r.tracked[s.round] {
			continue
		}
		if !r.observe(s, "the end of the run") {
			return
		}
		r.maybeCommit(s, true)
		if res.Failed() {
			return
		}
	}
	r.signBytesCheck()
	nFaults := 0
	for _, c := range res.Faults {
		nFaults += c
	}
	res.NonTrivial = nFaults > 0 && r.majorities > 0
	if nByz*3 > r.n {
		res.Probe("byzantine-above-one-third-of-validators")
	}
	return res
}

func firstLine(s string) string {
	if i := strings.IndexByte(s, '\n'); i >= 0 {
		s = s[:i]
	}
	if len(s) > 160 {
		s = s[:160]
	}
	return s
}

func TestSim(t *testing.T) { core.Main(t, engine{}) }
