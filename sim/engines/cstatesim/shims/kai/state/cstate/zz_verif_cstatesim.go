package cstate

// Export shim added at build time through -overlay (no file in /repo is edited).
// No logic: re-exports of unexported identifiers.

var VerifUpdateState = updateState
var VerifLoadStateAtHeight = loadStateAtHeight
