// Engine cstatesim (C14): consensus-state persistence.
//
// A chain of cstate.LatestBlockState is produced by the real MakeGenesisState
// and the real (unexported) updateState with validator updates from a
// tape-driven script, each state saved through the real Store over a simulated
// disk with an ordered write log, together with what Load() joins it with
// (block meta through rawdb.WriteBlock, app hash, head block hash, written in
// the order the node writes them). Interleaved: PruneState over arbitrary
// ranges, restarts (new store over a fork of the disk) and crash images at
// write-log prefixes around a save. Reference model: snapshots of the saved
// states kept in memory in the engine's own data structures.
package cstatesim

import (
	"bytes"
	"fmt"
	"math/big"
	"strings"
	"testing"
	"time"

	"verif/sim/core"

	"github.com/kardiachain/go-kardia/configs"
	"github.com/kardiachain/go-kardia/kai/rawdb"
	"github.com/kardiachain/go-kardia/kai/state/cstate"
	"github.com/kardiachain/go-kardia/lib/common"
	"github.com/kardiachain/go-kardia/lib/log"
	"github.com/kardiachain/go-kardia/mainchain/genesis"
	kproto "github.com/kardiachain/go-kardia/proto/kardiachain/types"
	"github.com/kardiachain/go-kardia/trie"
	"github.com/kardiachain/go-kardia/types"
)

const prop = "C14"

type engine struct{}

func (engine) Name() string { return "cstatesim" }

func TestSim(t *testing.T) { core.Main(t, engine{}) }

// ---------------- model ----------------

type valSnap struct {
	addr  common.Address
	power int64
	prio  int64
}

type setSnap struct {
	isNil    bool
	vals     []valSnap
	proposer common.Address
}

type stateSnap struct {
	chainID       string
	initialHeight uint64
	height        uint64
	blockID       types.BlockID
	blockTime     time.Time
	appHash       common.Hash
	params        []byte
	lhvc, lhcpc   uint64
	last, cur, nx setSnap
}

func snapSet(vs *types.ValidatorSet) setSnap {
	if vs == nil {
		return setSnap{isNil: true}
	}
	c := vs.Copy() // observers below may cache a proposer; keep the original untouched
	s := setSnap{}
	for _, v := range c.Validators {
		s.vals = append(s.vals, valSnap{v.Address, v.VotingPower, v.ProposerPriority})
	}
	if len(c.Validators) > 0 {
		s.proposer = c.GetProposer().Address
	}
	return s
}

func snapState(st cstate.LatestBlockState) stateSnap {
	pb, err := st.ConsensusParams.Marshal()
	if err != nil {
		panic(err)
	}
	return stateSnap{
		chainID: st.ChainID, initialHeight: st.InitialHeight, height: st.LastBlockHeight, blockID: st.LastBlockID,
		blockTime: st.LastBlockTime, appHash: st.AppHash, params: pb,
		lhvc: st.LastHeightValidatorsChanged, lhcpc: st.LastHeightConsensusParamsChanged,
		last: snapSet(st.LastValidators), cur: snapSet(st.Validators), nx: snapSet(st.NextValidators),
	}
}

func (s setSnap) String() string {
	if s.isNil {
		return "nil"
	}
	out := ""
	for _, v := range s.vals {
		out += fmt.Sprintf("%x:%d:%d ", v.addr[:2], v.power, v.prio)
	}
	return out + fmt.Sprintf("P=%x", s.proposer[:2])
}

// diffSet returns "" or what differs: membership | priorities or proposer.
func diffSet(want, got setSnap) string {
	if want.isNil || len(want.vals) == 0 {
		if got.isNil || len(got.vals) == 0 {
			return ""
		}
		return "membership"
	}
	if got.isNil || len(got.vals) != len(want.vals) {
		return "membership"
	}
	for i := range want.vals {
		if want.vals[i].addr != got.vals[i].addr || want.vals[i].power != got.vals[i].power {
			return "membership"
		}
	}
	for i := range want.vals {
		if want.vals[i].prio != got.vals[i].prio {
			return "priorities or proposer"
		}
	}
	if want.proposer != got.proposer {
		return "priorities or proposer"
	}
	return ""
}

// diffState returns (field, detail) of the first difference.
func diffState(want, got stateSnap) (string, string) {
	switch {
	case want.chainID != got.chainID:
		return "ChainID", fmt.Sprintf("%q vs %q", want.chainID, got.chainID)
	case want.initialHeight != got.initialHeight:
		return "InitialHeight", fmt.Sprintf("%d vs %d", want.initialHeight, got.initialHeight)
	case want.height != got.height:
		return "LastBlockHeight", fmt.Sprintf("%d vs %d", want.height, got.height)
	case want.blockID.Hash != got.blockID.Hash || want.blockID.PartsHeader.Total != got.blockID.PartsHeader.Total || want.blockID.PartsHeader.Hash != got.blockID.PartsHeader.Hash:
		return "LastBlockID", fmt.Sprintf("%v vs %v", want.blockID, got.blockID)
	case !want.blockTime.Equal(got.blockTime):
		return "LastBlockTime", fmt.Sprintf("%v vs %v", want.blockTime, got.blockTime)
	case want.appHash != got.appHash:
		return "AppHash", fmt.Sprintf("%x vs %x", want.appHash[:4], got.appHash[:4])
	case !bytes.Equal(want.params, got.params):
		return "ConsensusParams", fmt.Sprintf("%x vs %x", want.params, got.params)
	case want.lhvc != got.lhvc:
		return "LastHeightValidatorsChanged", fmt.Sprintf("%d vs %d", want.lhvc, got.lhvc)
	case want.lhcpc != got.lhcpc:
		return "LastHeightConsensusParamsChanged", fmt.Sprintf("%d vs %d", want.lhcpc, got.lhcpc)
	}
	for _, x := range []struct {
		name      string
		want, got setSnap
	}{{"LastValidators", want.last, got.last}, {"Validators", want.cur, got.cur}, {"NextValidators", want.nx, got.nx}} {
		if d := diffSet(x.want, x.got); d != "" {
			return x.name + " " + d, fmt.Sprintf("saved %v\nloaded %v", x.want, x.got)
		}
	}
	return "", ""
}

// ---------------- run ----------------

type violated struct{}

type run struct {
	res   *core.RunResult
	tape  *core.Tape
	h, ah *core.Hasher
	ops   []string

	disk  *Disk
	store cstate.Store
	state cstate.LatestBlockState // the state in memory (the last one produced)
	head  uint64
	model map[uint64]stateSnap // every state saved and not pruned
	saved map[uint64]stateSnap // every state ever saved (for crash images)

	universe []common.Address
	origPow  map[common.Address]int64
	removed  []common.Address
	// write-log window of the last save: [iBlock, iSave) precede the save, iEnd follows it
	iBlock, iSave, iEnd int
}

func (r *run) step(f string, a ...interface{}) {
	s := fmt.Sprintf(f, a...)
	if len(r.ops) < 50 {
		r.ops = append(r.ops, s)
	}
	r.res.Tracef("%s", s)
	r.h.Add(s)
	r.res.Steps++
}

func (r *run) fail(oracle, sig, detail string) {
	r.res.Violate(prop, oracle, sig, detail)
	panic(violated{})
}

func (r *run) product(what string, f func()) {
	defer func() {
		if x := recover(); x != nil {
			if _, ok := x.(violated); ok {
				panic(x)
			}
			r.res.Violate(prop, "panic", "panic in "+what+": "+noDigits(firstLine(fmt.Sprint(x))), fmt.Sprint(x))
			panic(violated{})
		}
	}()
	f()
}

func addrOf(i int) common.Address {
	var a common.Address
	a[0] = byte(0x11 * (i + 1))
	a[1] = byte(0xa0 + i)
	a[19] = byte(i + 1)
	return a
}

func simTime(sec int) time.Time { return time.Unix(1_600_000_000+int64(sec), 0).UTC() }

func hashOf(seed uint64) common.Hash {
	var h common.Hash
	x := seed
	for i := 0; i < 32; i += 8 {
		x = core.SplitMix64(x)
		for j := 0; j < 8; j++ {
			h[i+j] = byte(x >> (8 * uint(j)))
		}
	}
	h[0] |= 1
	return h
}

func fakeCommit(height uint64, id types.BlockID, by common.Address) *types.Commit {
	if height == 0 {
		return types.NewCommit(0, 0, types.BlockID{}, nil)
	}
	return types.NewCommit(height, 0, id, []types.CommitSig{{BlockIDFlag: types.BlockIDFlagCommit, ValidatorAddress: by,
		Timestamp: simTime(int(height) * 5), Signature: []byte{1, 2, 3}}})
}

// writeChainRecords writes for block b what the node writes before the state
// is saved, in the node's order: the block store record (consensus
// finalizeCommit -> SaveBlock), then the app hash batch (writeBlockWithState),
// then the head marker batch (writeHeadBlock).
func (r *run) writeChainRecords(b *types.Block, ps *types.PartSet, appHash common.Hash, prevID types.BlockID) {
	seen := fakeCommit(b.Height(), types.BlockID{Hash: b.Hash(), PartsHeader: ps.Header()}, r.universe[0])
	if b.Height() == 0 {
		seen = &types.Commit{}
	}
	r.product("rawdb.WriteBlock", func() { rawdb.WriteBlock(r.disk, b, ps, seen) })
	bt := r.disk.NewBatch()
	rawdb.WriteAppHash(bt, b.Height(), appHash)
	if err := bt.Write(); err != nil {
		panic(err)
	}
	bt = r.disk.NewBatch()
	rawdb.WriteHeadBlockHash(bt, b.Hash())
	if err := bt.Write(); err != nil {
		panic(err)
	}
}

func (engine) Run(t *testing.T, tape *core.Tape, opt core.Options) (res *core.RunResult) {
	res = core.NewResult()
	r := &run{res: res, tape: tape, h: core.NewHasher(), ah: core.NewHasher(), model: map[uint64]stateSnap{}, saved: map[uint64]stateSnap{},
		origPow: map[common.Address]int64{}}
	defer func() {
		if x := recover(); x != nil {
			if _, ok := x.(violated); !ok {
				panic(x)
			}
		}
		res.TraceHash = r.h.Sum()
		res.AbstractHash = r.ah.Sum()
		res.Sample = map[string]interface{}{"ops": r.ops}
	}()
	r.play(opt)
	return res
}

func (r *run) play(opt core.Options) {
	t := r.tape
	res := r.res
	maxHeights := opt.Int("heights", 30)

	// ---- genesis ----
	for i := 0; i < 6; i++ {
		r.universe = append(r.universe, addrOf(i))
	}
	n0 := t.Range(1, 6)
	static := t.Chance(1, 4) // a history without any validator update
	gen := &genesis.Genesis{ChainID: "cstatesim", InitialHeight: []uint64{0, 1, 1, 5}[t.Draw(4)], Timestamp: simTime(0)}
	for i := 0; i < n0; i++ {
		p := int64(t.Range(1, 30))
		r.origPow[r.universe[i]] = p
		gen.Validators = append(gen.Validators, &genesis.GenesisValidator{
			Name: fmt.Sprintf("validator-%02d-padded-to-thirty-two-bytes", i), Address: r.universe[i].Hex(),
			SelfDelegate: new(big.Int).Mul(big.NewInt(p), configs.PowerReduction).String(), StartWithGenesis: true})
	}
	cp := types.DefaultConsensusParams()
	cp.Block.MaxBytes = int64(t.Range(1, 1<<20))
	cp.Block.MaxGas = uint64(t.Draw(1 << 20))
	cp.Evidence.MaxAgeNumBlocks = int64(t.Range(1, 100000))
	gen.ConsensusParams = cp
	r.step("genesis validators=%d static=%v initialHeight=%d", n0, static, gen.InitialHeight)
	r.ah.Add("genesis", fmt.Sprint(n0), fmt.Sprint(static))

	r.disk = NewDisk()
	r.disk.Log.On = true
	r.store = cstate.NewStore(r.disk)
	var err error
	r.product("MakeGenesisState", func() { r.state, err = cstate.MakeGenesisState(gen) })
	if err != nil {
		res.Infra = "MakeGenesisState: " + err.Error()
		return
	}
	// the genesis block as Genesis.ToBlock/Commit make it (time = genesis time, zero last block id)
	gb := types.NewBlock(&types.Header{Height: 0, Time: gen.Timestamp, GasLimit: 1000}, nil, &types.Commit{}, nil, trie.NewStackTrie(nil))
	gps := gb.MakePartSet(types.BlockPartSizeBytes)
	r.iBlock = r.disk.Log.Len()
	r.writeChainRecords(gb, gps, gb.AppHash(), types.BlockID{})
	r.iSave = r.disk.Log.Len()
	r.product("Store.Save", func() { r.store.Save(r.state) })
	r.iEnd = r.disk.Log.Len()
	r.model[0] = snapState(r.state)
	r.saved[0] = r.model[0]
	prevID := types.BlockID{Hash: gb.Hash(), PartsHeader: gps.Header()}
	logger := log.New()

	saves, prunes, restarts, crashes, changes := 0, 0, 0, 0, 0

	saveNext := func() {
		H := r.head + 1
		if r.head == 0 {
			H = r.state.InitialHeight // the first block of a chain is at its initial height
		}
		upd, kind := r.drawUpdates(static)
		if len(upd) > 0 {
			changes++
		}
		hdr := &types.Header{Height: H, Time: simTime(int(H)*5 + t.Draw(4)), GasLimit: 1000, LastBlockID: prevID,
			ProposerAddress: r.state.Validators.Validators[0].Address, NumTxs: 0}
		b := types.NewBlock(hdr, nil, fakeCommit(H-1, prevID, r.universe[0]), nil, trie.NewStackTrie(nil))
		ps := b.MakePartSet(types.BlockPartSizeBytes)
		id := types.BlockID{Hash: b.Hash(), PartsHeader: ps.Header()}
		appHash := hashOf(uint64(t.Draw(1<<16)) + H<<20)
		r.step("save %d updates[%s]=%s", H, kind, fmtUpd(upd))
		r.ah.Add("save", kind)
		var ns cstate.LatestBlockState
		var uerr error
		r.product("updateState", func() { ns, uerr = cstate.VerifUpdateState(logger, r.state, id, b.Header(), upd) })
		if uerr != nil {
			res.Infra = "generator produced a rejected validator update: " + uerr.Error()
			panic(violated{})
		}
		ns.AppHash = appHash // as ApplyBlock does
		r.iBlock = r.disk.Log.Len()
		r.writeChainRecords(b, ps, appHash, prevID)
		r.iSave = r.disk.Log.Len()
		r.product("Store.Save", func() { r.store.Save(ns) })
		r.iEnd = r.disk.Log.Len()
		r.state = ns
		r.head = H
		prevID = id
		r.model[H] = snapState(ns)
		r.saved[H] = r.model[H]
		saves++
	}

	nOps := t.Range(3, 70)
	for op := 0; op < nOps; op++ {
		switch t.Weighted(8, 2, 2, 1) {
		case 0:
			if int(r.head) < maxHeights+4 && len(r.saved) <= maxHeights {
				saveNext()
			}
		case 1:
			r.prune()
			prunes++
		case 2:
			r.checkImage(r.disk.Fork(), "restart", true)
			restarts++
			if _, kept := r.model[r.head]; kept && t.Chance(1, 2) {
				// a real restart: the node goes on from what it loaded, not from memory
				var ld cstate.LatestBlockState
				r.store = cstate.NewStore(r.disk)
				r.product("Store.Load", func() { ld = r.store.Load() })
				r.state = ld
				r.step("continue from the loaded state")
				r.ah.Add("reload")
				res.Probe("continued-from-loaded-state")
			}
		case 3:
			r.crashImages()
			crashes++
		}
	}
	r.checkImage(r.disk.Fork(), "restart", true)
	restarts++
	res.NonTrivial = saves >= 3 && (changes > 0 || prunes > 0 || crashes > 0)
	if changes > 0 {
		res.Probe("histories-with-validator-changes")
	}
	if static {
		res.Probe("static-histories")
	}
}

// ---------------- validator update script ----------------

func fmtUpd(u []*types.Validator) string {
	s := ""
	for _, v := range u {
		s += fmt.Sprintf("%x:%d ", v.Address[:2], v.VotingPower)
	}
	return "[" + s + "]"
}

// drawUpdates draws a valid change set for the next-validators set of r.state.
func (r *run) drawUpdates(static bool) ([]*types.Validator, string) {
	t := r.tape
	if static {
		return nil, "none"
	}
	cur := r.state.NextValidators
	in := map[common.Address]int64{}
	for _, v := range cur.Validators {
		in[v.Address] = v.VotingPower
	}
	var members, outsiders []common.Address
	for _, a := range r.universe {
		if _, ok := in[a]; ok {
			members = append(members, a)
		} else {
			outsiders = append(outsiders, a)
		}
	}
	kind := []string{"none", "power", "add", "remove", "return", "restore-power", "multi"}[t.Weighted(6, 2, 1, 1, 2, 1, 1)]
	switch kind {
	case "power":
		a := members[t.Draw(len(members))]
		p := int64(t.Range(1, 30))
		if p == in[a] {
			p++
		}
		return []*types.Validator{types.NewValidator(a, p)}, kind
	case "add":
		if len(outsiders) == 0 {
			return nil, "none"
		}
		a := outsiders[t.Draw(len(outsiders))]
		p := int64(t.Range(1, 30))
		if _, ok := r.origPow[a]; !ok {
			r.origPow[a] = p
		}
		return []*types.Validator{types.NewValidator(a, p)}, kind
	case "remove":
		if len(members) < 2 {
			return nil, "none"
		}
		a := members[t.Draw(len(members))]
		r.removed = append(r.removed, a)
		r.origPow[a] = in[a]
		return []*types.Validator{types.NewValidator(a, 0)}, kind
	case "return": // a removed validator comes back with the power it had: an earlier membership returns
		for i := len(r.removed) - 1; i >= 0; i-- {
			a := r.removed[i]
			if _, ok := in[a]; !ok {
				r.removed = append(r.removed[:i], r.removed[i+1:]...)
				r.res.Probe("membership-returned")
				return []*types.Validator{types.NewValidator(a, r.origPow[a])}, kind
			}
		}
		return nil, "none"
	case "restore-power": // a power-only change is undone
		for _, a := range members {
			if p, ok := r.origPow[a]; ok && p != in[a] {
				r.res.Probe("power-restored")
				return []*types.Validator{types.NewValidator(a, p)}, kind
			}
		}
		return nil, "none"
	case "multi":
		var out []*types.Validator
		if len(outsiders) > 0 {
			a := outsiders[t.Draw(len(outsiders))]
			p := int64(t.Range(1, 30))
			if _, ok := r.origPow[a]; !ok {
				r.origPow[a] = p
			}
			out = append(out, types.NewValidator(a, p))
		}
		if len(members) >= 2 {
			a := members[t.Draw(len(members))]
			if t.Chance(1, 2) {
				r.removed = append(r.removed, a)
				r.origPow[a] = in[a]
				out = append(out, types.NewValidator(a, 0))
			} else {
				out = append(out, types.NewValidator(a, in[a]+int64(t.Range(1, 5))))
			}
		}
		if len(out) == 0 {
			return nil, "none"
		}
		return out, kind
	}
	return nil, "none"
}

// ---------------- prune ----------------

func (r *run) prune() {
	t := r.tape
	var from, to uint64
	switch t.Weighted(6, 1, 2, 1) {
	case 0: // old states, a kept tail
		from = uint64(t.Range(0, int(r.head)))
		to = from + uint64(t.Range(0, int(r.head)-int(from)))
	case 1: // anywhere, possibly beyond the head
		from = uint64(t.Range(0, int(r.head)+1))
		to = from + uint64(t.Range(0, int(r.head)+2))
	case 2: // from genesis
		from = 0
		to = uint64(t.Range(0, int(r.head)+1))
	default: // up to and including the head
		from = uint64(t.Range(0, int(r.head)))
		to = r.head + 1
	}
	want := uint64(0)
	lo := from
	if lo == 0 {
		lo = 1
	}
	for h := lo; h < to; h++ {
		if _, ok := r.model[h]; ok {
			want++
			delete(r.model, h)
		}
	}
	_, toKept := r.model[to]
	r.step("prune [%d,%d) head=%d", from, to, r.head)
	r.ah.Add("prune", fmt.Sprint(from == 0), fmt.Sprint(to > r.head), fmt.Sprint(toKept), fmt.Sprint(want > 0))
	r.res.Fault("prune")
	if to > r.head {
		r.res.Probe("prune-touches-head")
	}
	if !toKept && want > 0 {
		r.res.Probe("prune-with-absent-boundary-state")
	}
	var got uint64
	r.product("Store.PruneState", func() { got, _, _ = r.store.PruneState(from, to) })
	r.h.Add(fmt.Sprint(got))
	if got != want {
		r.fail("prune-count", "PruneState reports a number of pruned states different from the number of saved states in the range",
			fmt.Sprintf("[%d,%d): reported %d, model %d", from, to, got, want))
	}
	// everything kept must still be there, on the live disk as well as after a restart
	r.checkImage(r.disk, "after prune", false)
}

// ---------------- load checks ----------------

// cmp is diffState, except that one root cause that shows on every history (the
// state of height 0 comes back with the genesis block's id) is recorded as a
// violation once per run without ending the run, so that everything behind it
// is still explored.
func (r *run) cmp(want, got stateSnap) (string, string) {
	if want.height == 0 && got.height == 0 && got.blockID != want.blockID {
		if r.res.Probes["genesis-state-last-block-id"] == 0 {
			r.res.Violate(prop, "load", "genesis state (height 0) is loaded with the genesis block's id as LastBlockID although it was saved with the zero block id",
				fmt.Sprintf("saved %v, loaded %v", want.blockID, got.blockID))
		}
		r.res.Probe("genesis-state-last-block-id")
		got.blockID = want.blockID
	}
	return diffState(want, got)
}

func (r *run) loadAt(d *Disk, h uint64, what string) (stateSnap, bool) {
	var st *cstate.LatestBlockState
	r.product(what, func() { st = cstate.VerifLoadStateAtHeight(d, h) })
	if st == nil {
		return stateSnap{}, false
	}
	return snapState(*st), true
}

// checkImage checks a disk image against the model: Load() at the head and,
// for every kept height, the state, LoadValidators and LoadConsensusParams.
func (r *run) checkImage(d *Disk, when string, count bool) {
	if count {
		r.step("%s: load and compare %d kept states", when, len(r.model))
		r.ah.Add("restart")
	}
	st := cstate.NewStore(d)
	// Load() at the head
	var loaded cstate.LatestBlockState
	r.product("Store.Load ("+when+")", func() { loaded = st.Load() })
	if want, kept := r.model[r.head]; kept {
		if loaded.Validators == nil {
			r.fail("load", "Load() returns the empty state although the state of the head height is saved ("+when+")", fmt.Sprintf("head %d", r.head))
		}
		if f, d := r.cmp(want, snapState(loaded)); f != "" {
			r.fail("load", stateSig(want, f, "Load() at the head ("+when+"): "+f+" differ from the saved state"), fmt.Sprintf("Load() at the head, %s, head %d: %s", when, r.head, d))
		}
	} else {
		r.res.Probe("head-state-pruned")
		// The head's own state is gone (pruned, or not yet saved after a crash between the head
		// marker and the state save). The property demands only that what Load() returns equals
		// what was saved for the height it claims to be: the empty state, or a kept state below
		// the head (the product falls back to the one just below, or to the genesis state under
		// the chain's first block, so that an interrupted commit can be finished).
		if loaded.Validators != nil {
			ls := snapState(loaded)
			below, kept := r.model[ls.height]
			if !kept || ls.height >= r.head {
				r.fail("load", "Load() returns a state although the head height's state is not kept and the returned height's state is not kept either", fmt.Sprintf("head %d returned %d", r.head, ls.height))
			} else if f, d := r.cmp(below, ls); f != "" {
				r.fail("load", stateSig(below, f, "Load() falling back below the head ("+when+"): "+f+" differ from the saved state"), fmt.Sprintf("head %d: %s", r.head, d))
			} else {
				r.res.Probe("load-fell-back-below-head")
			}
		}
	}
	for h := uint64(0); h <= r.head; h++ {
		want, kept := r.model[h]
		if !kept {
			continue
		}
		// LoadValidators(h): the set entitled to sign height h = LastValidators of the state saved at h
		var vs *types.ValidatorSet
		var err error
		r.product(fmt.Sprintf("Store.LoadValidators of a kept height (%s)", when), func() { vs, err = st.LoadValidators(h) })
		if h == 0 {
			if err == nil && vs != nil && len(vs.Validators) > 0 {
				r.fail("load-validators", "LoadValidators(0) returns a set although nobody signs height 0", "")
			}
		} else {
			if err != nil {
				r.fail("load-validators", "LoadValidators fails for a kept height ("+when+")", fmt.Sprintf("height %d of head %d: %v", h, r.head, err))
			}
			if d := diffSet(want.last, snapSet(vs)); d != "" {
				sig := "LoadValidators(h) (" + when + "): " + d + " differ from the set that signed height h"
				if d == "priorities or proposer" {
					sig = prioSig
				}
				r.fail("load-validators", sig, fmt.Sprintf("LoadValidators, "+when+", "+"height %d of head %d:\nsaved  %v\nloaded %v", h, r.head, want.last, snapSet(vs)))
			}
		}
		var p kproto.ConsensusParams
		r.product(fmt.Sprintf("Store.LoadConsensusParams of a kept height (%s)", when), func() { p, err = st.LoadConsensusParams(h) })
		if err != nil {
			r.fail("load-params", "LoadConsensusParams fails for a kept height ("+when+")", fmt.Sprintf("height %d: %v", h, err))
		}
		if pb, _ := p.Marshal(); !bytes.Equal(pb, want.params) {
			r.fail("load-params", "LoadConsensusParams(h) differs from the saved parameters ("+when+")", fmt.Sprintf("height %d", h))
		}
		// the whole state of a kept past height still loads, complete
		if h == r.head {
			continue
		}
		got, ok := r.loadAt(d, h, "loading the state of a kept height ("+when+")")
		if !ok {
			r.fail("kept-state", "state of a kept height is gone ("+when+")", fmt.Sprintf("height %d of head %d", h, r.head))
		}
		if f, dd := r.cmp(want, got); f != "" {
			r.fail("kept-state", stateSig(want, f, "state of a kept past height ("+when+"): "+f+" differ from what was saved"), fmt.Sprintf("height %d of head %d: %s", h, r.head, dd))
		}
	}
}

// crashImages rebuilds the disk at every write-log prefix around the last save
// and checks that each image holds the previous or the new state, complete.
func (r *run) crashImages() {
	H := r.head
	newSnap, okNew := r.model[H]
	if !okNew {
		return // the head state was pruned since
	}
	entries := r.disk.Log.Entries
	if r.iEnd != len(entries) {
		return // something was written after the save (a prune): the window is no longer the tail
	}
	r.step("crash images around the save of %d: prefixes %d..%d (save begins at %d)", H, r.iBlock, r.iEnd, r.iSave)
	r.ah.Add("crash")
	r.res.Fault("crash-image")
	k0 := r.iBlock
	if H == 0 {
		k0 = r.iBlock + 3 // the genesis block is committed before any state is loaded or saved
	}
	for k := k0; k <= r.iEnd; k++ {
		img := NewDisk()
		img.Apply(entries[:k])
		where := "before the save"
		switch {
		case k == r.iEnd:
			where = "after the save"
		case k > r.iSave:
			where = "inside the save"
			r.res.Probe("crash-prefix-inside-save")
		}
		// the record of H: absent, or complete and equal to what was saved
		got, present := r.loadAt(img, H, "loading the new state from a crash image ("+where+")")
		if present {
			if f, d := r.cmp(newSnap, got); f != "" {
				r.fail("crash", stateSig(newSnap, f, "crash image ("+where+"): the new state is present but "+f+" differ from what was being saved (mixture of old and new records)"), fmt.Sprintf("height %d prefix %d: %s", H, k, d))
			}
		} else if k == r.iEnd {
			r.fail("crash", "state is absent after its save completed", fmt.Sprintf("height %d", H))
		}
		// the previous state must be untouched in every image
		if H >= 1 {
			if prev, kept := r.model[r.prevOf(H)]; kept {
				g, ok := r.loadAt(img, r.prevOf(H), "loading the previous state from a crash image ("+where+")")
				if !ok {
					r.fail("crash", "crash image ("+where+"): the previous state is gone", fmt.Sprintf("height %d prefix %d", r.prevOf(H), k))
				}
				if f, d := r.cmp(prev, g); f != "" {
					r.fail("crash", stateSig(prev, f, "crash image ("+where+"): previous state: "+f+" differ from what was saved"), fmt.Sprintf("height %d prefix %d: %s", r.prevOf(H), k, d))
				}
			}
		}
		// Load() follows the head marker
		st := cstate.NewStore(img)
		var loaded cstate.LatestBlockState
		r.product("Store.Load on a crash image ("+where+")", func() { loaded = st.Load() })
		if loaded.Validators == nil {
			if k < r.iSave {
				if prevKept := H >= 1; prevKept {
					if _, kept := r.model[r.prevOf(H)]; kept && k <= r.iBlock+2 {
						r.fail("crash", "Load() returns the empty state on an image whose head block is still the previous one", fmt.Sprintf("height %d prefix %d", H, k))
					}
				}
			}
			if present {
				r.fail("crash", "Load() returns the empty state although the new state is on disk", fmt.Sprintf("height %d prefix %d", H, k))
			}
			// head marker already at H, state of H not yet saved: the node's write order,
			// a crash-recovery matter (C05), noted once per run, not a C14 verdict
			// (only where the state below the head was still kept: a history that pruned it took away
			// what any recovery needs, which the node's own pruning never does)
			_, belowKept := r.model[H-1]
			if H >= 1 && belowKept && k >= r.iBlock+3 && r.res.Probes["head-ahead-of-state-image"] == 0 {
				r.res.Violate("C05", "restart-state", "crash after the head block marker moved but before the consensus state of that height was saved: Load() returns the empty state",
					fmt.Sprintf("height %d, write-log prefix %d of %d", H, k, r.iEnd))
			}
			r.res.Probe("head-ahead-of-state-image")
			continue
		}
		ls := snapState(loaded)
		wantSnap := newSnap
		if ls.height != H {
			var kept bool
			wantSnap, kept = r.model[ls.height]
			// the product falls back to the state just below the head marker when the head's own
			// state is absent; with the previous state pruned that is the one below it
			_, prevKept := r.model[r.prevOf(H)]
			fellBack := !prevKept && ls.height == r.prevOf(r.prevOf(H))
			if !kept || (ls.height != r.prevOf(H) && !fellBack) {
				r.fail("crash", "Load() on a crash image returns a state that is neither the previous nor the new one", fmt.Sprintf("height %d, loaded %d", H, ls.height))
			}
		}
		if f, d := r.cmp(wantSnap, ls); f != "" {
			r.fail("crash", stateSig(wantSnap, f, "Load() on a crash image ("+where+"): "+f+" differ from the saved state"), fmt.Sprintf("height %d prefix %d: %s", ls.height, k, d))
		}
	}
}

// ---------------- helpers ----------------

// prevOf is the height of the state saved before the one of height h (h-1,
// except for the first block of a chain whose initial height is above 1).
func (r *run) prevOf(h uint64) uint64 {
	if h == r.state.InitialHeight || h == 0 {
		return 0
	}
	return h - 1
}

// stateSig gives root causes that show up at several observation points one signature.
func stateSig(want stateSnap, field, dflt string) string {
	if want.height == 0 && field == "LastBlockID" {
		return "genesis state (height 0) is loaded with the genesis block's id as LastBlockID although it was saved with the zero block id"
	}
	if strings.HasSuffix(field, "priorities or proposer") {
		return prioSig
	}
	return dflt
}

// one signature for every place where a validator set comes back with the right
// members and powers but other priorities (one root cause, many observation points)
const prioSig = "a loaded validator set has the saved membership and powers but different proposer priorities or proposer"

func firstLine(s string) string {
	for i, ch := range s {
		if ch == '\n' {
			return s[:i]
		}
	}
	if len(s) > 160 {
		return s[:160]
	}
	return s
}

func noDigits(s string) string {
	out := make([]byte, 0, len(s))
	inNum := false
	for i := 0; i < len(s); i++ {
		if s[i] >= '0' && s[i] <= '9' {
			if !inNum {
				out = append(out, 'N')
			}
			inNum = true
			continue
		}
		inNum = false
		out = append(out, s[i])
	}
	return string(out)
}
