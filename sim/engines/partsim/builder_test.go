package partsim

// Builds valid blocks with the real constructors: header, signed txs, a
// LastCommit with real signatures from a small fixed validator set,
// DuplicateVoteEvidence, and the LatestBlockState the block is valid against.

import (
	"fmt"
	"math/big"
	"time"

	"verif/sim/core"

	"github.com/kardiachain/go-kardia/kai/state/cstate"
	"github.com/kardiachain/go-kardia/lib/common"
	kproto "github.com/kardiachain/go-kardia/proto/kardiachain/types"
	"github.com/kardiachain/go-kardia/trie"
	"github.com/kardiachain/go-kardia/types"
)

const chainID = "partsim-chain"

type built struct {
	height    uint64
	block     *types.Block
	state     cstate.LatestBlockState
	lastVals  *types.ValidatorSet
	curVals   *types.ValidatorSet
	commit    *types.Commit // the block's LastCommit (nil-signature commit at height 1)
	votes     []*types.Vote // the signed precommits behind the commit (nil where absent)
	txs       []*types.Transaction
	evidence  []types.Evidence
	shape     string
	blockTime time.Time
}

// stub evidence pool: evidence verification against the pool/state is C19's
// subject; here every evidence list is acceptable to the pool so that only the
// hash / ValidateBasic / commit checks decide.
type okPool struct{}

func (okPool) Update(cstate.LatestBlockState, types.EvidenceList) {}
func (okPool) CheckEvidence(types.EvidenceList) error             { return nil }

func validateAgainstState(st cstate.LatestBlockState, b *types.Block) error {
	return cstate.VerifValidateBlock(okPool{}, nil, st, b)
}

func mkValSet(t *core.Tape, n int, from int) *types.ValidatorSet {
	vals := make([]*types.Validator, n)
	for i := 0; i < n; i++ {
		vals[i] = types.NewValidator(valKeys.addr[(from+i)%len(valKeys.addr)], int64(t.Range(1, 20)))
	}
	return types.NewValidatorSet(vals)
}

func signVote(v *types.Vote) {
	i := valKeys.indexOf(v.ValidatorAddress)
	pb := v.ToProto()
	if err := valKeys.pv[i].SignVote(chainID, pb); err != nil {
		panic(err)
	}
	v.Signature = pb.Signature
}

// mkCommit builds a commit for blockID at (height, round) signed by vals; flags
// and timestamps come from the tape, then enough validators are switched to
// "commit" for the block to have more than 2/3 of the power.
func mkCommit(t *core.Tape, vals *types.ValidatorSet, height uint64, round uint32, blockID types.BlockID, baseSec int) (*types.Commit, []*types.Vote, string) {
	n := len(vals.Validators)
	flags := make([]int, n) // 0 commit, 1 nil, 2 absent
	for i := range flags {
		flags[i] = t.Weighted(6, 1, 1)
	}
	need := vals.TotalVotingPower() * 2 / 3
	for i := 0; ; i++ {
		var got int64
		for j, f := range flags {
			if f == 0 {
				got += vals.Validators[j].VotingPower
			}
		}
		if got > need {
			break
		}
		flags[i] = 0
	}
	sigs := make([]types.CommitSig, n)
	votes := make([]*types.Vote, n)
	shape := ""
	for i, f := range flags {
		shape += string("CNA"[f])
		if f == 2 {
			sigs[i] = types.NewCommitSigAbsent()
			continue
		}
		v := &types.Vote{
			ValidatorAddress: vals.Validators[i].Address,
			ValidatorIndex:   uint32(i),
			Height:           height,
			Round:            round,
			Timestamp:        simTime(baseSec+t.Range(0, 9), t.Draw(1000)*1_000_000),
			Type:             kproto.PrecommitType,
		}
		if f == 0 {
			v.BlockID = blockID
		}
		signVote(v)
		votes[i] = v
		sigs[i] = v.CommitSig()
	}
	return types.NewCommit(height, round, blockID, sigs), votes, shape
}

func mkBlockID(seed uint64) types.BlockID {
	return types.BlockID{Hash: hashOf(seed), PartsHeader: types.PartSetHeader{Total: uint32(1 + seed%3), Hash: hashOf(seed + 1)}}
}

func mkTx(nonce uint64, keyIdx int, amount int64, data []byte) *types.Transaction {
	to := txKeys.addr[(keyIdx+1)%len(txKeys.addr)]
	tx := types.NewTransaction(nonce, to, big.NewInt(amount), 21000+uint64(len(data))*68, big.NewInt(1), data)
	s, err := types.SignTx(types.HomesteadSigner{}, tx, txKeys.priv[keyIdx])
	if err != nil {
		panic(err)
	}
	return s
}

var manyTxsCache []*types.Transaction

// manyTxs: a fixed list of signed transactions for long blocks (signed once per process).
func manyTxs() []*types.Transaction {
	if manyTxsCache == nil {
		for i := 0; i < 300; i++ {
			manyTxsCache = append(manyTxsCache, mkTx(uint64(i), i%len(txKeys.priv), int64(i), []byte{byte(i), byte(i >> 8)}))
		}
	}
	return manyTxsCache
}

// pickTx chooses a position in a list of n > 0 transactions, biased towards the ends
// and towards the places where the encoding of the index changes.
func pickTx(t *core.Tape, n int) int {
	if t.Chance(1, 2) {
		return t.Draw(n)
	}
	c := []int{0, n - 1, 126, 127, 128, 129, 255, 256}[t.Draw(8)]
	if c >= n || c < 0 {
		return t.Draw(n)
	}
	return c
}

func mkEvidence(t *core.Tape, vals *types.ValidatorSet, maxHeight uint64, blockTime time.Time, salt uint64) types.Evidence {
	vi := t.Draw(len(vals.Validators))
	h := uint64(t.Range(1, int(maxHeight)))
	r := uint32(t.Draw(3))
	typ := kproto.PrevoteType
	if t.Chance(1, 2) {
		typ = kproto.PrecommitType
	}
	mk := func(id types.BlockID, ms int) *types.Vote {
		v := &types.Vote{ValidatorAddress: vals.Validators[vi].Address, ValidatorIndex: uint32(vi), Height: h, Round: r,
			Timestamp: simTime(-100, ms*1_000_000), Type: typ, BlockID: id}
		signVote(v)
		return v
	}
	a := mk(mkBlockID(salt*7+11), 1)
	b := mk(mkBlockID(salt*7+12), 2)
	ev := types.NewDuplicateVoteEvidence(a, b, blockTime, vals)
	if ev == nil {
		panic("generator: NewDuplicateVoteEvidence returned nil")
	}
	return ev
}

// buildBlock draws a valid block. payload > 0 asks for about that many bytes of
// transaction data (used by the assembly mode to reach several parts).
func buildBlock(c *ctx, payload int) *built {
	t := c.tape
	b := &built{}
	first := t.Chance(1, 8) // initial height
	nLast := t.Range(1, 4)
	b.lastVals = mkValSet(t, nLast, 0)
	if t.Chance(1, 3) {
		b.curVals = mkValSet(t, t.Range(1, 4), t.Draw(3))
	} else {
		b.curVals = b.lastVals.Copy()
	}
	nextVals := b.curVals.Copy()
	appHash := hashOf(uint64(t.Draw(1 << 16)))
	st := cstate.LatestBlockState{
		ChainID:        chainID,
		InitialHeight:  1,
		Validators:     b.curVals,
		NextValidators: nextVals,
		AppHash:        appHash,
	}
	st.ConsensusParams.Block.MaxBytes = 22020096
	var lastCommit *types.Commit
	if first {
		b.height = 1
		b.blockTime = simTime(0, 0)
		st.LastBlockHeight = 0
		st.LastBlockTime = b.blockTime // genesis time
		st.LastValidators = types.NewValidatorSet(nil)
		lastCommit = types.NewCommit(0, 0, types.BlockID{}, nil)
		b.shape = "H1"
	} else {
		b.height = uint64(t.Range(2, 50))
		lastID := mkBlockID(uint64(t.Draw(1 << 16)))
		var cshape string
		lastCommit, b.votes, cshape = mkCommit(t, b.lastVals, b.height-1, uint32(t.Draw(3)), lastID, 100)
		st.LastBlockHeight = b.height - 1
		st.LastBlockID = lastID
		st.LastBlockTime = simTime(50, 0)
		st.LastValidators = b.lastVals
		b.blockTime = cstate.MedianTime(lastCommit, b.lastVals)
		b.shape = "H>1 commit=" + cshape
	}
	b.commit = lastCommit
	b.state = st

	// transactions
	nTx := t.Weighted(2, 3, 3, 2, 1) // 0..4
	if payload > 0 && nTx == 0 {
		nTx = 1
	}
	if payload == 0 && t.Chance(1, 25) {
		// now and then a long transaction list: the transaction root is built over
		// RLP-encoded indices, whose encoding changes length at 128 (and the list is
		// fed to the trie out of order around that boundary)
		nTx = []int{126, 127, 128, 129, 130, 200, 256, 257, 300}[t.Draw(9)]
		b.txs = append(b.txs, manyTxs()[:nTx]...)
		nTx = 0
		c.res.Probe("block-with-a-long-transaction-list")
	}
	for i := 0; i < nTx; i++ {
		sz := t.Draw(80)
		if payload > 0 {
			sz = payload / nTx
			if i == nTx-1 {
				sz = payload - sz*(nTx-1)
			}
		}
		data := make([]byte, sz)
		fill(data, uint64(t.Draw(1<<16))+uint64(i))
		b.txs = append(b.txs, mkTx(uint64(i), t.Draw(len(txKeys.priv)), int64(t.Range(0, 1000)), data))
	}
	// evidence
	nEv := t.Weighted(3, 3, 1)
	for i := 0; i < nEv; i++ {
		b.evidence = append(b.evidence, mkEvidence(t, b.curVals, b.height, b.blockTime, uint64(i)+uint64(t.Draw(1000))*3))
	}
	hdr := &types.Header{
		Height:             b.height,
		Time:               b.blockTime,
		GasLimit:           uint64(t.Range(1, 1<<20)),
		LastBlockID:        st.LastBlockID,
		ProposerAddress:    b.curVals.Validators[t.Draw(len(b.curVals.Validators))].Address,
		ValidatorsHash:     b.curVals.Hash(),
		NextValidatorsHash: nextVals.Hash(),
		ConsensusHash:      hashOf(uint64(t.Draw(1 << 16))),
		AppHash:            appHash,
	}
	b.block = types.NewBlock(hdr, b.txs, lastCommit, b.evidence, trie.NewStackTrie(nil))
	b.shape += fmt.Sprintf(" lastVals=%d curVals=%d txs=%d ev=%d", nLast, len(b.curVals.Validators), len(b.txs), nEv)
	return b
}

var _ = common.Address{}
