package partsim

// Mode "assembly": part-set reassembly under adversarial deliveries.

import (
	"bytes"
	"fmt"
	"io/ioutil"
	"math"

	"github.com/gogo/protobuf/proto"

	"github.com/kardiachain/go-kardia/consensus"
	kcons "github.com/kardiachain/go-kardia/proto/kardiachain/consensus"
	kproto "github.com/kardiachain/go-kardia/proto/kardiachain/types"
	"github.com/kardiachain/go-kardia/trie"
	"github.com/kardiachain/go-kardia/types"
)

// wire sends a part the way a peer does: BlockPartMessage -> proto -> bytes ->
// proto -> message -> ValidateBasic (consensus/manager.go Receive). It returns
// the part the receiving state machine would be handed, or the error with
// which the reactor drops the message.
func wire(c *ctx, height uint64, round uint32, p *types.Part) (out *types.Part, err error) {
	c.product("part wire encoding", func() {
		var pb *kcons.Message
		pb, err = consensus.MsgToProto(&consensus.BlockPartMessage{Height: height, Round: round, Part: p})
		if err != nil {
			return
		}
		var bz []byte
		bz, err = proto.Marshal(pb)
		if err != nil {
			return
		}
		back := &kcons.Message{}
		if err = proto.Unmarshal(bz, back); err != nil {
			return
		}
		var m consensus.Message
		m, err = consensus.MsgFromProto(back)
		if err != nil {
			return
		}
		if err = m.ValidateBasic(); err != nil {
			return
		}
		bp, ok := m.(*consensus.BlockPartMessage)
		if !ok || bp.Height != height || bp.Round != round {
			c.fail("wire", "block part message changed kind, height or round across its wire encoding", fmt.Sprintf("%T %v", m, m))
		}
		out = bp.Part
	})
	return
}

func copyPart(p *types.Part) *types.Part {
	q := &types.Part{Index: p.Index, Bytes: cloneBytes(p.Bytes)}
	q.Proof.Total = p.Proof.Total
	q.Proof.Index = p.Proof.Index
	q.Proof.LeafHash = cloneBytes(p.Proof.LeafHash)
	q.Proof.Aunts = cloneAunts(p.Proof.Aunts)
	return q
}

func samePart(a, b *types.Part) bool {
	if a.Index != b.Index || !eqBytes(a.Bytes, b.Bytes) || a.Proof.Total != b.Proof.Total || a.Proof.Index != b.Proof.Index ||
		!eqBytes(a.Proof.LeafHash, b.Proof.LeafHash) || len(a.Proof.Aunts) != len(b.Proof.Aunts) {
		return false
	}
	for i := range a.Proof.Aunts {
		if !eqBytes(a.Proof.Aunts[i], b.Proof.Aunts[i]) {
			return false
		}
	}
	return true
}

// adversarial part kinds
var advKinds = []string{
	"relabel",            // genuine part j with its genuine proof, Index set to i != j
	"relabel-reproof",    // genuine part j, Index and Proof.Index/Total rewritten to another (i,total') that reaches the same root
	"proof-of-other",     // bytes of part i with the proof of leaf j
	"proof-of-other-lh",  // as above but LeafHash replaced by the hash of the bytes sent
	"foreign-block",      // part i of another part set (same total) with its own proof
	"foreign-near",       // part of a part set that differs from ours only in its last part
	"wrong-total",        // genuine part, Proof.Total changed
	"wrong-proof-index",  // genuine part, Proof.Index changed
	"truncated",          // genuine proof, bytes shortened
	"extended",           // genuine proof, bytes lengthened (possibly beyond the part size limit)
	"flipped",            // genuine proof, one bit of the bytes flipped
	"aunt-dropped",       // one aunt removed
	"aunt-duplicated",    // one aunt repeated
	"aunt-reordered",     // two aunts swapped
	"aunt-flipped",       // one bit of an aunt flipped
	"aunt-short",         // one aunt shortened to 31 bytes
	"index-out-of-range", // Index >= total
	"empty-proof",        // zero-value proof
	"bare-proof",         // proof with LeafHash only (Total/Index zero, no aunts)
	"same-prefix-set",    // part of a part set whose root shares its first byte with ours
}

type asmCase struct {
	data     []byte
	partSize uint32
	hdr      types.PartSetHeader
	src      *types.PartSet
	total    int
	orig     []*types.Part // copies of the genuine parts
	blk      *built        // non-nil when data is a real encoded block
}

func (a *asmCase) items() [][]byte {
	out := make([][]byte, a.total)
	for i, p := range a.orig {
		out[i] = p.Bytes
	}
	return out
}

func makeCase(c *ctx) *asmCase {
	t := c.tape
	a := &asmCase{}
	a.partSize = []uint32{256, 4096, types.BlockPartSizeBytes}[t.Weighted(3, 2, 5)]
	// number of parts: mostly 1..6, sometimes up to 12, rarely 0 (empty data)
	var nParts int
	switch t.Weighted(12, 3, 1) {
	case 0:
		nParts = t.Range(1, 6)
	case 1:
		nParts = t.Range(7, 12)
	default:
		nParts = 0
	}
	// last part: short, one byte, or exactly full
	lastLen := int(a.partSize)
	switch t.Weighted(6, 1, 2) {
	case 0:
		lastLen = t.Range(1, int(a.partSize)-1)
	case 1:
		lastLen = 1
	}
	size := 0
	if nParts > 0 {
		size = (nParts-1)*int(a.partSize) + lastLen
	}
	realBlock := nParts > 0 && t.Chance(1, 3)
	style := t.Weighted(5, 1, 2) // random, all-zero, every part identical
	c.ah.Add("case", fmt.Sprint(a.partSize), fmt.Sprint(nParts), fmt.Sprint(lastLen == int(a.partSize)), fmt.Sprint(realBlock), fmt.Sprint(style))
	if realBlock {
		// the encoded block is a little larger than its tx payload; aim the payload
		// so that the part count lands near nParts
		payload := size - 700
		if payload < 1 {
			payload = 1
		}
		a.blk = buildBlock(c, payload)
		c.product("Block.MakePartSet", func() { a.src = a.blk.block.MakePartSet(a.partSize) })
		pb, err := a.blk.block.ToProto()
		if err != nil {
			panic(err)
		}
		a.data, err = proto.Marshal(pb)
		if err != nil {
			panic(err)
		}
		c.step("case block height=%d bytes=%d partSize=%d parts=%d", a.blk.height, len(a.data), a.partSize, a.src.Total())
	} else {
		a.data = make([]byte, size)
		switch style {
		case 0:
			fill(a.data, uint64(t.Draw(1<<16)))
		case 2:
			one := make([]byte, a.partSize)
			fill(one, uint64(t.Draw(1<<16)))
			for off := 0; off < size; off += int(a.partSize) {
				copy(a.data[off:], one)
			}
		}
		c.step("case blob bytes=%d partSize=%d style=%d", size, a.partSize, style)
		if size == 0 {
			// No block encodes to zero bytes, so a zero-part *sender* cannot arise from a
			// block; what the splitter does with empty data is recorded, not judged. A
			// zero-part *receiver* can be created from a peer's header and is exercised.
			func() {
				defer func() {
					if r := recover(); r != nil {
						c.res.Probe("empty-data-split-panics")
					}
				}()
				if ps := types.NewPartSetFromData(a.data, a.partSize); ps.Total() == 0 {
					c.res.Probe("empty-data-split-ok")
				}
			}()
			a.hdr = types.PartSetHeader{Total: 0, Hash: hashOf(uint64(t.Draw(1 << 16)))}
			return a
		}
		c.product("NewPartSetFromData", func() { a.src = types.NewPartSetFromData(a.data, a.partSize) })
	}
	a.hdr = a.src.Header()
	a.total = int(a.src.Total())
	want := (len(a.data) + int(a.partSize) - 1) / int(a.partSize)
	if a.total != want {
		c.fail("split", "part set total differs from ceil(len/partSize)", fmt.Sprintf("len=%d partSize=%d total=%d want=%d", len(a.data), a.partSize, a.total, want))
	}
	if !a.src.IsComplete() || int(a.src.Count()) != a.total {
		c.fail("split", "part set built from data is not complete", fmt.Sprintf("count=%d total=%d", a.src.Count(), a.total))
	}
	for i := 0; i < a.total; i++ {
		p := a.src.GetPart(i)
		lo, hi := i*int(a.partSize), (i+1)*int(a.partSize)
		if hi > len(a.data) {
			hi = len(a.data)
		}
		if p == nil || int(p.Index) != i || !eqBytes(p.Bytes, a.data[lo:hi]) {
			c.fail("split", "part of a part set built from data does not hold its slice of the data", fmt.Sprintf("index %d", i))
		}
		a.orig = append(a.orig, copyPart(p))
	}
	// the header hash is the Merkle root of the parts per the independent reference
	if root := refRoot(a.items()); !eqBytes(root, a.src.Header().Hash.Bytes()) && a.total > 0 {
		c.fail("split", "part set header hash differs from the reference Merkle root of its parts", fmt.Sprintf("impl %x ref %x total %d", a.src.Header().Hash.Bytes(), root, a.total))
	}
	return a
}

// foreign builds another part set with the same number of parts.
func (a *asmCase) foreign(c *ctx, near bool, salt uint64) []*types.Part {
	d := cloneBytes(a.data)
	if near {
		d[len(d)-1] ^= 0x5a // only the last part differs
	} else {
		for off := 0; off < len(d); off += int(a.partSize) {
			d[off] ^= byte(1 + salt%200)
			d[off+(len(d)-off-1)%int(a.partSize)/2] ^= 0x33
		}
	}
	var ps *types.PartSet
	c.product("NewPartSetFromData", func() { ps = types.NewPartSetFromData(d, a.partSize) })
	out := make([]*types.Part, ps.Total())
	for i := range out {
		out[i] = copyPart(ps.GetPart(i))
	}
	return out
}

// reproofs lists (index,total) pairs other than the true one under which the
// genuine audit path of leaf j still leads to the root (per the reference).
func (a *asmCase) reproofs(j int, root []byte) [][2]uint64 {
	var out [][2]uint64
	p := a.orig[j]
	for tot := uint64(1); tot <= 16; tot++ {
		for idx := uint64(0); idx < tot; idx++ {
			if idx == uint64(j) && tot == uint64(a.total) {
				continue
			}
			if r := refEval(idx, tot, p.Proof.LeafHash, p.Proof.Aunts); r != nil && eqBytes(r, root) {
				out = append(out, [2]uint64{idx, tot})
			}
		}
	}
	return out
}

// adversarial returns a bogus part of the drawn kind (nil when the kind does
// not apply to this case) and a description.
func (a *asmCase) adversarial(c *ctx, kind string) (*types.Part, string) {
	t := c.tape
	n := a.total
	if n == 0 {
		// nothing genuine to start from: only fabricated parts
		p := &types.Part{Index: uint32(t.Draw(3)), Bytes: t.Bytes(t.Range(0, 8))}
		p.Proof.Total = uint64(t.Draw(3))
		p.Proof.Index = uint64(t.Draw(3))
		p.Proof.LeafHash = refLeaf(p.Bytes)
		return p, "fabricated part for an empty set"
	}
	root := a.hdr.Hash.Bytes()
	j := t.Draw(n)
	g := copyPart(a.orig[j])
	otherIdx := func() int { // an index != j (requires n >= 2)
		i := t.Draw(n - 1)
		if i >= j {
			i++
		}
		return i
	}
	flip := func(b []byte) {
		if len(b) > 0 {
			b[t.Draw(len(b))] ^= 1 << uint(t.Draw(8))
		}
	}
	switch kind {
	case "relabel":
		if n < 2 {
			return nil, ""
		}
		i := otherIdx()
		if eqBytes(a.orig[i].Bytes, g.Bytes) {
			return nil, "" // identical leaves: not distinguishable, not bogus
		}
		g.Index = uint32(i)
		return g, fmt.Sprintf("part %d relabelled as %d", j, i)
	case "relabel-reproof":
		alts := a.reproofs(j, root)
		if len(alts) == 0 {
			return nil, ""
		}
		alt := alts[t.Draw(len(alts))]
		if int(alt[0]) == j || alt[0] >= uint64(n) {
			// same slot (harmless) or out of range (covered elsewhere): prefer a foreign in-range slot
			for _, x := range alts {
				if int(x[0]) != j && x[0] < uint64(n) {
					alt = x
					break
				}
			}
		}
		g.Index = uint32(alt[0])
		g.Proof.Index, g.Proof.Total = alt[0], alt[1]
		if int(g.Index) == j || int(g.Index) >= n || eqBytes(a.orig[g.Index].Bytes, g.Bytes) {
			return nil, ""
		}
		return g, fmt.Sprintf("part %d of %d sent as index %d with proof rewritten to (%d of %d)", j, n, g.Index, alt[0], alt[1])
	case "proof-of-other", "proof-of-other-lh":
		if n < 2 {
			return nil, ""
		}
		i := otherIdx()
		if eqBytes(a.orig[i].Bytes, g.Bytes) {
			return nil, ""
		}
		// bytes of j travel under index i with the proof of leaf i
		p := copyPart(a.orig[i])
		p.Bytes = g.Bytes
		if kind == "proof-of-other-lh" {
			p.Proof.LeafHash = cloneBytes(g.Proof.LeafHash)
		}
		return p, fmt.Sprintf("bytes of part %d under index %d with the proof of leaf %d", j, i, i)
	case "foreign-block", "foreign-near":
		f := a.foreign(c, kind == "foreign-near", uint64(t.Draw(1000)))
		if kind == "foreign-near" {
			j = n - 1
		}
		if eqBytes(f[j].Bytes, a.orig[j].Bytes) {
			return nil, ""
		}
		return f[j], fmt.Sprintf("part %d of another part set", j)
	case "wrong-total":
		switch t.Draw(5) {
		case 0:
			g.Proof.Total++
		case 1:
			g.Proof.Total--
		case 2:
			g.Proof.Total = 0
		case 3:
			g.Proof.Total *= 2
		default:
			g.Proof.Total = math.MaxUint64 - uint64(t.Draw(2))
		}
		return g, fmt.Sprintf("part %d with Proof.Total=%d (true %d)", j, g.Proof.Total, n)
	case "wrong-proof-index":
		switch t.Draw(4) {
		case 0:
			g.Proof.Index++
		case 1:
			g.Proof.Index--
		case 2:
			g.Proof.Index = uint64(t.Draw(n + 2))
		default:
			g.Proof.Index = math.MaxUint64 - uint64(t.Draw(2))
		}
		if g.Proof.Index == uint64(j) {
			return nil, ""
		}
		return g, fmt.Sprintf("part %d with Proof.Index=%d", j, g.Proof.Index)
	case "truncated":
		g.Bytes = g.Bytes[:t.Draw(len(g.Bytes))]
		return g, fmt.Sprintf("part %d truncated to %d bytes", j, len(g.Bytes))
	case "extended":
		extra := t.Range(1, 16)
		if t.Chance(1, 3) { // past the part size limit
			extra = types.BlockPartSizeBytes + 1 - len(g.Bytes) + t.Draw(4)
		}
		g.Bytes = append(g.Bytes, make([]byte, extra)...)
		return g, fmt.Sprintf("part %d extended to %d bytes", j, len(g.Bytes))
	case "flipped":
		flip(g.Bytes)
		return g, fmt.Sprintf("part %d with one bit flipped", j)
	case "aunt-dropped", "aunt-duplicated", "aunt-reordered", "aunt-flipped", "aunt-short":
		na := len(g.Proof.Aunts)
		if na == 0 {
			if kind != "aunt-duplicated" {
				return nil, ""
			}
			g.Proof.Aunts = [][]byte{cloneBytes(g.Proof.LeafHash)} // an aunt where none belongs
			return g, fmt.Sprintf("part %d with a spurious aunt", j)
		}
		k := t.Draw(na)
		switch kind {
		case "aunt-dropped":
			g.Proof.Aunts = append(g.Proof.Aunts[:k], g.Proof.Aunts[k+1:]...)
		case "aunt-duplicated":
			g.Proof.Aunts = append(g.Proof.Aunts[:k+1], g.Proof.Aunts[k:]...)
		case "aunt-reordered":
			if na < 2 {
				return nil, ""
			}
			k2 := (k + 1 + t.Draw(na-1)) % na
			if eqBytes(g.Proof.Aunts[k], g.Proof.Aunts[k2]) {
				return nil, ""
			}
			g.Proof.Aunts[k], g.Proof.Aunts[k2] = g.Proof.Aunts[k2], g.Proof.Aunts[k]
		case "aunt-flipped":
			flip(g.Proof.Aunts[k])
		case "aunt-short":
			g.Proof.Aunts[k] = g.Proof.Aunts[k][:31]
		}
		return g, fmt.Sprintf("part %d with %s (aunt %d of %d)", j, kind, k, na)
	case "index-out-of-range":
		switch t.Draw(3) {
		case 0:
			g.Index = uint32(n)
		case 1:
			g.Index = uint32(n + t.Range(1, 1000))
		default:
			g.Index = math.MaxUint32 - uint32(t.Draw(2))
		}
		if t.Chance(1, 2) {
			g.Proof.Index = uint64(g.Index)
		}
		return g, fmt.Sprintf("part %d sent with Index=%d (total %d)", j, g.Index, n)
	case "empty-proof":
		p := &types.Part{Index: g.Index, Bytes: g.Bytes}
		return p, fmt.Sprintf("part %d with a zero-value proof", j)
	case "bare-proof":
		p := &types.Part{Index: g.Index, Bytes: g.Bytes}
		p.Proof.LeafHash = g.Proof.LeafHash
		if t.Chance(1, 2) {
			p.Proof.Total, p.Proof.Index = 1, 0
		}
		if n == 1 && p.Proof.Total == 1 {
			return nil, "" // that is the genuine proof of a one-part set
		}
		return p, fmt.Sprintf("part %d with a bare proof (total %d)", j, p.Proof.Total)
	case "same-prefix-set":
		// grind small foreign sets until the root shares its first byte with ours
		if len(a.data) > 4096 {
			return nil, ""
		}
		for k := 0; k < 1500; k++ {
			d := cloneBytes(a.data)
			d[0] ^= byte(k + 1)
			d[len(d)/2] ^= byte((k + 1) >> 8 << 1)
			if bytes.Equal(d, a.data) {
				continue
			}
			its := make([][]byte, 0, n)
			for off := 0; off < len(d); off += int(a.partSize) {
				hi := off + int(a.partSize)
				if hi > len(d) {
					hi = len(d)
				}
				its = append(its, d[off:hi])
			}
			if r := refRoot(its); r[0] == root[0] {
				var ps *types.PartSet
				c.product("NewPartSetFromData", func() { ps = types.NewPartSetFromData(d, a.partSize) })
				p := copyPart(ps.GetPart(0))
				if eqBytes(p.Bytes, a.orig[0].Bytes) {
					return nil, ""
				}
				c.res.Probe("same-prefix-set-found")
				return p, "part 0 of a part set whose root shares its first byte with ours"
			}
		}
		return nil, ""
	}
	panic("unknown kind " + kind)
}

func runAssembly(c *ctx) {
	t := c.tape
	res := c.res
	a := makeCase(c)
	n := a.total
	hdr := a.hdr
	height, round := uint64(7), uint32(0)
	if a.blk != nil {
		height = a.blk.height
	}

	// A peer may announce a header whose total is not the size of the tree its hash
	// was built over. No data of that many parts is committed to by that hash, so
	// such a set must never report complete. Separate draw: 0 = honest header.
	if lie := t.Weighted(9, 1, 1); lie != 0 && n >= 1 {
		runLyingHeader(c, a, lie, height, round)
		return
	}

	var rcv *types.PartSet
	c.product("NewPartSetFromHeader", func() { rcv = types.NewPartSetFromHeader(hdr) })
	accepted := make([]bool, n)
	nAccepted := 0

	// invariants of the receiver against the model, after every delivery
	check := func(after string) {
		c.product("PartSet observers", func() {
			if int(rcv.Count()) != nAccepted {
				c.fail("count", "Count differs from the number of accepted parts", fmt.Sprintf("after %s: Count=%d accepted=%d", after, rcv.Count(), nAccepted))
			}
			ba := rcv.BitArray()
			if ba.Size() != n {
				c.fail("bitarray", "BitArray size differs from the header total", fmt.Sprintf("size=%d total=%d", ba.Size(), n))
			}
			for i := 0; i < n; i++ {
				if ba.GetIndex(i) != accepted[i] {
					c.fail("bitarray", "BitArray differs from the set of accepted indices", fmt.Sprintf("after %s: bit %d is %v, accepted=%v", after, i, ba.GetIndex(i), accepted[i]))
				}
			}
			if rcv.IsComplete() != (nAccepted == n) {
				c.fail("complete", "IsComplete disagrees with accepted == total", fmt.Sprintf("after %s: IsComplete=%v accepted=%d total=%d", after, rcv.IsComplete(), nAccepted, n))
			}
			if !rcv.HasHeader(hdr) {
				c.fail("header", "receiver header changed", after)
			}
		})
	}
	slot := func(i int) *types.Part {
		var p *types.Part
		c.product("PartSet.GetPart", func() { p = rcv.GetPart(i) })
		return p
	}

	deliverGenuine := func(i int, tag string) {
		sent := copyPart(a.orig[i])
		c.step("%s part %d", tag, i)
		got, werr := wire(c, height, round, sent)
		if werr != nil {
			c.fail("wire", "genuine part rejected by its own wire encoding", fmt.Sprintf("part %d: %v", i, werr))
		}
		if !samePart(got, a.orig[i]) {
			c.fail("wire", "part changed across its wire encoding", fmt.Sprintf("part %d", i))
		}
		var added bool
		var err error
		c.product("PartSet.AddPart", func() { added, err = rcv.AddPart(got) })
		c.h.Add(fmt.Sprint(added, err))
		if err != nil || added == accepted[i] {
			held := slot(i)
			what := "empty"
			if held != nil {
				what = fmt.Sprintf("held by a part with bytes %s proof (%d of %d)", short(held.Bytes), held.Proof.Index, held.Proof.Total)
			}
			if accepted[i] {
				c.fail("genuine-accepted", "duplicate of an accepted genuine part was added again or returned an error", fmt.Sprintf("part %d added=%v err=%v", i, added, err))
			}
			c.fail("genuine-accepted", "genuine part refused", fmt.Sprintf("part %d of %d: added=%v err=%v; slot is %s", i, n, added, err, what))
		}
		if added {
			accepted[i] = true
			nAccepted++
		}
		if h := slot(i); h == nil || !eqBytes(h.Bytes, a.orig[i].Bytes) {
			c.fail("stored", "slot does not hold the genuine bytes after the genuine part was accepted", fmt.Sprintf("part %d", i))
		}
		check(fmt.Sprintf("%s part %d", tag, i))
	}

	// consequence exploration after a bogus part was stored: what would a node see?
	consequence := func(badSlot int) string {
		out := ""
		defer func() {
			if r := recover(); r != nil {
				out += fmt.Sprintf(" [stopped: %v]", firstLine(fmt.Sprint(r)))
			}
		}()
		added, err := rcv.AddPart(copyPart(a.orig[badSlot]))
		out += fmt.Sprintf("then the genuine part %d: added=%v err=%v; ", badSlot, added, err)
		for i := 0; i < n; i++ {
			rcv.AddPart(copyPart(a.orig[i]))
		}
		out += fmt.Sprintf("after all genuine parts: Count=%d/%d IsComplete=%v; ", rcv.Count(), n, rcv.IsComplete())
		if rcv.IsComplete() {
			bz, _ := ioutil.ReadAll(rcv.GetReader())
			out += fmt.Sprintf("GetReader yields %d bytes, equal to original=%v", len(bz), bytes.Equal(bz, a.data))
			if a.blk != nil {
				pbb := new(kproto.Block)
				if err := proto.Unmarshal(bz, pbb); err != nil {
					out += fmt.Sprintf("; block decode fails: %v", firstLine(err.Error()))
				} else if _, err := types.BlockFromProto(pbb, trie.NewStackTrie(nil)); err != nil {
					out += fmt.Sprintf("; BlockFromProto fails: %v", firstLine(err.Error()))
				}
			}
		}
		return out
	}

	deliverBogus := func(kind string) {
		p, desc := a.adversarial(c, kind)
		if p == nil {
			return
		}
		c.ah.Add("adv", kind)
		c.step("bogus[%s] %s", kind, desc)
		res.Fault(kind)
		got, werr := wire(c, height, round, p)
		if werr != nil {
			c.h.Add("wire-rejected")
			res.Probe("bogus-rejected-at-wire")
			check("bogus " + kind + " (dropped at the wire)")
			return
		}
		idx := int(got.Index)
		var before *types.Part
		if idx < n {
			before = slot(idx)
		}
		var added bool
		var err error
		c.product("PartSet.AddPart", func() { added, err = rcv.AddPart(got) })
		c.h.Add(fmt.Sprint(added, err))
		if idx >= n || idx < 0 {
			if added {
				c.fail("bogus-rejected", "part with index >= total accepted", fmt.Sprintf("%s: added=%v err=%v", desc, added, err))
			}
			if err == nil {
				res.Probe("out-of-range-index-without-error")
			}
			check("bogus " + kind)
			return
		}
		now := slot(idx)
		if !added {
			// never stored: the slot must be exactly what it was
			if now != before {
				c.fail("bogus-rejected", "AddPart returned added=false but the slot changed", desc)
			}
			if err == nil && before == nil {
				c.fail("bogus-rejected", "bogus part for an empty slot was dropped without an error", fmt.Sprintf("%s: added=false err=nil", desc))
			}
			check("bogus " + kind)
			return
		}
		// added: tolerable only if what is stored is exactly what belongs there
		if now != nil && eqBytes(now.Bytes, a.orig[idx].Bytes) && !accepted[idx] {
			res.Probe("bogus-accepted-with-genuine-bytes:" + kind)
			accepted[idx] = true
			nAccepted++
			check("bogus " + kind + " (harmless)")
			return
		}
		sig := "bogus part (" + kind + ") accepted and stored"
		switch kind {
		case "relabel":
			sig = "relabelled genuine part (Part.Index != Proof.Index) accepted into a foreign slot"
		case "relabel-reproof":
			sig = "genuine part with proof rewritten to another (index,total) that reaches the same root accepted into a foreign slot"
		}
		c.fail("bogus-rejected", sig, fmt.Sprintf("%s: added=%v err=%v; slot %d now holds bytes %s, should hold %s; %s",
			desc, added, err, idx, short(now.Bytes), short(a.orig[idx].Bytes), consequence(idx)))
	}

	check("creation")

	// delivery schedule
	order := t.Perm(n)
	next := 0
	nOps := t.Range(0, 40)
	swarm := make([]int, len(advKinds)) // per-run swarm weights over the adversarial kinds
	if t.Chance(1, 2) {
		for i := range swarm {
			swarm[i] = 1
		}
	} else {
		for i := range swarm {
			swarm[i] = t.Draw(3)
		}
	}
	bogus, dups := 0, 0
	for op := 0; op < nOps && res.Steps < 60; op++ {
		switch t.Weighted(4, 2, 5) {
		case 0: // next genuine part in the chosen order
			if next < n {
				deliverGenuine(order[next], "genuine")
				next++
			}
		case 1: // duplicate of something already delivered
			if next > 0 {
				dups++
				c.ah.Add("dup")
				deliverGenuine(order[t.Draw(next)], "duplicate")
			}
		default:
			k := t.Weighted(swarm...)
			before := res.Steps
			deliverBogus(advKinds[k])
			if res.Steps > before {
				bogus++
			}
		}
	}
	// drain: every genuine part not yet delivered, in the chosen order
	for ; next < n; next++ {
		deliverGenuine(order[next], "genuine")
	}

	// completion
	if n == 0 {
		// a header with total 0 commits to no data; the set reports complete at once
		c.product("PartSet.IsComplete", func() {
			if !rcv.IsComplete() {
				c.fail("complete", "empty part set is not complete", "")
			}
		})
		res.Probe("zero-part-set")
		// GetReader on it is not reachable in the product (consensus reads only after a
		// part was added); what it does is recorded, not judged.
		func() {
			defer func() {
				if r := recover(); r != nil {
					res.Probe("zero-part-reader-panics")
				}
			}()
			if bz, err := ioutil.ReadAll(rcv.GetReader()); err == nil && len(bz) == 0 {
				res.Probe("zero-part-reader-empty")
			}
		}()
		res.NonTrivial = false
		return
	}
	var complete bool
	c.product("PartSet.IsComplete", func() { complete = rcv.IsComplete() })
	if !complete {
		c.fail("complete", "set is not complete after every genuine part was delivered", fmt.Sprintf("count=%d total=%d", rcv.Count(), n))
	}
	var bz []byte
	var rerr error
	c.product("PartSet.GetReader", func() { bz, rerr = ioutil.ReadAll(rcv.GetReader()) })
	if rerr != nil {
		c.fail("reader", "reading a complete part set failed", rerr.Error())
	}
	if !bytes.Equal(bz, a.data) {
		c.fail("reader", "complete part set yields bytes different from the original", fmt.Sprintf("got %d bytes, original %d bytes", len(bz), len(a.data)))
	}
	// the yielded bytes hash to the header (reference Merkle root over partSize chunks)
	var chunks [][]byte
	for off := 0; off < len(bz); off += int(a.partSize) {
		hi := off + int(a.partSize)
		if hi > len(bz) {
			hi = len(bz)
		}
		chunks = append(chunks, bz[off:hi])
	}
	if r := refRoot(chunks); !eqBytes(r, hdr.Hash.Bytes()) {
		c.fail("reader", "bytes of a complete part set do not hash to its header", fmt.Sprintf("ref root %x header %x", r, hdr.Hash.Bytes()))
	}
	for i := 0; i < n; i++ {
		if p := slot(i); p == nil || !eqBytes(p.Bytes, a.orig[i].Bytes) {
			c.fail("stored", "slot of a complete set does not hold the genuine bytes", fmt.Sprintf("slot %d", i))
		}
	}
	c.h.AddBytes(hdr.Hash.Bytes())
	if a.blk != nil {
		// as consensus/state.go addProposalBlockPart
		var blk *types.Block
		var derr error
		c.product("block decoding of a complete part set", func() {
			pbb := new(kproto.Block)
			if derr = proto.Unmarshal(bz, pbb); derr != nil {
				return
			}
			blk, derr = types.BlockFromProto(pbb, trie.NewStackTrie(nil))
		})
		if derr != nil {
			c.fail("decode", "complete part set of a valid block does not decode", derr.Error())
		}
		if blk.Hash() != a.blk.block.Hash() {
			c.fail("decode", "block decoded from its parts has a different hash", fmt.Sprintf("%x vs %x", blk.Hash(), a.blk.block.Hash()))
		}
		if err := validateAgainstState(a.blk.state, blk); err != nil {
			c.fail("decode", "block decoded from its parts is not valid against the state its original is valid for", err.Error())
		}
		res.Probe("real-block-reassembled")
	}
	if n >= 7 {
		res.Probe("many-parts")
	}
	res.NonTrivial = bogus > 0 && n >= 1
	_ = dups
}

// runLyingHeader: the receiver is built from {Total: n-1 or n+1, Hash: root over n parts}.
func runLyingHeader(c *ctx, a *asmCase, lie int, height uint64, round uint32) {
	t := c.tape
	n := a.total
	claimed := n + 1
	if lie == 1 {
		claimed = n - 1
	}
	c.ah.Add("lying-header", fmt.Sprint(lie))
	c.res.Fault("lying-header-total")
	hdr := types.PartSetHeader{Total: uint32(claimed), Hash: a.hdr.Hash}
	c.step("lying header: total %d announced for a tree of %d parts", claimed, n)
	var rcv *types.PartSet
	c.product("NewPartSetFromHeader", func() { rcv = types.NewPartSetFromHeader(hdr) })
	if claimed == 0 {
		c.res.Probe("zero-part-set")
		return
	}
	viaRelabel := false
	offer := func(p *types.Part, what string) {
		got, werr := wire(c, height, round, p)
		if werr != nil {
			return
		}
		var added, complete bool
		var err error
		c.product("PartSet.AddPart", func() { added, err = rcv.AddPart(got) })
		c.step("%s -> added=%v err=%v", what, added, err)
		c.product("PartSet.IsComplete", func() { complete = rcv.IsComplete() })
		if !complete {
			return
		}
		var bz []byte
		c.product("PartSet.GetReader", func() { bz, _ = ioutil.ReadAll(rcv.GetReader()) })
		var chunks [][]byte
		for off := 0; off < len(bz); off += int(a.partSize) {
			hi := off + int(a.partSize)
			if hi > len(bz) {
				hi = len(bz)
			}
			chunks = append(chunks, bz[off:hi])
		}
		if eqBytes(refRoot(chunks), hdr.Hash.Bytes()) {
			panic("generator: lying header turned out to be consistent")
		}
		sig := "part set whose header total is smaller than the tree behind its hash reports complete and yields data that does not hash to the header (Proof.Total not bound to the header total)"
		if viaRelabel {
			sig = "relabelled genuine part (Part.Index != Proof.Index) accepted into a foreign slot"
		}
		c.fail("complete-commits", sig, fmt.Sprintf("header {total %d, hash of a %d-part tree}: after %s the set is complete (Count=%d) and yields %d bytes whose reference root %x differs from the header hash %x",
			claimed, n, what, rcv.Count(), len(bz), refRoot(chunks), hdr.Hash.Bytes()))
	}
	for _, i := range t.Perm(n) {
		if i < claimed {
			offer(copyPart(a.orig[i]), fmt.Sprintf("genuine part %d (proof %d of %d)", i, i, n))
		}
	}
	if claimed > n {
		// the missing slot can only be filled by a relabelled part
		viaRelabel = true
		c.res.Fault("relabel")
		g := copyPart(a.orig[t.Draw(n)])
		g.Index = uint32(n)
		offer(g, fmt.Sprintf("part %d relabelled as %d", g.Proof.Index, n))
	}
	c.res.NonTrivial = true
}
