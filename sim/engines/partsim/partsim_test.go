// Engine partsim (C13): blocks are tamper-evident and reassemble exactly from
// their parts.
//
//	mode "assembly": a data blob or a real encoded block is split by the real
//	  NewPartSetFromData / MakePartSet; a receiver made by NewPartSetFromHeader
//	  is fed, through the consensus wire encoding, the genuine parts in a
//	  tape-chosen order with duplicates and adversarial parts in between.
//	mode "mutation": a valid block is built with the real constructors; the full
//	  single-field mutation matrix is applied to its wire form; encodings and
//	  rawdb read-back are checked; lib/merkle proofs are compared with an
//	  independent RFC-6962 style evaluator.
//
// This file: engine entry, fixed keys, deterministic fill, the independent
// Merkle reference, small helpers.
package partsim

import (
	"bytes"
	"crypto/ecdsa"
	"crypto/sha256"
	"fmt"
	"testing"
	"time"

	"verif/sim/core"

	"github.com/kardiachain/go-kardia/lib/common"
	"github.com/kardiachain/go-kardia/lib/crypto"
	"github.com/kardiachain/go-kardia/types"
)

const prop = "C13"

type engine struct{}

func (engine) Name() string { return "partsim" }

func TestSim(t *testing.T) { core.Main(t, engine{}) }

// run context shared by both modes
type ctx struct {
	res  *core.RunResult
	tape *core.Tape
	opt  core.Options
	h    *core.Hasher // trace
	ah   *core.Hasher // abstract shape
	ops  []string
	// phase tells the panic handler whose code was running
	inProduct string
}

func (c *ctx) step(f string, a ...interface{}) {
	s := fmt.Sprintf(f, a...)
	if len(c.ops) < 40 {
		c.ops = append(c.ops, s)
	}
	c.res.Tracef("%s", s)
	c.h.Add(s)
	c.res.Steps++
}

// violated is the sentinel used to unwind after the first oracle failure.
type violated struct{}

func (c *ctx) fail(oracle, sig, detail string) {
	c.res.Violate(prop, oracle, sig, detail)
	panic(violated{})
}

// product runs f (product code) and converts a panic in it into a violation.
func (c *ctx) product(what string, f func()) {
	defer func() {
		if r := recover(); r != nil {
			if _, ok := r.(violated); ok {
				panic(r)
			}
			pp := prop
			if c.opt.Property == "C18" {
				pp = "C18" // the same run as a check of "no peer input panics the node"
			}
			c.res.Violate(pp, "panic", "panic in "+what+": "+noDigits(firstLine(fmt.Sprint(r))), fmt.Sprint(r))
			panic(violated{})
		}
	}()
	f()
}

func (engine) Run(t *testing.T, tape *core.Tape, opt core.Options) (res *core.RunResult) {
	res = core.NewResult()
	c := &ctx{res: res, tape: tape, opt: opt, h: core.NewHasher(), ah: core.NewHasher()}
	defer func() {
		if r := recover(); r != nil {
			if _, ok := r.(violated); !ok {
				// a panic outside c.product is ours: harness trouble, not a verdict
				panic(r)
			}
		}
		res.TraceHash = c.h.Sum()
		res.AbstractHash = c.ah.Sum()
		res.Sample = map[string]interface{}{"mode": opt.Mode, "ops": c.ops}
	}()
	switch opt.Mode {
	case "mutation":
		runMutation(c)
	default:
		runAssembly(c)
	}
	return res
}

// ---------------- fixed keys ----------------

type keyring struct {
	priv []*ecdsa.PrivateKey
	addr []common.Address
	pv   []*types.DefaultPrivValidator
}

func mkKeys(label string, n int) *keyring {
	k := &keyring{}
	for i := 0; i < n; i++ {
		p, err := crypto.ToECDSA(crypto.Keccak256([]byte(fmt.Sprintf("partsim/%s/%d", label, i))))
		if err != nil {
			panic(err)
		}
		k.priv = append(k.priv, p)
		k.addr = append(k.addr, crypto.PubkeyToAddress(p.PublicKey))
		k.pv = append(k.pv, types.NewDefaultPrivValidator(p))
	}
	return k
}

var (
	valKeys = mkKeys("validator", 6)
	txKeys  = mkKeys("account", 3)
)

func (k *keyring) indexOf(a common.Address) int {
	for i, x := range k.addr {
		if x == a {
			return i
		}
	}
	return -1
}

// ---------------- deterministic fill ----------------

// fill writes a SplitMix64 stream; the seed is a tape draw.
func fill(b []byte, seed uint64) {
	x := seed
	for i := 0; i < len(b); i += 8 {
		x = core.SplitMix64(x)
		v := x
		for j := i; j < i+8 && j < len(b); j++ {
			b[j] = byte(v)
			v >>= 8
		}
	}
}

func hashOf(seed uint64) common.Hash {
	var h common.Hash
	fill(h[:], seed)
	if h.IsZero() {
		h[0] = 1
	}
	return h
}

func simTime(sec int, nsec int) time.Time {
	return time.Unix(1_600_000_000+int64(sec), int64(nsec)).UTC()
}

// ---------------- independent Merkle reference (RFC 6962 shape) ----------------
// Leaves are hashed with a 0x00 prefix, inner nodes with 0x01; a tree over n>1
// leaves splits at the largest power of two strictly below n.

func refLeaf(b []byte) []byte {
	h := sha256.New()
	h.Write([]byte{0})
	h.Write(b)
	return h.Sum(nil)
}

func refInner(l, r []byte) []byte {
	h := sha256.New()
	h.Write([]byte{1})
	h.Write(l)
	h.Write(r)
	return h.Sum(nil)
}

func refRoot(items [][]byte) []byte {
	switch len(items) {
	case 0:
		return nil
	case 1:
		return refLeaf(items[0])
	}
	k := 1
	for k*2 < len(items) {
		k *= 2
	}
	return refInner(refRoot(items[:k]), refRoot(items[k:]))
}

// refEval folds an audit path bottom-up (the iterative verification of
// RFC 9162 2.1.3.2) and returns the root it leads to, or nil when the path is
// malformed for (index,total).
func refEval(index, total uint64, leafHash []byte, aunts [][]byte) []byte {
	if total == 0 || index >= total {
		return nil
	}
	fn, sn := index, total-1
	r := leafHash
	for _, p := range aunts {
		if sn == 0 {
			return nil
		}
		if fn&1 == 1 || fn == sn {
			r = refInner(p, r)
			if fn&1 == 0 {
				for fn&1 == 0 && fn != 0 {
					fn >>= 1
					sn >>= 1
				}
			}
		} else {
			r = refInner(r, p)
		}
		fn >>= 1
		sn >>= 1
	}
	if sn != 0 {
		return nil
	}
	return r
}

// ---------------- helpers ----------------

func firstLine(s string) string {
	for i, ch := range s {
		if ch == '\n' {
			return s[:i]
		}
	}
	if len(s) > 160 {
		return s[:160]
	}
	return s
}

// noDigits erases numbers so that a signature never carries indices or addresses.
func noDigits(s string) string {
	out := make([]byte, 0, len(s))
	inNum := false
	for i := 0; i < len(s); i++ {
		if s[i] >= '0' && s[i] <= '9' {
			if !inNum {
				out = append(out, 'N')
			}
			inNum = true
			continue
		}
		inNum = false
		out = append(out, s[i])
	}
	return string(out)
}

func short(b []byte) string {
	if len(b) > 6 {
		return fmt.Sprintf("%x..(%d)", b[:6], len(b))
	}
	return fmt.Sprintf("%x", b)
}

func cloneBytes(b []byte) []byte { return append([]byte(nil), b...) }

func cloneAunts(a [][]byte) [][]byte {
	out := make([][]byte, len(a))
	for i := range a {
		out[i] = cloneBytes(a[i])
	}
	return out
}

func eqBytes(a, b []byte) bool { return bytes.Equal(a, b) }
