package partsim

// Mode "mutation": the single-field mutation matrix over the wire form of a
// valid block, encoding round trips, rawdb read-back, lib/merkle proofs.

import (
	"bytes"
	"fmt"
	"math"
	"math/big"
	"time"

	"github.com/gogo/protobuf/proto"

	"github.com/kardiachain/go-kardia/kai/kaidb/memorydb"
	"github.com/kardiachain/go-kardia/kai/rawdb"
	"github.com/kardiachain/go-kardia/lib/crypto"
	"github.com/kardiachain/go-kardia/lib/merkle"
	kproto "github.com/kardiachain/go-kardia/proto/kardiachain/types"
	"github.com/kardiachain/go-kardia/trie"
	"github.com/kardiachain/go-kardia/types"
)

var secpN, _ = new(big.Int).SetString("fffffffffffffffffffffffffffffffebaaedce6af48a03bbfd25e8cd0364141", 16)

func mustMarshal(m proto.Message) []byte {
	bz, err := proto.Marshal(m)
	if err != nil {
		panic(err)
	}
	return bz
}

func cloneBlockPB(bz []byte) *kproto.Block {
	pb := new(kproto.Block)
	if err := proto.Unmarshal(bz, pb); err != nil {
		panic(err)
	}
	return pb
}

// malleate turns an [R||S||V] signature into the other valid signature of the
// same message by the same key.
func malleate(sig []byte) []byte {
	if len(sig) != 65 {
		return nil
	}
	out := cloneBytes(sig)
	s := new(big.Int).SetBytes(sig[32:64])
	s.Sub(secpN, s)
	sb := s.Bytes()
	for i := 32; i < 64; i++ {
		out[i] = 0
	}
	copy(out[64-len(sb):64], sb)
	out[64] ^= 1
	return out
}

type mutation struct {
	name  string
	class string // header | txs | commit-sigs | commit-meta | evidence
	fix   string // "" | data | commit | evidence: what a consistent adversary recomputes in the header
	apply func(pb *kproto.Block) bool
}

// classes whose content the header is stated to commit to: a change must be
// visible in the hash or be refused by ValidateBasic, without help from state.
var strictClass = map[string]bool{"header": true, "txs": true, "commit-sigs": true, "evidence": true}

func mutations(c *ctx, b *built) []mutation {
	t := c.tape
	flip := func(bz []byte) bool {
		if len(bz) == 0 {
			return false
		}
		bz[t.Draw(len(bz))] ^= 1 << uint(t.Draw(8))
		return true
	}
	bump := func(v *uint64) bool {
		if t.Chance(1, 2) && *v > 0 {
			*v--
		} else {
			*v += uint64(t.Range(1, 3))
		}
		return true
	}
	bump32 := func(v *uint32) bool {
		if t.Chance(1, 2) && *v > 0 {
			*v--
		} else {
			*v += uint32(t.Range(1, 3))
		}
		return true
	}
	tshift := func(ts *time.Time) bool {
		d := []time.Duration{time.Nanosecond, -time.Nanosecond, time.Millisecond, time.Second, -time.Second}[t.Draw(5)]
		*ts = ts.Add(d)
		return true
	}
	var ms []mutation
	H := func(name string, f func(h *kproto.Header) bool) {
		ms = append(ms, mutation{"header." + name, "header", "", func(pb *kproto.Block) bool { return f(&pb.Header) }})
	}
	H("height", func(h *kproto.Header) bool { return bump(&h.Height) })
	H("time", func(h *kproto.Header) bool { return tshift(&h.Time) })
	H("num_txs", func(h *kproto.Header) bool { return bump(&h.NumTxs) })
	H("gas_limit", func(h *kproto.Header) bool { return bump(&h.GasLimit) })
	H("last_block_id.hash", func(h *kproto.Header) bool { return flip(h.LastBlockId.Hash) })
	H("last_block_id.parts.total", func(h *kproto.Header) bool { return bump32(&h.LastBlockId.PartSetHeader.Total) })
	H("last_block_id.parts.hash", func(h *kproto.Header) bool { return flip(h.LastBlockId.PartSetHeader.Hash) })
	H("proposer_address", func(h *kproto.Header) bool {
		if t.Chance(1, 2) { // another member of the validator set
			for _, v := range b.curVals.Validators {
				if !bytes.Equal(v.Address.Bytes(), h.ProposerAddress) {
					h.ProposerAddress = cloneBytes(v.Address.Bytes())
					return true
				}
			}
		}
		return flip(h.ProposerAddress)
	})
	H("last_commit_hash", func(h *kproto.Header) bool { return flip(h.LastCommitHash) })
	H("data_hash", func(h *kproto.Header) bool { return flip(h.DataHash) })
	H("validators_hash", func(h *kproto.Header) bool { return flip(h.ValidatorsHash) })
	H("next_validators_hash", func(h *kproto.Header) bool { return flip(h.NextValidatorsHash) })
	H("consensus_hash", func(h *kproto.Header) bool { return flip(h.ConsensusHash) })
	H("app_hash", func(h *kproto.Header) bool { return flip(h.AppHash) })
	H("evidence_hash", func(h *kproto.Header) bool { return flip(h.EvidenceHash) })

	// wire-only changes that a decoder is expected to erase (not a different block)
	ms = append(ms, mutation{"header.chain_id(proto-only)", "encoding", "", func(pb *kproto.Block) bool {
		pb.Header.ChainID = "other-chain"
		return true
	}})
	ms = append(ms, mutation{"header.hash-field-left-padded", "encoding", "", func(pb *kproto.Block) bool {
		f := []*[]byte{&pb.Header.AppHash, &pb.Header.ConsensusHash, &pb.Header.ValidatorsHash, &pb.Header.DataHash, &pb.Header.LastBlockId.Hash}[t.Draw(5)]
		*f = append([]byte{byte(t.Draw(256))}, *f...)
		return true
	}})

	// transactions
	T := func(name string, f func(d *kproto.Data) bool) {
		ms = append(ms, mutation{"txs." + name, "txs", "data", func(pb *kproto.Block) bool { return f(&pb.Data) }})
	}
	T("add", func(d *kproto.Data) bool {
		extra := types.Transactions{mkTx(90+uint64(t.Draw(5)), t.Draw(len(txKeys.priv)), int64(t.Draw(100)), t.Bytes(t.Draw(6)))}.ToProto().Txs[0]
		at := t.Draw(len(d.Txs) + 1)
		d.Txs = append(d.Txs[:at], append([][]byte{extra}, d.Txs[at:]...)...)
		return true
	})
	T("duplicate", func(d *kproto.Data) bool {
		if len(d.Txs) == 0 {
			return false
		}
		d.Txs = append(d.Txs, cloneBytes(d.Txs[pickTx(t, len(d.Txs))]))
		return true
	})
	T("remove", func(d *kproto.Data) bool {
		if len(d.Txs) == 0 {
			return false
		}
		at := pickTx(t, len(d.Txs))
		d.Txs = append(d.Txs[:at], d.Txs[at+1:]...)
		return true
	})
	T("reorder", func(d *kproto.Data) bool {
		if len(d.Txs) < 2 {
			return false
		}
		i := pickTx(t, len(d.Txs))
		j := (i + 1 + t.Draw(len(d.Txs)-1)) % len(d.Txs)
		if bytes.Equal(d.Txs[i], d.Txs[j]) {
			return false
		}
		d.Txs[i], d.Txs[j] = d.Txs[j], d.Txs[i]
		return true
	})
	T("alter-byte", func(d *kproto.Data) bool {
		if len(d.Txs) == 0 {
			return false
		}
		return flip(d.Txs[pickTx(t, len(d.Txs))])
	})
	T("replace", func(d *kproto.Data) bool {
		if len(d.Txs) == 0 {
			return false
		}
		at := pickTx(t, len(d.Txs))
		d.Txs[at] = types.Transactions{mkTx(uint64(at), t.Draw(len(txKeys.priv)), 5000+int64(t.Draw(100)), nil)}.ToProto().Txs[0]
		return true
	})

	// last commit: height / round / block id are not under the commit hash; the
	// signatures bind them and state-level validation checks those
	M := func(name string, f func(cm *kproto.Commit) bool) {
		ms = append(ms, mutation{"last_commit." + name, "commit-meta", "commit", func(pb *kproto.Block) bool {
			if pb.LastCommit == nil {
				return false
			}
			return f(pb.LastCommit)
		}})
	}
	M("height", func(cm *kproto.Commit) bool { return bump(&cm.Height) })
	M("round", func(cm *kproto.Commit) bool { return bump32(&cm.Round) })
	M("block_id.hash", func(cm *kproto.Commit) bool {
		if len(cm.BlockID.Hash) == 0 {
			cm.BlockID.Hash = hashOf(uint64(t.Draw(1000))).Bytes()
			return true
		}
		return flip(cm.BlockID.Hash)
	})
	M("block_id.parts.total", func(cm *kproto.Commit) bool { return bump32(&cm.BlockID.PartSetHeader.Total) })
	M("block_id.parts.hash", func(cm *kproto.Commit) bool {
		if len(cm.BlockID.PartSetHeader.Hash) == 0 {
			cm.BlockID.PartSetHeader.Hash = hashOf(uint64(t.Draw(1000))).Bytes()
			return true
		}
		return flip(cm.BlockID.PartSetHeader.Hash)
	})
	ms = append(ms, mutation{"last_commit.removed", "commit-meta", "commit", func(pb *kproto.Block) bool {
		if pb.LastCommit == nil {
			return false
		}
		pb.LastCommit = nil
		return true
	}})

	// commit signatures
	S := func(name string, f func(cm *kproto.Commit, i int) bool) {
		ms = append(ms, mutation{"last_commit.sig." + name, "commit-sigs", "commit", func(pb *kproto.Block) bool {
			if pb.LastCommit == nil || len(pb.LastCommit.Signatures) == 0 {
				return false
			}
			return f(pb.LastCommit, t.Draw(len(pb.LastCommit.Signatures)))
		}})
	}
	present := func(cm *kproto.Commit, i int) int { // a non-absent signature, preferring i
		for k := 0; k < len(cm.Signatures); k++ {
			j := (i + k) % len(cm.Signatures)
			if cm.Signatures[j].BlockIdFlag != kproto.BlockIDFlagAbsent {
				return j
			}
		}
		return -1
	}
	S("signature-bit", func(cm *kproto.Commit, i int) bool {
		j := present(cm, i)
		return j >= 0 && flip(cm.Signatures[j].Signature)
	})
	S("signature-malleated", func(cm *kproto.Commit, i int) bool {
		j := present(cm, i)
		if j < 0 {
			return false
		}
		m := malleate(cm.Signatures[j].Signature)
		if m == nil {
			return false
		}
		cm.Signatures[j].Signature = m
		return true
	})
	S("signature-truncated", func(cm *kproto.Commit, i int) bool {
		j := present(cm, i)
		if j < 0 {
			return false
		}
		cm.Signatures[j].Signature = cm.Signatures[j].Signature[:t.Draw(len(cm.Signatures[j].Signature))]
		return true
	})
	S("flag", func(cm *kproto.Commit, i int) bool {
		old := cm.Signatures[i].BlockIdFlag
		nw := []kproto.BlockIDFlag{kproto.BlockIDFlagAbsent, kproto.BlockIDFlagCommit, kproto.BlockIDFlagNil, 0, 4}[t.Draw(5)]
		if nw == old {
			nw = kproto.BlockIDFlag((int(old) % 3) + 1)
		}
		cm.Signatures[i].BlockIdFlag = nw
		return true
	})
	S("timestamp", func(cm *kproto.Commit, i int) bool {
		j := present(cm, i)
		return j >= 0 && tshift(&cm.Signatures[j].Timestamp)
	})
	S("validator_address", func(cm *kproto.Commit, i int) bool {
		j := present(cm, i)
		if j < 0 {
			return false
		}
		if t.Chance(1, 2) && len(cm.Signatures) > 1 { // address of another validator
			k := (j + 1) % len(cm.Signatures)
			if a := b.lastVals.Validators[k].Address.Bytes(); !bytes.Equal(a, cm.Signatures[j].ValidatorAddress) {
				cm.Signatures[j].ValidatorAddress = cloneBytes(a)
				return true
			}
		}
		return flip(cm.Signatures[j].ValidatorAddress)
	})
	S("made-absent", func(cm *kproto.Commit, i int) bool {
		j := present(cm, i)
		if j < 0 {
			return false
		}
		cm.Signatures[j] = kproto.CommitSig{BlockIdFlag: kproto.BlockIDFlagAbsent}
		return true
	})
	S("re-signed", func(cm *kproto.Commit, i int) bool { // the validator itself signs again with another timestamp
		j := present(cm, i)
		if j < 0 || b.votes[j] == nil {
			return false
		}
		v := *b.votes[j]
		v.Timestamp = v.Timestamp.Add(time.Duration(t.Range(1, 5)) * time.Millisecond)
		signVote(&v)
		cm.Signatures[j].Timestamp = v.Timestamp
		cm.Signatures[j].Signature = v.Signature
		return true
	})
	S("removed", func(cm *kproto.Commit, i int) bool {
		cm.Signatures = append(cm.Signatures[:i], cm.Signatures[i+1:]...)
		return true
	})
	S("duplicated", func(cm *kproto.Commit, i int) bool {
		cm.Signatures = append(cm.Signatures, cm.Signatures[i])
		return true
	})
	S("swapped", func(cm *kproto.Commit, i int) bool {
		if len(cm.Signatures) < 2 {
			return false
		}
		j := (i + 1) % len(cm.Signatures)
		if bytes.Equal(mustMarshal(&cm.Signatures[i]), mustMarshal(&cm.Signatures[j])) {
			return false
		}
		cm.Signatures[i], cm.Signatures[j] = cm.Signatures[j], cm.Signatures[i]
		return true
	})
	ms = append(ms, mutation{"last_commit.sig.absent-appended", "commit-sigs", "commit", func(pb *kproto.Block) bool {
		if pb.LastCommit == nil {
			return false
		}
		pb.LastCommit.Signatures = append(pb.LastCommit.Signatures, kproto.CommitSig{BlockIdFlag: kproto.BlockIDFlagAbsent})
		return true
	}})

	// evidence
	E := func(name string, f func(e *kproto.EvidenceData) bool) {
		ms = append(ms, mutation{"evidence." + name, "evidence", "evidence", func(pb *kproto.Block) bool { return f(&pb.Evidence) }})
	}
	evPB := func(ev types.Evidence) kproto.Evidence {
		p, err := types.EvidenceToProto(ev)
		if err != nil {
			panic(err)
		}
		return *p
	}
	dve := func(e *kproto.EvidenceData) *kproto.DuplicateVoteEvidence {
		if len(e.Evidence) == 0 {
			return nil
		}
		return e.Evidence[t.Draw(len(e.Evidence))].GetDuplicateVoteEvidence()
	}
	E("add", func(e *kproto.EvidenceData) bool {
		e.Evidence = append(e.Evidence, evPB(mkEvidence(t, b.curVals, b.height, b.blockTime, 500+uint64(t.Draw(100)))))
		return true
	})
	E("remove", func(e *kproto.EvidenceData) bool {
		if len(e.Evidence) == 0 {
			return false
		}
		at := t.Draw(len(e.Evidence))
		e.Evidence = append(e.Evidence[:at], e.Evidence[at+1:]...)
		return true
	})
	E("duplicate", func(e *kproto.EvidenceData) bool {
		if len(e.Evidence) == 0 {
			return false
		}
		e.Evidence = append(e.Evidence, e.Evidence[t.Draw(len(e.Evidence))])
		return true
	})
	E("reorder", func(e *kproto.EvidenceData) bool {
		if len(e.Evidence) < 2 || bytes.Equal(mustMarshal(&e.Evidence[0]), mustMarshal(&e.Evidence[1])) {
			return false
		}
		e.Evidence[0], e.Evidence[1] = e.Evidence[1], e.Evidence[0]
		return true
	})
	E("vote-signature", func(e *kproto.EvidenceData) bool {
		d := dve(e)
		if d == nil {
			return false
		}
		if t.Chance(1, 2) {
			return flip(d.VoteA.Signature)
		}
		return flip(d.VoteB.Signature)
	})
	E("vote-height", func(e *kproto.EvidenceData) bool {
		d := dve(e)
		return d != nil && bump(&d.VoteA.Height)
	})
	E("vote-round", func(e *kproto.EvidenceData) bool {
		d := dve(e)
		return d != nil && bump32(&d.VoteB.Round)
	})
	E("vote-block-id", func(e *kproto.EvidenceData) bool {
		d := dve(e)
		return d != nil && flip(d.VoteB.BlockID.Hash)
	})
	E("vote-timestamp", func(e *kproto.EvidenceData) bool {
		d := dve(e)
		return d != nil && tshift(&d.VoteA.Timestamp)
	})
	E("vote-validator", func(e *kproto.EvidenceData) bool {
		d := dve(e)
		if d == nil {
			return false
		}
		if t.Chance(1, 2) {
			d.VoteA.ValidatorIndex++
			return true
		}
		return flip(d.VoteA.ValidatorAddress)
	})
	E("vote-type", func(e *kproto.EvidenceData) bool {
		d := dve(e)
		if d == nil {
			return false
		}
		d.VoteA.Type = kproto.PrevoteType + kproto.PrecommitType - d.VoteA.Type
		return true
	})
	E("votes-swapped", func(e *kproto.EvidenceData) bool {
		d := dve(e)
		if d == nil {
			return false
		}
		d.VoteA, d.VoteB = d.VoteB, d.VoteA
		return true
	})
	E("total-voting-power", func(e *kproto.EvidenceData) bool {
		d := dve(e)
		if d == nil {
			return false
		}
		d.TotalVotingPower += int64(t.Range(1, 3))
		return true
	})
	E("validator-power", func(e *kproto.EvidenceData) bool {
		d := dve(e)
		if d == nil {
			return false
		}
		d.ValidatorPower += int64(t.Range(1, 3))
		return true
	})
	E("timestamp", func(e *kproto.EvidenceData) bool {
		d := dve(e)
		return d != nil && tshift(&d.Timestamp)
	})
	return ms
}

// refix recomputes, as an adversary with the product's own code would, the
// header field that depends on the mutated content. false = cannot (content no
// longer decodes).
func refix(pb *kproto.Block, what string) (ok bool) {
	defer func() {
		if recover() != nil {
			ok = false
		}
	}()
	switch what {
	case "data":
		txs, err := types.DataFromProto(&pb.Data)
		if err != nil {
			return false
		}
		if len(txs) == 0 {
			pb.Header.DataHash = types.EmptyRootHash.Bytes()
		} else {
			pb.Header.DataHash = txs.Hash(trie.NewStackTrie(nil)).Bytes()
		}
		pb.Header.NumTxs = uint64(len(txs))
	case "commit":
		if pb.LastCommit == nil {
			pb.Header.LastCommitHash = make([]byte, 32)
			return true
		}
		cm, err := types.CommitFromProto(pb.LastCommit)
		if err != nil {
			return false
		}
		pb.Header.LastCommitHash = cm.Hash().Bytes()
	case "evidence":
		ed := &types.EvidenceData{}
		if err := ed.FromProto(&pb.Evidence); err != nil {
			return false
		}
		pb.Header.EvidenceHash = ed.Evidence.Hash().Bytes()
	}
	return true
}

func runMutation(c *ctx) {
	res := c.res
	var b *built
	b = buildBlock(c, 0)
	c.step("block %s", b.shape)
	c.ah.Add("block", b.shape)
	orig := b.block
	origHash := orig.Hash()

	// the generated block must be valid, or the history says nothing
	if err := orig.ValidateBasic(trie.NewStackTrie(nil)); err != nil {
		res.Infra = "generator produced a block failing ValidateBasic: " + err.Error()
		return
	}
	if err := validateAgainstState(b.state, orig); err != nil {
		res.Infra = "generator produced a block failing state validation: " + err.Error()
		return
	}
	pb0, err := orig.ToProto()
	if err != nil {
		panic(err)
	}
	canon := mustMarshal(pb0)
	c.h.AddBytes(canon)

	roundTrips(c, b, canon)
	rawdbReadBack(c, b)

	// ---- the mutation matrix ----
	applied := 0
	ms := mutations(c, b)
	// tape-chosen order (all-zero draws = table order), so that a failing mutant
	// does not always hide the ones behind it
	for _, mi := range c.tape.Perm(len(ms)) {
		m := ms[mi]
		for _, consistent := range []bool{false, true} {
			if consistent && m.fix == "" {
				continue
			}
			pb := cloneBlockPB(canon)
			if !m.apply(pb) {
				continue
			}
			variant := "raw"
			if consistent {
				variant = "consistent"
				if !refix(pb, m.fix) {
					continue
				}
			}
			mbz := mustMarshal(pb)
			if bytes.Equal(mbz, canon) {
				continue
			}
			applied++
			res.Fault(m.class)
			outcome := evaluate(c, b, m, variant, mbz, canon, origHash)
			c.step("mutate %s/%s -> %s", m.name, variant, outcome)
			res.Probe("outcome:" + outcome)
			if outcome == "rejected-by-state" {
				res.Probe("state-only:" + m.name)
			}
		}
	}
	merkleChecks(c)
	res.NonTrivial = applied >= 20
}

// evaluate decides one mutated block the way a receiving node does.
func evaluate(c *ctx, b *built, m mutation, variant string, mbz, canon []byte, origHash interface{ Bytes() []byte }) string {
	var blk *types.Block
	var err error
	c.product("BlockFromProto of a mutated block ("+m.class+")", func() {
		pb := new(kproto.Block)
		if err = proto.Unmarshal(mbz, pb); err != nil {
			return
		}
		blk, err = types.BlockFromProto(pb, trie.NewStackTrie(nil))
	})
	if err != nil {
		return "rejected-basic"
	}
	var re []byte
	c.product("Block.ToProto of a decoded block", func() {
		pb, e := blk.ToProto()
		if e != nil {
			panic(e)
		}
		re = mustMarshal(pb)
	})
	if bytes.Equal(re, canon) {
		return "erased-by-decoding"
	}
	var h2 []byte
	c.product("Block.Hash", func() { h2 = blk.Hash().Bytes() })
	if !bytes.Equal(h2, origHash.Bytes()) {
		// C13 is satisfied here. A node still runs state-level validation on such a
		// block; for a sample of the last-commit mutants it is run too, only to see
		// that it answers at all. A crash there is another property's business (C18)
		// and is reported as such (a NOTE of this check, not a verdict).
		if (m.class == "commit-sigs" || m.class == "commit-meta") && variant == "consistent" && c.tape.Chance(1, 2) {
			func() {
				defer func() {
					if r := recover(); r != nil {
						c.res.Violate("C18", "panic", "panic in state-level validation of a block that passes ValidateBasic ("+m.name+"): "+noDigits(firstLine(fmt.Sprint(r))),
							fmt.Sprintf("block %s, mutation %s/%s: %v", b.shape, m.name, variant, r))
					}
				}()
				_ = validateAgainstState(b.state, blk)
				c.res.Probe("state-validation-of-hash-changed-commit-mutant")
			}()
		}
		return "hash-changed"
	}
	// same id, different content, passes ValidateBasic: only the state can refuse it
	var serr error
	c.product("state-level validation of a mutated block ("+m.name+")", func() { serr = validateAgainstState(b.state, blk) })
	where := "height>1"
	if b.height == 1 {
		where = "initial height"
	}
	if serr == nil && m.class == "commit-meta" && b.height == 1 {
		c.fail("tamper-evident", "initial-height block: a change to LastCommit round / block id (no signatures to bind them) keeps the block hash and passes ValidateBasic and state validation",
			fmt.Sprintf("mutation %s (%s) of block %s: mutated encoding differs (%d vs %d bytes), hash %x unchanged", m.name, variant, b.shape, len(re), len(canon), h2))
	}
	if serr == nil {
		c.fail("tamper-evident", fmt.Sprintf("mutation of %s (%s, %s) keeps the block hash and passes ValidateBasic and state validation", m.name, variant, where),
			fmt.Sprintf("block %s: mutated encoding differs (%d vs %d bytes), hash %x unchanged", b.shape, len(re), len(canon), h2))
	}
	if strictClass[m.class] {
		c.fail("hash-coverage", fmt.Sprintf("mutation of %s (%s) keeps the block hash and passes ValidateBasic; only state validation refuses it", m.name, variant),
			fmt.Sprintf("block %s: state validation said: %v", b.shape, serr))
	}
	return "rejected-by-state"
}

// ---------------- field-by-field equality (independent of the encoders) ----------------

func diffBlockID(a, b types.BlockID) bool {
	return a.Hash != b.Hash || a.PartsHeader.Total != b.PartsHeader.Total || a.PartsHeader.Hash != b.PartsHeader.Hash
}

func diffHeader(a, b *types.Header) string {
	switch {
	case a.Height != b.Height:
		return "Height"
	case !a.Time.Equal(b.Time):
		return "Time"
	case a.NumTxs != b.NumTxs:
		return "NumTxs"
	case a.GasLimit != b.GasLimit:
		return "GasLimit"
	case diffBlockID(a.LastBlockID, b.LastBlockID):
		return "LastBlockID"
	case a.ProposerAddress != b.ProposerAddress:
		return "ProposerAddress"
	case a.LastCommitHash != b.LastCommitHash:
		return "LastCommitHash"
	case a.TxHash != b.TxHash:
		return "TxHash"
	case a.ValidatorsHash != b.ValidatorsHash:
		return "ValidatorsHash"
	case a.NextValidatorsHash != b.NextValidatorsHash:
		return "NextValidatorsHash"
	case a.ConsensusHash != b.ConsensusHash:
		return "ConsensusHash"
	case a.AppHash != b.AppHash:
		return "AppHash"
	case a.EvidenceHash != b.EvidenceHash:
		return "EvidenceHash"
	}
	return ""
}

func diffCommit(a, b *types.Commit) string {
	if (a == nil) != (b == nil) {
		return "presence"
	}
	if a == nil {
		return ""
	}
	switch {
	case a.Height != b.Height:
		return "Height"
	case a.Round != b.Round:
		return "Round"
	case diffBlockID(a.BlockID, b.BlockID):
		return "BlockID"
	case len(a.Signatures) != len(b.Signatures):
		return "Signatures(length)"
	}
	for i := range a.Signatures {
		x, y := a.Signatures[i], b.Signatures[i]
		switch {
		case x.BlockIDFlag != y.BlockIDFlag:
			return "Signatures.BlockIDFlag"
		case x.ValidatorAddress != y.ValidatorAddress:
			return "Signatures.ValidatorAddress"
		case !x.Timestamp.Equal(y.Timestamp):
			return "Signatures.Timestamp"
		case !bytes.Equal(x.Signature, y.Signature):
			return "Signatures.Signature"
		}
	}
	return ""
}

func diffVote(a, b *types.Vote) string {
	switch {
	case a.ValidatorAddress != b.ValidatorAddress:
		return "ValidatorAddress"
	case a.ValidatorIndex != b.ValidatorIndex:
		return "ValidatorIndex"
	case a.Height != b.Height:
		return "Height"
	case a.Round != b.Round:
		return "Round"
	case !a.Timestamp.Equal(b.Timestamp):
		return "Timestamp"
	case a.Type != b.Type:
		return "Type"
	case diffBlockID(a.BlockID, b.BlockID):
		return "BlockID"
	case !bytes.Equal(a.Signature, b.Signature):
		return "Signature"
	}
	return ""
}

func diffEvidence(a, b types.Evidence) string {
	x, ok1 := a.(*types.DuplicateVoteEvidence)
	y, ok2 := b.(*types.DuplicateVoteEvidence)
	if !ok1 || !ok2 {
		return "kind"
	}
	if d := diffVote(x.VoteA, y.VoteA); d != "" {
		return "VoteA." + d
	}
	if d := diffVote(x.VoteB, y.VoteB); d != "" {
		return "VoteB." + d
	}
	switch {
	case x.TotalVotingPower != y.TotalVotingPower:
		return "TotalVotingPower"
	case x.ValidatorPower != y.ValidatorPower:
		return "ValidatorPower"
	case !x.Timestamp.Equal(y.Timestamp):
		return "Timestamp"
	}
	return ""
}

func diffTx(a, b *types.Transaction) string {
	switch {
	case a.Hash() != b.Hash():
		return "Hash"
	case a.Nonce() != b.Nonce():
		return "Nonce"
	case a.Value().Cmp(b.Value()) != 0:
		return "Value"
	case a.Gas() != b.Gas():
		return "Gas"
	case !bytes.Equal(a.Data(), b.Data()):
		return "Data"
	case (a.To() == nil) != (b.To() == nil) || (a.To() != nil && *a.To() != *b.To()):
		return "To"
	}
	sa, e1 := types.Sender(types.HomesteadSigner{}, a)
	sb, e2 := types.Sender(types.HomesteadSigner{}, b)
	if e1 != nil || e2 != nil || sa != sb {
		return "Sender"
	}
	return ""
}

func diffBlock(a, b *types.Block) string {
	if a.Hash() != b.Hash() {
		return "Hash"
	}
	if d := diffHeader(a.Header(), b.Header()); d != "" {
		return "Header." + d
	}
	if len(a.Transactions()) != len(b.Transactions()) {
		return "Transactions(length)"
	}
	for i := range a.Transactions() {
		if d := diffTx(a.Transactions()[i], b.Transactions()[i]); d != "" {
			return "Transactions." + d
		}
	}
	if d := diffCommit(a.LastCommit(), b.LastCommit()); d != "" {
		return "LastCommit." + d
	}
	ea, eb := a.Evidence().Evidence, b.Evidence().Evidence
	if len(ea) != len(eb) {
		return "Evidence(length)"
	}
	for i := range ea {
		if d := diffEvidence(ea[i], eb[i]); d != "" {
			return "Evidence." + d
		}
	}
	return ""
}

// ---------------- encodings ----------------

func roundTrips(c *ctx, b *built, canon []byte) {
	t := c.tape
	// block
	var blk *types.Block
	var err error
	c.product("block wire round trip", func() {
		pb := new(kproto.Block)
		if err = proto.Unmarshal(canon, pb); err != nil {
			return
		}
		blk, err = types.BlockFromProto(pb, trie.NewStackTrie(nil))
	})
	if err != nil {
		c.fail("encoding", "valid block does not survive its wire encoding", err.Error())
	}
	if d := diffBlock(b.block, blk); d != "" {
		c.fail("encoding", "block field "+d+" changes across the wire encoding", b.shape)
	}
	pb2, _ := blk.ToProto()
	if !bytes.Equal(mustMarshal(pb2), canon) {
		c.fail("encoding", "block re-encodes differently after a wire round trip", b.shape)
	}
	// commit
	if b.commit != nil {
		var cm *types.Commit
		c.product("commit wire round trip", func() {
			p := new(kproto.Commit)
			if err = proto.Unmarshal(mustMarshal(b.commit.ToProto()), p); err != nil {
				return
			}
			cm, err = types.CommitFromProto(p)
		})
		if err != nil {
			c.fail("encoding", "valid commit does not survive its wire encoding", err.Error())
		}
		if d := diffCommit(b.commit, cm); d != "" {
			c.fail("encoding", "commit field "+d+" changes across the wire encoding", b.shape)
		}
		if cm.Hash() != b.commit.Hash() {
			c.fail("encoding", "commit hash changes across the wire encoding", b.shape)
		}
	}
	// votes: the precommits behind the commit and the votes inside the evidence
	var votes []*types.Vote
	for _, v := range b.votes {
		if v != nil {
			votes = append(votes, v)
		}
	}
	for _, ev := range b.evidence {
		d := ev.(*types.DuplicateVoteEvidence)
		votes = append(votes, d.VoteA, d.VoteB)
	}
	for _, v := range votes {
		var back *types.Vote
		c.product("vote wire round trip", func() {
			p := new(kproto.Vote)
			if err = proto.Unmarshal(mustMarshal(v.ToProto()), p); err != nil {
				return
			}
			back, err = types.VoteFromProto(p)
		})
		if err != nil {
			c.fail("encoding", "valid vote does not survive its wire encoding", err.Error())
		}
		if d := diffVote(v, back); d != "" {
			c.fail("encoding", "vote field "+d+" changes across the wire encoding", fmt.Sprint(v))
		}
		var verr error
		c.product("Vote.Verify", func() { verr = back.Verify(chainID, v.ValidatorAddress) })
		if verr != nil {
			c.fail("encoding", "vote signature no longer verifies after the wire round trip", verr.Error())
		}
	}
	// evidence
	for _, ev := range b.evidence {
		var back types.Evidence
		c.product("evidence wire round trip", func() {
			p, e := types.EvidenceToProto(ev)
			if e != nil {
				err = e
				return
			}
			q := new(kproto.Evidence)
			if err = proto.Unmarshal(mustMarshal(p), q); err != nil {
				return
			}
			back, err = types.EvidenceFromProto(q)
		})
		if err != nil {
			c.fail("encoding", "valid evidence does not survive its wire encoding", err.Error())
		}
		if d := diffEvidence(ev, back); d != "" {
			c.fail("encoding", "evidence field "+d+" changes across the wire encoding", "")
		}
		if back.Hash() != ev.Hash() {
			c.fail("encoding", "evidence hash changes across the wire encoding", "")
		}
	}
	// proposal for this block, signed by the proposer
	ps := b.block.MakePartSet(uint32([]int{128, 512, types.BlockPartSizeBytes}[t.Draw(3)]))
	prop0 := &types.Proposal{
		Height:     b.height,
		Round:      uint32(t.Draw(4)),
		POLRound:   uint32(t.Draw(3)),
		Timestamp:  simTime(200+t.Draw(100), t.Draw(1000)*1000),
		POLBlockID: types.BlockID{Hash: b.block.Hash(), PartsHeader: ps.Header()},
	}
	pi := valKeys.indexOf(b.block.ProposerAddress())
	ppb := prop0.ToProto()
	if err := valKeys.pv[pi].SignProposal(chainID, ppb); err != nil {
		panic(err)
	}
	prop0.Signature = ppb.Signature
	var pback *types.Proposal
	c.product("proposal wire round trip", func() {
		p := new(kproto.Proposal)
		if err = proto.Unmarshal(mustMarshal(prop0.ToProto()), p); err != nil {
			return
		}
		pback, err = types.ProposalFromProto(p)
	})
	if err != nil {
		c.fail("encoding", "valid proposal does not survive its wire encoding", err.Error())
	}
	switch {
	case pback.Height != prop0.Height, pback.Round != prop0.Round, pback.POLRound != prop0.POLRound,
		!pback.Timestamp.Equal(prop0.Timestamp), diffBlockID(pback.POLBlockID, prop0.POLBlockID), !bytes.Equal(pback.Signature, prop0.Signature):
		c.fail("encoding", "proposal changes across the wire encoding", fmt.Sprintf("%v vs %v", prop0, pback))
	}
	var sigOK bool
	c.product("proposal signature verification", func() {
		sigOK = types.VerifySignature(valKeys.addr[pi], crypto.Keccak256(types.ProposalSignBytes(chainID, pback.ToProto())), pback.Signature)
	})
	if !sigOK {
		c.fail("encoding", "proposal signature no longer verifies after the wire round trip", "")
	}
	// parts
	for i := 0; i < int(ps.Total()); i++ {
		p := ps.GetPart(i)
		var back *types.Part
		c.product("part wire round trip", func() {
			pp, e := p.ToProto()
			if e != nil {
				err = e
				return
			}
			q := new(kproto.Part)
			if err = proto.Unmarshal(mustMarshal(pp), q); err != nil {
				return
			}
			back, err = types.PartFromProto(q)
		})
		if err != nil {
			c.fail("encoding", "valid part does not survive its wire encoding", err.Error())
		}
		if !samePart(p, back) {
			c.fail("encoding", "part changes across the wire encoding", fmt.Sprintf("part %d of %d", i, ps.Total()))
		}
	}
	c.res.Probe("round-trips-checked")
}

// ---------------- rawdb ----------------

func rawdbReadBack(c *ctx, b *built) {
	t := c.tape
	db := memorydb.New()
	partSize := uint32([]int{128, 512, types.BlockPartSizeBytes}[t.Draw(3)])
	ps := b.block.MakePartSet(partSize)
	id := types.BlockID{Hash: b.block.Hash(), PartsHeader: ps.Header()}
	seen, _, _ := mkCommit(t, b.curVals, b.height, uint32(t.Draw(3)), id, 300)
	c.step("rawdb write height=%d parts=%d", b.height, ps.Total())
	c.product("rawdb.WriteBlock", func() { rawdb.WriteBlock(db, b.block, ps, seen) })
	H := b.height

	var rb *types.Block
	c.product("rawdb.ReadBlock", func() { rb = rawdb.ReadBlock(db, H) })
	if rb == nil {
		c.fail("rawdb", "block written through rawdb cannot be read back", b.shape)
	}
	if d := diffBlock(b.block, rb); d != "" {
		c.fail("rawdb", "block field "+d+" differs after rawdb read-back", b.shape)
	}
	if err := rb.ValidateBasic(trie.NewStackTrie(nil)); err != nil {
		c.fail("rawdb", "block read back from rawdb fails ValidateBasic", err.Error())
	}
	var meta *types.BlockMeta
	c.product("rawdb.ReadBlockMeta", func() { meta = rawdb.ReadBlockMeta(db, H) })
	if meta == nil || diffBlockID(meta.BlockID, id) || diffHeader(meta.Header, b.block.Header()) != "" {
		c.fail("rawdb", "block meta differs after rawdb read-back", fmt.Sprintf("%v", meta))
	}
	var hd *types.Header
	c.product("rawdb.ReadHeader", func() { hd = rawdb.ReadHeader(db, H) })
	if hd == nil || diffHeader(hd, b.block.Header()) != "" || hd.Hash() != b.block.Hash() {
		c.fail("rawdb", "header differs after rawdb read-back", "")
	}
	var lc, sc *types.Commit
	c.product("rawdb.ReadCommit", func() { lc = rawdb.ReadCommit(db, H-1) })
	if d := diffCommit(b.block.LastCommit(), lc); d != "" {
		c.fail("rawdb", "last commit field "+d+" differs after rawdb read-back", b.shape)
	}
	if lc != nil && lc.Hash() != b.block.LastCommit().Hash() {
		c.fail("rawdb", "last commit hash differs after rawdb read-back", b.shape)
	}
	c.product("rawdb.ReadSeenCommit", func() { sc = rawdb.ReadSeenCommit(db, H) })
	if d := diffCommit(seen, sc); d != "" {
		c.fail("rawdb", "seen commit field "+d+" differs after rawdb read-back", b.shape)
	}
	for i := 0; i < int(ps.Total()); i++ {
		var p *types.Part
		c.product("rawdb.ReadBlockPart", func() { p = rawdb.ReadBlockPart(db, H, i) })
		if p == nil || !samePart(p, ps.GetPart(i)) {
			c.fail("rawdb", "block part differs after rawdb read-back", fmt.Sprintf("part %d of %d", i, ps.Total()))
		}
	}
	c.product("rawdb absent keys", func() {
		if rawdb.ReadBlockPart(db, H, int(ps.Total())) != nil || rawdb.ReadBlock(db, H+1) != nil || rawdb.ReadBlockMeta(db, H+1) != nil ||
			rawdb.ReadSeenCommit(db, H+1) != nil || rawdb.ReadCommit(db, H) != nil {
			c.fail("rawdb", "rawdb returns data under a key that was never written", fmt.Sprintf("height %d", H))
		}
		if rawdb.ReadCanonicalHash(db, H) != b.block.Hash() {
			c.fail("rawdb", "canonical hash differs after rawdb read-back", "")
		}
		if hp := rawdb.ReadHeaderHeight(db, b.block.Hash()); hp == nil || *hp != H {
			c.fail("rawdb", "hash-to-height mapping differs after rawdb read-back", "")
		}
	})
	// the stored parts reassemble (through a fresh receiver) to the block
	rcv := types.NewPartSetFromHeader(meta.BlockID.PartsHeader)
	for _, i := range t.Perm(int(ps.Total())) {
		p := rawdb.ReadBlockPart(db, H, i)
		if added, err := rcv.AddPart(p); !added || err != nil {
			c.fail("rawdb", "part read back from rawdb is refused by a receiver built from the stored header", fmt.Sprintf("part %d: %v %v", i, added, err))
		}
	}
	c.res.Probe("rawdb-read-back-checked")
}

// ---------------- lib/merkle ----------------

func merkleChecks(c *ctx) {
	t := c.tape
	m := t.Range(1, 20)
	items := make([][]byte, m)
	for i := range items {
		switch t.Weighted(6, 1, 1, 1) {
		case 0:
			items[i] = t.Bytes(t.Range(0, 40))
		case 1: // looks like an inner node pre-image
			b := make([]byte, 65)
			b[0] = 1
			fill(b[1:], uint64(t.Draw(1<<16)))
			items[i] = b
		case 2: // two hashes back to back
			b := make([]byte, 64)
			fill(b, uint64(t.Draw(1<<16)))
			items[i] = b
		default: // repeat an earlier item
			if i > 0 {
				items[i] = cloneBytes(items[t.Draw(i)])
			}
		}
	}
	c.step("merkle items=%d", m)
	c.ah.Add("merkle", fmt.Sprint(m))
	want := refRoot(items)
	var root []byte
	var proofs []*merkle.SimpleProof
	c.product("merkle.SimpleProofsFromByteSlices", func() { root, proofs = merkle.SimpleProofsFromByteSlices(items) })
	if !eqBytes(root, want) {
		c.fail("merkle", "Merkle root differs from the reference (RFC 6962 shape, 0x00/0x01 prefixes)", fmt.Sprintf("items=%d impl %x ref %x", m, root, want))
	}
	var root2 []byte
	c.product("merkle.SimpleHashFromByteSlices", func() { root2 = merkle.SimpleHashFromByteSlices(items) })
	if !eqBytes(root2, want) {
		c.fail("merkle", "SimpleHashFromByteSlices differs from the reference root", fmt.Sprintf("items=%d", m))
	}
	if len(proofs) != m {
		c.fail("merkle", "number of proofs differs from number of items", "")
	}
	verify := func(p *merkle.SimpleProof, r, leaf []byte) bool {
		var err error
		c.product("SimpleProof.Verify", func() { err = p.Verify(r, leaf) })
		return err == nil
	}
	refVerdict := func(p *merkle.SimpleProof, r, leaf []byte) bool {
		if !eqBytes(refLeaf(leaf), p.LeafHash) {
			return false
		}
		got := refEval(p.Index, p.Total, p.LeafHash, p.Aunts)
		return got != nil && eqBytes(got, r)
	}
	for i, p := range proofs {
		if p.Total != uint64(m) || p.Index != uint64(i) || !eqBytes(p.LeafHash, refLeaf(items[i])) {
			c.fail("merkle", "proof carries wrong total, index or leaf hash", fmt.Sprintf("item %d of %d: %d/%d", i, m, p.Index, p.Total))
		}
		if !verify(p, root, items[i]) {
			c.fail("merkle", "genuine proof does not verify", fmt.Sprintf("item %d of %d", i, m))
		}
		if !refVerdict(p, root, items[i]) {
			panic("reference evaluator rejects a genuine proof") // our bug
		}
	}
	cp := func(p *merkle.SimpleProof) *merkle.SimpleProof {
		return &merkle.SimpleProof{Total: p.Total, Index: p.Index, LeafHash: cloneBytes(p.LeafHash), Aunts: cloneAunts(p.Aunts)}
	}
	judge := func(what string, p *merkle.SimpleProof, r, leaf []byte, leafIsAt int) {
		got, ref := verify(p, r, leaf), refVerdict(p, r, leaf)
		if !got && ref && (p.Index >= 1<<31 || p.Total >= 1<<31) {
			// a tree of 2^63+1 leaves is beyond any implementation; refusing is fine
			c.res.Probe("huge-total-refused-though-formally-valid")
			return
		}
		if got != ref {
			c.fail("merkle", fmt.Sprintf("Verify verdict (%v) differs from the reference (%v) for a tampered proof: %s", got, ref, what),
				fmt.Sprintf("items=%d index=%d total=%d aunts=%d", m, p.Index, p.Total, len(p.Aunts)))
		}
		if got {
			c.res.Probe("tampered-proof-still-valid:" + what)
			// soundness: whatever verifies must be about the leaf it was issued for
			if leafIsAt < 0 || !eqBytes(leaf, items[leafIsAt]) {
				c.fail("merkle", "proof verifies for a leaf that is not in the tree: "+what, fmt.Sprintf("items=%d", m))
			}
		}
	}
	// every (index,total) relabelling of one proof
	i := t.Draw(m)
	for tot := uint64(0); tot <= uint64(m)+2; tot++ {
		for idx := uint64(0); idx <= tot+1 && idx <= uint64(m)+2; idx++ {
			if idx == uint64(i) && tot == uint64(m) {
				continue
			}
			p := cp(proofs[i])
			p.Index, p.Total = idx, tot
			judge("index/total rewritten", p, root, items[i], i)
		}
	}
	for _, big := range []uint64{math.MaxUint64, 1 << 63, 1<<63 + uint64(i), 1 << 32, 1<<32 + uint64(i)} {
		p := cp(proofs[i])
		p.Index = big
		judge("huge index", p, root, items[i], i)
		p = cp(proofs[i])
		p.Total = big
		judge("huge total", p, root, items[i], i)
		p = cp(proofs[i])
		p.Total, p.Index = big, big-1
		judge("huge index and total", p, root, items[i], i)
	}
	c.res.Fault("merkle-index-total")
	// other tampering, a few draws
	for k := t.Range(3, 8); k > 0; k-- {
		i := t.Draw(m)
		p := cp(proofs[i])
		leaf := items[i]
		at := i
		r := cloneBytes(root)
		what := ""
		switch t.Draw(8) {
		case 0:
			j := t.Draw(m)
			if eqBytes(items[j], items[i]) {
				continue
			}
			leaf, at, what = items[j], -1, "another item under this proof"
		case 1:
			leaf, at, what = append(cloneBytes(leaf), 0), -1, "leaf extended"
		case 2:
			if len(leaf) == 0 {
				continue
			}
			leaf, at, what = leaf[:len(leaf)-1], -1, "leaf truncated"
		case 3:
			if len(p.Aunts) == 0 {
				continue
			}
			x := t.Draw(len(p.Aunts))
			p.Aunts = append(p.Aunts[:x], p.Aunts[x+1:]...)
			what = "aunt dropped"
		case 4:
			p.Aunts = append(p.Aunts, cloneBytes(p.LeafHash))
			what = "aunt appended"
		case 5:
			if len(p.Aunts) < 2 || eqBytes(p.Aunts[0], p.Aunts[1]) {
				continue
			}
			p.Aunts[0], p.Aunts[1] = p.Aunts[1], p.Aunts[0]
			what = "aunts swapped"
		case 6:
			p.LeafHash[t.Draw(32)] ^= 1
			what = "leaf hash flipped"
		case 7:
			r[t.Draw(32)] ^= 1
			at = -2
			what = "root flipped"
		}
		c.res.Fault("merkle-tamper")
		if at == -2 {
			if verify(p, r, leaf) {
				c.fail("merkle", "proof verifies against a different root", fmt.Sprintf("items=%d", m))
			}
			continue
		}
		if at == -1 {
			// the altered leaf may coincide with another item; soundness is judged on membership
			for j := range items {
				if eqBytes(items[j], leaf) {
					at = j
				}
			}
		}
		judge(what, p, r, leaf, at)
	}
	// leaf / inner domain separation: a leaf made of the two subtree roots must
	// not hash like the inner node above them
	if m >= 2 {
		k := 1
		for k*2 < m {
			k *= 2
		}
		l, r := refRoot(items[:k]), refRoot(items[k:])
		for _, fake := range [][]byte{append(cloneBytes(l), r...), append([]byte{1}, append(cloneBytes(l), r...)...)} {
			var fr []byte
			var fp []*merkle.SimpleProof
			c.product("merkle.SimpleProofsFromByteSlices", func() { fr, fp = merkle.SimpleProofsFromByteSlices([][]byte{fake}) })
			if eqBytes(fr, root) {
				c.fail("merkle", "a one-leaf tree over the two subtree roots collides with the tree itself (no leaf/inner domain separation)", fmt.Sprintf("items=%d", m))
			}
			if verify(fp[0], root, fake) {
				c.fail("merkle", "a leaf made of the two subtree roots verifies against the root", fmt.Sprintf("items=%d", m))
			}
			// and the other way round: the inner node's pre-image is not a member
			p := &merkle.SimpleProof{Total: 1, Index: 0, LeafHash: cloneBytes(root)}
			if verify(p, root, fake) {
				c.fail("merkle", "root accepted as the leaf hash of its own inner pre-image", fmt.Sprintf("items=%d", m))
			}
		}
		c.res.Probe("domain-separation-checked")
	}
}
