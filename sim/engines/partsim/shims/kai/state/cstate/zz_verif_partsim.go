package cstate

// Export shim added at build time through -overlay (no file in /repo is edited).
// No logic: re-exports the unexported state-level block validation.

var VerifValidateBlock = validateBlock
