// Engine sigsim (C11, transaction half): tape-generated operation histories over a
// handful of live *types.Transaction objects -- sign, types.Sender / AsMessage under
// right and wrong signers in any order (this is what exercises the per-object sender
// cache), RLP copies, single-field mutations that keep the signature, signature
// splices, high-s twins and malformed r / s / v values -- judged by
//
//   - a model-free oracle (an object with history must answer like a fresh copy),
//   - property-level oracles decided from a registry of what each key really signed,
//   - an independent reference implementation of sender recovery: own RLP encoding of
//     the 6-field / 9-field signing list, Keccak-256 from golang.org/x/crypto/sha3,
//     public-key recovery by libsecp256k1 (go-ethereum v1.9.15 crypto, cgo) -- none
//     of it shares code with /repo/types or /repo/lib/crypto (which uses btcec).
package sigsim

import (
	"bytes"
	"crypto/ecdsa"
	"encoding/hex"
	"fmt"
	"math/big"
	"runtime/debug"
	"strings"
	"sync"
	"testing"

	"verif/sim/core"

	gcrypto "github.com/ethereum/go-ethereum/crypto"
	"golang.org/x/crypto/sha3"

	"github.com/kardiachain/go-kardia/configs"
	"github.com/kardiachain/go-kardia/lib/common"
	"github.com/kardiachain/go-kardia/lib/crypto"
	"github.com/kardiachain/go-kardia/lib/rlp"
	"github.com/kardiachain/go-kardia/types"
)

const prop = "C11"

// ---------------------------------------------------------------------------
// reference: RLP, Keccak, curve constants (SEC 2, section 2.4.1), recovery
// ---------------------------------------------------------------------------

var (
	curveN, _ = new(big.Int).SetString("FFFFFFFFFFFFFFFFFFFFFFFFFFFFFFFEBAAEDCE6AF48A03BBFD25E8CD0364141", 16)
	halfN     = new(big.Int).Rsh(curveN, 1)
	two256    = new(big.Int).Lsh(big.NewInt(1), 256)
	two64     = new(big.Int).Lsh(big.NewInt(1), 64)
)

func keccak(b ...[]byte) []byte {
	h := sha3.NewLegacyKeccak256()
	for _, x := range b {
		h.Write(x)
	}
	return h.Sum(nil)
}

func rlpHeader(base byte, n int) []byte {
	if n < 56 {
		return []byte{base + byte(n)}
	}
	var be []byte
	for x := n; x > 0; x >>= 8 {
		be = append([]byte{byte(x)}, be...)
	}
	return append([]byte{base + 55 + byte(len(be))}, be...)
}

func rlpString(b []byte) []byte {
	if len(b) == 1 && b[0] < 0x80 {
		return []byte{b[0]}
	}
	return append(rlpHeader(0x80, len(b)), b...)
}

func rlpUint(u uint64) []byte {
	var be []byte
	for ; u > 0; u >>= 8 {
		be = append([]byte{byte(u)}, be...)
	}
	return rlpString(be)
}

func rlpBig(x *big.Int) []byte { return rlpString(x.Bytes()) } // non-negative only

func rlpList(items ...[]byte) []byte {
	var p []byte
	for _, it := range items {
		p = append(p, it...)
	}
	return append(rlpHeader(0xc0, len(p)), p...)
}

// fields is the signed content of a transaction.
type fields struct {
	nonce uint64
	price *big.Int
	gas   uint64
	to    []byte // nil = contract creation, else 20 bytes
	value *big.Int
	data  []byte
}

func (f fields) clone() fields {
	g := fields{nonce: f.nonce, gas: f.gas, price: new(big.Int).Set(f.price), value: new(big.Int).Set(f.value)}
	if f.to != nil {
		g.to = append([]byte{}, f.to...)
	}
	g.data = append([]byte{}, f.data...)
	return g
}

func (f fields) items() [][]byte {
	return [][]byte{rlpUint(f.nonce), rlpBig(f.price), rlpUint(f.gas), rlpString(f.to), rlpBig(f.value), rlpString(f.data)}
}

func (f fields) key() string { return string(rlpList(f.items()...)) }

func (f fields) String() string {
	to := "nil"
	if f.to != nil {
		to = hex.EncodeToString(f.to[:4]) + ".."
	}
	d := hex.EncodeToString(f.data)
	if len(d) > 16 {
		d = d[:16] + fmt.Sprintf("..(%dB)", len(f.data))
	}
	return fmt.Sprintf("{n=%d p=%s g=%d to=%s v=%s d=%s}", f.nonce, short(f.price), f.gas, to, short(f.value), d)
}

func short(x *big.Int) string {
	s := x.String()
	if len(s) > 24 {
		return fmt.Sprintf("%s..(%dbit)", s[:10], x.BitLen())
	}
	return s
}

// hash6 is the pre-replay-protection signing hash, hash9 the chain-bound one.
func hash6(f fields) []byte { return keccak(rlpList(f.items()...)) }

func hash9(f fields, chain *big.Int) []byte {
	it := append(f.items(), rlpBig(chain), rlpUint(0), rlpUint(0))
	return keccak(rlpList(it...))
}

// txm is the full content of a transaction object as the model knows it.
type txm struct {
	f       fields
	v, r, s *big.Int
}

func (m txm) encode() []byte {
	it := append(m.f.items(), rlpBig(m.v), rlpBig(m.r), rlpBig(m.s))
	return rlpList(it...)
}

func (m txm) sameSig(o txm) bool { return m.v.Cmp(o.v) == 0 && m.r.Cmp(o.r) == 0 && m.s.Cmp(o.s) == 0 }

// signer descriptors -----------------------------------------------------------

const (
	kHomestead = iota
	kFrontier
	kChain
)

type sdesc struct {
	kind int
	id   *big.Int // kChain only
}

func (a sdesc) eq(b sdesc) bool {
	if a.kind != b.kind {
		return false
	}
	return a.kind != kChain || a.id.Cmp(b.id) == 0
}

func (a sdesc) String() string {
	switch a.kind {
	case kHomestead:
		return "homestead"
	case kFrontier:
		return "frontier"
	}
	return "chainid(" + short(a.id) + ")"
}

func (a sdesc) class() string { return []string{"H", "F", "C"}[a.kind] }

// refResult is what the reference says about (content, signer).
type refResult struct {
	ok     bool
	addr   [20]byte
	reason string // when !ok: bad-range | high-s | bad-v | recover-failed
}

func pad32(x *big.Int) []byte {
	b := x.Bytes()
	out := make([]byte, 32)
	copy(out[32-len(b):], b)
	return out
}

// refRecover: libsecp256k1 public key recovery, address = low 20 bytes of Keccak(X||Y).
func refRecover(hash []byte, r, s *big.Int, recid byte) (a [20]byte, ok bool) {
	sig := append(append(pad32(r), pad32(s)...), recid)
	pub, err := gcrypto.Ecrecover(hash, sig)
	if err != nil || len(pub) != 65 || pub[0] != 4 {
		return a, false
	}
	copy(a[:], keccak(pub[1:])[12:])
	return a, true
}

// refSender is the reference sender recovery: v in {27,28} is the unprotected form
// (accepted by every signer, 6-field hash); v in {2C+35, 2C+36} is the form bound to
// chain id C (accepted by the chain-id signer for C only, 9-field hash); 0 < r < N and
// 0 < s <= N/2; anything else is rejected.
func refSender(sd sdesc, m txm, lowS bool) refResult {
	if m.r.Sign() <= 0 || m.s.Sign() <= 0 || m.r.Cmp(curveN) >= 0 || m.s.Cmp(curveN) >= 0 {
		return refResult{reason: "bad-range"}
	}
	if lowS && m.s.Cmp(halfN) > 0 {
		return refResult{reason: "high-s"}
	}
	var h []byte
	var recid byte
	switch {
	case m.v.Cmp(big.NewInt(27)) == 0 || m.v.Cmp(big.NewInt(28)) == 0:
		h, recid = hash6(m.f), byte(m.v.Int64()-27)
	case sd.kind == kChain:
		base := new(big.Int).Lsh(sd.id, 1)
		base.Add(base, big.NewInt(35))
		d := new(big.Int).Sub(m.v, base)
		if d.Sign() < 0 || d.Cmp(big.NewInt(1)) > 0 {
			return refResult{reason: "bad-v"}
		}
		h, recid = hash9(m.f, sd.id), byte(d.Int64())
	default:
		return refResult{reason: "bad-v"}
	}
	a, ok := refRecover(h, m.r, m.s, recid)
	if !ok {
		return refResult{reason: "recover-failed"}
	}
	return refResult{ok: true, addr: a}
}

// apparent parses v the way the replay-protection scheme defines it (not the product's code):
// mode 0 = unprotected, 1 = bound to chain, -1 = neither.
func apparent(v *big.Int) (mode int, chain *big.Int, recid byte) {
	if v.Cmp(big.NewInt(27)) == 0 || v.Cmp(big.NewInt(28)) == 0 {
		return 0, nil, byte(v.Int64() - 27)
	}
	if v.Cmp(big.NewInt(35)) >= 0 {
		d := new(big.Int).Sub(v, big.NewInt(35))
		return 1, new(big.Int).Rsh(d, 1), byte(d.Bit(0))
	}
	return -1, nil, 0
}

func vFor(mode int, chain *big.Int, recid byte) *big.Int {
	if mode == 0 {
		return big.NewInt(27 + int64(recid))
	}
	v := new(big.Int).Lsh(chain, 1)
	return v.Add(v, big.NewInt(35+int64(recid)))
}

// ---------------------------------------------------------------------------
// fixed keys, palette, self test
// ---------------------------------------------------------------------------

type keyT struct {
	prv  *ecdsa.PrivateKey // product-side key object (btcec curve)
	addr [20]byte          // reference address: libsecp256k1 public key, own Keccak
}

var (
	keys      []keyT
	chainIDs  []*big.Int // signing palette ids (non-zero)
	palette   []sdesc    // everything Sender may be asked with
	setupOnce sync.Once
	setupErr  string
)

func mustBig(s string) *big.Int {
	x, ok := new(big.Int).SetString(s, 0)
	if !ok {
		panic("bad constant " + s)
	}
	return x
}

func setup() {
	for _, label := range []string{"alice", "bob", "carol", "dave"} {
		for i := 0; ; i++ {
			d := keccak([]byte(fmt.Sprintf("sigsim-key:%s:%d", label, i)))
			x := new(big.Int).SetBytes(d)
			if x.Sign() == 0 || x.Cmp(curveN) >= 0 {
				continue
			}
			gk, err := gcrypto.ToECDSA(d)
			if err != nil {
				continue
			}
			pk, err := crypto.ToECDSA(d)
			if err != nil {
				setupErr = "product ToECDSA rejects a valid scalar: " + err.Error()
				return
			}
			var k keyT
			k.prv = pk
			copy(k.addr[:], keccak(pad32(gk.PublicKey.X), pad32(gk.PublicKey.Y))[12:])
			keys = append(keys, k)
			break
		}
	}
	chainIDs = []*big.Int{
		big.NewInt(1), big.NewInt(2), big.NewInt(24),
		mustBig("0xABCDEF0123"), // 40 bits
		new(big.Int).Sub(new(big.Int).Lsh(big.NewInt(1), 63), big.NewInt(18)),    // 2C+35 = 2^64-1, 2C+36 = 2^64
		new(big.Int).Add(new(big.Int).Lsh(big.NewInt(1), 70), big.NewInt(12345)), // > 64 bits
	}
	palette = []sdesc{{kind: kHomestead}, {kind: kChain, id: chainIDs[0]}, {kind: kChain, id: chainIDs[1]}, {kind: kChain, id: chainIDs[2]},
		{kind: kFrontier}, {kind: kChain, id: chainIDs[3]}, {kind: kChain, id: chainIDs[4]}, {kind: kChain, id: chainIDs[5]},
		{kind: kChain, id: new(big.Int)}}

	// Self test of the reference against the worked example of the replay-protection
	// specification (EIP-155): independent of the product.
	to, _ := hex.DecodeString("3535353535353535353535353535353535353535")
	f := fields{nonce: 9, price: big.NewInt(20000000000), gas: 21000, to: to, value: mustBig("1000000000000000000"), data: nil}
	wantSigning := "ec098504a817c800825208943535353535353535353535353535353535353535880de0b6b3a764000080018080"
	it := append(f.items(), rlpBig(big.NewInt(1)), rlpUint(0), rlpUint(0))
	if got := hex.EncodeToString(rlpList(it...)); got != wantSigning {
		setupErr = "reference self-test: signing bytes " + got
		return
	}
	if got := hex.EncodeToString(hash9(f, big.NewInt(1))); got != "daf5a779ae972f972197303d7b574746c7ef83eadac0f2791ad23db92e4c8e53" {
		setupErr = "reference self-test: signing hash " + got
		return
	}
	m := txm{f: f, v: big.NewInt(37),
		r: mustBig("18515461264373351373200002665853028612451056578545711640558177340181847433846"),
		s: mustBig("46948507304638947509940763649030358759909902576025900602547168820602576006531")}
	rr := refSender(sdesc{kind: kChain, id: big.NewInt(1)}, m, true)
	gk, _ := gcrypto.ToECDSA(bytes.Repeat([]byte{0x46}, 32))
	want := keccak(pad32(gk.PublicKey.X), pad32(gk.PublicKey.Y))[12:]
	if !rr.ok || !bytes.Equal(rr.addr[:], want) || hex.EncodeToString(want) != "9d8a62f656a8d1615c1294fd71e9cfb3e4855a4f" {
		setupErr = fmt.Sprintf("reference self-test: recovery ok=%v %x want %x", rr.ok, rr.addr, want)
		return
	}
	if got := hex.EncodeToString(m.encode()); got != "f86c098504a817c800825208943535353535353535353535353535353535353535880de0b6b3a76400008025a028ef61340bd939bc2195fe537567866003e1a15d3c71ff63e1590620aa636276a067cbe9d8997f761aecb703304b3800ccf555c9f3dc64214b297fb1966a3b6d83" {
		setupErr = "reference self-test: signed transaction bytes " + got
		return
	}
	// long-form headers
	if got := rlpString(bytes.Repeat([]byte{1}, 56)); got[0] != 0xb8 || got[1] != 56 || len(got) != 58 {
		setupErr = "reference self-test: long string header"
	}
	if got := rlpString(bytes.Repeat([]byte{1}, 300)); got[0] != 0xb9 || got[1] != 1 || got[2] != 44 {
		setupErr = "reference self-test: long string header (2 bytes)"
	}
}

// ---------------------------------------------------------------------------
// engine
// ---------------------------------------------------------------------------

type record struct {
	key  int
	fkey string
	sd   sdesc // signer it was signed with
	zero bool  // signed under the chain-id signer for chain id 0 (see stage.json assumptions)
	m    txm   // exactly what came out of signing
}

// compatible: would a signature made for rec be a legitimate acceptance under sd?
func (rec *record) compatible(sd sdesc) bool {
	if rec.sd.kind != kChain { // unprotected: pre-replay-protection form, legal everywhere
		return true
	}
	return sd.kind == kChain && sd.id.Cmp(rec.sd.id) == 0
}

type object struct {
	tx     *types.Transaction
	m      txm
	origin string // how it was made (abstract)
	cached *sdesc // model of the hidden state, used for probes only
	calls  int
}

type engine struct{}

func (engine) Name() string { return "sigsim" }

type outcome struct {
	ok   bool
	addr [20]byte
	err  string
}

func (o outcome) String() string {
	if o.ok {
		return "addr:" + hex.EncodeToString(o.addr[:6])
	}
	return "err(" + o.err + ")"
}

func (o outcome) class() string {
	if o.ok {
		return "accepted"
	}
	return "rejected"
}

// guard runs product code and reports a panic as text.
func guard(f func()) (p string) {
	defer func() {
		if r := recover(); r != nil {
			st := strings.Split(string(debug.Stack()), "\n")
			if len(st) > 24 {
				st = st[:24]
			}
			p = fmt.Sprint(r) + "\n" + strings.Join(st, "\n")
			if p == "" {
				p = "panic"
			}
		}
	}()
	f()
	return ""
}

func firstLine(s string) string {
	if i := strings.IndexByte(s, '\n'); i >= 0 {
		s = s[:i]
	}
	if len(s) > 120 {
		s = s[:120]
	}
	return s
}

type sim struct {
	t     *core.Tape
	res   *core.RunResult
	h, ah *core.Hasher
	ops   []string
	objs  []*object
	recs  []*record
	byAdr map[[20]byte]int

	honestOK, cachedCalls, advEvaluated int
}

func (s *sim) step(f string, a ...interface{}) {
	line := fmt.Sprintf("#%d ", s.res.Steps) + fmt.Sprintf(f, a...)
	if len(s.ops) < 40 {
		s.ops = append(s.ops, line)
	}
	s.res.Tracef("%s", line)
	s.h.Add(line)
}

func (s *sim) violate(oracle, sig, detail string) {
	s.step("VIOLATION %s: %s", oracle, sig)
	s.res.Violate(prop, oracle, sig, detail)
}

// makeSigner builds a product signer for a descriptor through a tape-chosen route,
// always from a private copy of the chain id.
func (s *sim) makeSigner(sd sdesc) (types.Signer, string, bool) {
	var inst types.Signer
	route := ""
	h0, h9 := uint64(0), uint64(9)
	p := guard(func() {
		switch sd.kind {
		case kFrontier:
			route, inst = "lit", types.FrontierSigner{}
		case kHomestead:
			switch s.t.Draw(4) {
			case 0:
				route, inst = "lit", types.HomesteadSigner{}
			case 1:
				route, inst = "latest-for-nil", types.LatestSignerForChainID(nil)
			case 2: // chain id configured, fork not scheduled
				route, inst = "make-prefork", types.MakeSigner(&configs.ChainConfig{ChainID: big.NewInt(24)}, &h9)
			default:
				route, inst = "latest-cfg-prefork", types.LatestSigner(&configs.ChainConfig{ChainID: big.NewInt(24)})
			}
		default:
			id := new(big.Int).Set(sd.id)
			switch s.t.Draw(4) {
			case 0:
				route, inst = "new", types.NewChainIDSigner(id)
			case 1:
				route, inst = "latest-for-id", types.LatestSignerForChainID(id)
			case 2:
				route, inst = "make", types.MakeSigner(&configs.ChainConfig{ChainID: id, GalaxiasBlock: &h0}, &h9)
			default:
				route, inst = "latest-cfg", types.LatestSigner(&configs.ChainConfig{ChainID: id, GalaxiasBlock: &h0})
			}
		}
	})
	if p != "" {
		s.violate("panic", "panic while constructing a signer: "+firstLine(p), p)
		return nil, route, false
	}
	// the constructor must have produced the signer that was asked for
	cid := inst.ChainID()
	if (sd.kind == kChain) != (cid != nil) || (cid != nil && cid.Cmp(sd.id) != 0) {
		s.violate("signer-construction", "signer constructor ("+route+") returned a signer for another chain id or kind",
			fmt.Sprintf("asked %s got chain id %v (%T)", sd, cid, inst))
		return nil, route, false
	}
	return inst, route, true
}

func toAddr(b []byte) common.Address {
	var a common.Address
	copy(a[:], b)
	return a
}

// newUnsigned builds the product object for f through the public constructors.
func newUnsigned(f fields) *types.Transaction {
	if f.to == nil {
		return types.NewContractCreation(f.nonce, f.value, f.gas, f.price, f.data)
	}
	return types.NewTransaction(f.nonce, toAddr(f.to), f.value, f.gas, f.price, f.data)
}

func rawOf(tx *types.Transaction) (v, r, sv *big.Int) {
	V, R, S := tx.RawSignatureValues()
	return new(big.Int).Set(V), new(big.Int).Set(R), new(big.Int).Set(S)
}

// fresh decodes the reference encoding of m into a new object (empty caches).
func (s *sim) fresh(m txm) *types.Transaction {
	tx := new(types.Transaction)
	var err error
	p := guard(func() { err = rlp.DecodeBytes(m.encode(), tx) })
	if p != "" {
		s.violate("panic", "panic while decoding the canonical RLP of a transaction: "+firstLine(p), p)
		return nil
	}
	if err != nil {
		s.res.Infra = fmt.Sprintf("product decoder rejects the canonical encoding of %s v=%v r=%v s=%v: %v", m.f, m.v, m.r, m.s, err)
		return nil
	}
	return tx
}

func (s *sim) put(o *object) int {
	const maxObjs = 5
	if len(s.objs) < maxObjs {
		s.objs = append(s.objs, o)
		return len(s.objs) - 1
	}
	i := s.t.Draw(maxObjs)
	s.objs[i] = o
	return i
}

// ---- value generators (0 = simplest) ----

func (s *sim) drawU64(simple uint64) uint64 {
	switch s.t.Weighted(4, 3, 1, 1, 1) {
	case 0:
		return simple
	case 1:
		return uint64(s.t.Range(1, 1000))
	case 2:
		return 0
	case 3:
		return ^uint64(0) - uint64(s.t.Draw(3))
	default:
		return s.t.Uint64()
	}
}

func (s *sim) drawBig() *big.Int {
	switch s.t.Weighted(4, 3, 2, 1, 1, 1, 1) {
	case 0:
		return new(big.Int)
	case 1:
		return big.NewInt(int64(s.t.Range(1, 1000)))
	case 2:
		return new(big.Int).Mul(mustBig("1000000000000000000"), big.NewInt(int64(s.t.Range(1, 5000))))
	case 3:
		return new(big.Int).Sub(two256, big.NewInt(1+int64(s.t.Draw(3))))
	case 4:
		return new(big.Int).Add(two64, big.NewInt(int64(s.t.Draw(3))-1))
	case 5:
		return new(big.Int).SetBytes(s.t.Bytes(s.t.Range(1, 32)))
	default:
		return new(big.Int).Lsh(big.NewInt(int64(s.t.Range(1, 255))), 290) // wider than a word of the VM
	}
}

func (s *sim) drawTo() []byte {
	switch s.t.Weighted(5, 3, 1, 1, 2) {
	case 0:
		return bytes.Repeat([]byte{0x35}, 20)
	case 1:
		return nil
	case 2:
		return make([]byte, 20)
	case 3:
		a := keys[s.t.Draw(len(keys))].addr
		return a[:]
	default:
		return s.t.Bytes(20)
	}
}

func (s *sim) drawData() []byte {
	switch s.t.Weighted(5, 1, 1, 3, 1, 1) {
	case 0:
		return nil
	case 1:
		return []byte{byte(s.t.Draw(0x80))} // encodes as itself
	case 2:
		return []byte{byte(0x80 + s.t.Draw(0x80))}
	case 3:
		return s.t.Bytes(s.t.Range(2, 36))
	case 4:
		return s.t.Bytes(s.t.Range(54, 57)) // short / long header boundary
	default:
		return s.t.Bytes(s.t.Range(58, 300))
	}
}

func (s *sim) drawFields() fields {
	return fields{nonce: s.drawU64(0), price: s.drawBig(), gas: s.drawU64(21000), to: s.drawTo(), value: s.drawBig(), data: s.drawData()}
}

func (s *sim) signingSigner() sdesc {
	// index 0 = homestead; chain-id signers for the non-zero ids; frontier
	n := s.t.Weighted(3, 3, 2, 2, 1, 1, 1, 1)
	return palette[n]
}

// ---- operations ----

// opCreate: build and sign through the product API; validate the outcome against the reference.
//
// base != nil: re-sign a live object (its content, whatever signature and sender cache
// it carries) with a tape-chosen key and signer; the outcome is a new object that must
// not inherit anything from the old signature.
func (s *sim) opCreate(zeroChain bool, base *object) bool {
	var f fields
	if base != nil {
		f = base.m.f.clone()
	} else {
		f = s.drawFields()
	}
	k := s.t.Draw(len(keys))
	sd := s.signingSigner()
	if zeroChain {
		sd = palette[len(palette)-1]
	}
	inst, route, ok := s.makeSigner(sd)
	if !ok {
		return false
	}
	how := s.t.Draw(3)
	var tx *types.Transaction
	var err error
	p := guard(func() {
		un := newUnsigned(f)
		if base != nil {
			un = base.tx
		}
		switch how {
		case 0:
			tx, err = types.SignTx(inst, un, keys[k].prv)
		case 1:
			hh := inst.Hash(un)
			var sig []byte
			sig, err = crypto.Sign(hh[:], keys[k].prv)
			if err == nil {
				tx, err = un.WithSignature(inst, sig)
			}
		default:
			tx = types.MustSignNewTx(inst, un, keys[k].prv)
		}
	})
	opName := "create"
	if base != nil {
		opName = "resign"
		if base.cached != nil {
			opName = "resign-cached"
			s.res.Probe("re-signed-an-object-with-cached-sender")
		}
	}
	s.ah.Add(opName, sd.class(), fmt.Sprint(zeroChain), fmt.Sprint(f.to == nil), fmt.Sprint(len(f.data) > 0))
	if p != "" {
		s.step("%s key=%d signer=%s %s -> PANIC", opName, k, sd, f)
		s.violate("panic", "panic while signing a transaction: "+firstLine(p), p)
		return false
	}
	if err != nil || tx == nil {
		s.step("%s key=%d signer=%s %s -> error %v", opName, k, sd, f, err)
		s.violate("sign-recover", "signing a well-formed transaction with a valid key failed", fmt.Sprintf("fields %s signer %s: %v", f, sd, err))
		return false
	}
	m := txm{f: f.clone()}
	m.v, m.r, m.s = rawOf(tx)
	o := &object{tx: tx, m: m, origin: "signed"}
	i := s.put(o)
	s.step("%s o%d key=%d signer=%s(%s) how=%d %s -> v=%s r=%x.. s=%x..", opName, i, k, sd, route, how, f, short(m.v), pad32(m.r)[:4], pad32(m.s)[:4])
	rec := &record{key: k, fkey: f.key(), sd: sd, zero: zeroChain, m: m}
	s.recs = append(s.recs, rec)
	if zeroChain {
		o.origin = "signed-chain0"
		s.res.Probe("signed-under-chainid-zero-signer")
		return true
	}
	// what came out of signing must verify under the reference, for the signing key,
	// in the encoding the signer stands for
	rr := refSender(sd, m, true)
	if !rr.ok || rr.addr != keys[k].addr {
		s.violate("reference-sign", "signature values produced by signing under a "+sd.class()+" signer do not verify against the reference signing hash for the signing key",
			fmt.Sprintf("fields %s signer %s key %d (%x): v=%v r=%v s=%v; reference: ok=%v reason=%s addr=%x", f, sd, k, keys[k].addr, m.v, m.r, m.s, rr.ok, rr.reason, rr.addr))
		return false
	}
	wantMode := 0
	if sd.kind == kChain {
		wantMode = 1
	}
	if mode, ch, _ := apparent(m.v); mode != wantMode || (mode == 1 && ch.Cmp(sd.id) != 0) {
		s.violate("reference-sign", "v produced by signing under a "+sd.class()+" signer is not in that signer's form", fmt.Sprintf("signer %s v=%v", sd, m.v))
		return false
	}
	if m.v.BitLen() > 64 {
		s.res.Probe("v-wider-than-64-bits")
	}
	return true
}

// relation of a query to what the object is (abstract class, used for the shape hash).
func (s *sim) relation(o *object, rec *record, sd sdesc) string {
	if rec == nil {
		return "adv"
	}
	switch {
	case rec.zero:
		return "chain0"
	case rec.sd.eq(sd):
		return "right"
	case rec.sd.kind == kChain && sd.kind == kChain:
		return "other-chain"
	case rec.sd.kind == kChain:
		return "protected-under-" + sd.class()
	case sd.kind == kChain:
		return "legacy-under-C"
	default:
		return "H-F-cross"
	}
}

// exactRecord: is the object byte-for-byte the outcome of an honest signing?
func (s *sim) exactRecord(m txm) *record {
	fk := m.f.key()
	for _, r := range s.recs {
		if r.fkey == fk && r.m.sameSig(m) {
			return r
		}
	}
	return nil
}

// opSender: types.Sender / AsMessage / Signer.Sender on an object, all oracles.
func (s *sim) opSender(idx int, sd sdesc, via int) bool {
	o := s.objs[idx]
	inst, route, ok := s.makeSigner(sd)
	if !ok {
		return false
	}
	rec := s.exactRecord(o.m)
	rel := s.relation(o, rec, sd)
	cacheState := "empty"
	if o.cached != nil {
		s.cachedCalls++
		if o.cached.eq(sd) {
			cacheState = "same"
			s.res.Probe("cached-object-queried-with-same-signer")
		} else {
			cacheState = "other"
			s.res.Probe("cached-object-queried-with-other-signer")
			if o.cached.kind == kChain && sd.kind == kChain {
				s.res.Probe("cached-under-chainid-then-queried-under-other-chainid")
			}
		}
	}
	viaName := []string{"Sender", "AsMessage", "Signer.Sender"}[via]
	s.ah.Add("query", viaName, sd.class(), rel, o.origin, cacheState)

	var got outcome
	var msg types.Message
	p := guard(func() {
		var a common.Address
		var err error
		switch via {
		case 0:
			a, err = types.Sender(inst, o.tx)
		case 1:
			msg, err = o.tx.AsMessage(inst)
			a = msg.From()
		default:
			a, err = inst.Sender(o.tx) // bypasses the cache: must agree all the same
		}
		if err != nil {
			got = outcome{err: err.Error()}
		} else {
			got = outcome{ok: true, addr: a}
		}
	})
	if p != "" {
		s.step("%s o%d signer=%s -> PANIC", viaName, idx, sd)
		s.violate("panic", "panic in "+viaName+" ("+o.origin+" transaction, "+sd.class()+" signer): "+firstLine(p), p)
		return false
	}
	o.calls++

	// (a) the same question on a fresh copy with empty caches
	fr := s.fresh(o.m)
	if fr == nil {
		return false
	}
	var fresh outcome
	p = guard(func() {
		a, err := types.Sender(inst, fr)
		if err != nil {
			fresh = outcome{err: err.Error()}
		} else {
			fresh = outcome{ok: true, addr: a}
		}
	})
	if p != "" {
		s.violate("panic", "panic in Sender on a freshly decoded transaction ("+o.origin+", "+sd.class()+" signer): "+firstLine(p), p)
		return false
	}
	ref := refSender(sd, o.m, true)
	refS := "reject(" + ref.reason + ")"
	if ref.ok {
		refS = "addr:" + hex.EncodeToString(ref.addr[:6])
	}
	s.step("%s o%d[%s] signer=%s(%s) rel=%s cache=%s -> %s | fresh %s | ref %s", viaName, idx, o.origin, sd, route, rel, cacheState, got, fresh, refS)
	cachedS := "nothing"
	if o.cached != nil {
		cachedS = o.cached.String()
	}
	detail := fmt.Sprintf("object o%d origin=%s content %s v=%v r=%v s=%v\nsigner %s via %s; model of cache before the call: %s (last successful Sender under %s)\nproduct: %s\nfresh copy: %s\nreference: %s",
		idx, o.origin, o.m.f, o.m.v, o.m.r, o.m.s, sd, viaName, cacheState, cachedS, got, fresh, refS)

	if got != fresh {
		if via != 2 && o.cached != nil {
			s.res.Probe("history-changed-an-answer")
		}
		what := got.class() + " where a fresh copy is " + fresh.class()
		if got.ok && fresh.ok {
			what = "another address than a fresh copy"
		} else if !got.ok && !fresh.ok {
			what = "another error than a fresh copy"
		}
		s.violate("cache-transparency", fmt.Sprintf("%s on a transaction object with sender-cache state %q answers %s (query relation: %s)", viaName, cacheState, what, rel), detail)
		return false
	}

	// property-level oracles, decided from the registry of real signatures
	if rec != nil && !rec.zero {
		switch {
		case rec.sd.eq(sd): // (b)
			if !got.ok || got.addr != keys[rec.key].addr {
				s.violate("sign-recover", "transaction signed under a "+sd.class()+" signer is "+got.class()+" without the signing key's address under the same signer", detail)
				return false
			}
			s.honestOK++
		case rec.sd.kind == kChain && sd.kind == kChain: // (c)
			s.res.Fault("query:other-chain-id-signer")
			if got.ok {
				s.violate("wrong-signer", "transaction signed for one chain id accepted by the chain-id signer of another", detail)
				return false
			}
		case rec.sd.kind == kChain: // (c) protected under homestead / frontier
			s.res.Fault("query:protected-under-legacy-signer")
			s.res.Probe("protected-tx-under-legacy-signer")
			if got.ok && got.addr == keys[rec.key].addr {
				s.violate("wrong-signer", "chain-bound transaction recovers its signing key under a signer without chain id", detail)
				return false
			}
		case sd.kind == kChain:
			s.res.Probe("unprotected-tx-under-chainid-signer")
			if got.ok && got.addr == keys[rec.key].addr {
				s.res.Probe("unprotected-tx-accepted-by-chainid-signer(legacy-path)")
			}
		}
	} else {
		s.advEvaluated++
		s.res.Probe("evaluated:" + o.origin)
	}
	if rec != nil && rec.zero && sd.kind == kChain && sd.id.Sign() == 0 && (!got.ok || got.addr != keys[rec.key].addr) {
		s.res.Probe("chainid-zero-sign-then-recover-mismatch")
	}

	// (e) malleable / malformed values must be rejected whatever the signer
	if got.ok {
		bad := ""
		switch {
		case o.m.r.Sign() == 0 || o.m.s.Sign() == 0:
			bad = "zero r or s"
		case o.m.r.Cmp(curveN) >= 0 || o.m.s.Cmp(curveN) >= 0:
			bad = "r or s not below the group order"
		case o.m.s.Cmp(halfN) > 0:
			bad = "s in the upper half of the group order (malleable twin)"
		default:
			mode, ch, _ := apparent(o.m.v)
			switch {
			case mode == -1:
				bad = "v outside every legal form"
			case mode == 1 && sd.kind != kChain:
				bad = "chain-bound v under a signer without chain id"
			case mode == 1 && ch.Cmp(sd.id) != 0:
				bad = "v of another chain id"
			}
		}
		if bad != "" {
			or := "malleable-malformed"
			if bad == "v of another chain id" {
				or = "wrong-signer"
			}
			s.violate(or, "transaction with "+bad+" accepted by "+viaName, detail)
			return false
		}
	}

	// (d) soundness: recovering one of the keys means that key signed exactly this
	// content in a form that is legal under the asking signer
	if got.ok {
		if k, isKey := s.byAdr[got.addr]; isKey {
			found := false
			fk := o.m.f.key()
			for _, r := range s.recs {
				if r.key == k && r.fkey == fk && (r.compatible(sd) && !r.zero || r.zero && sd.kind == kChain && sd.id.Sign() == 0) {
					found = true
					break
				}
			}
			if !found {
				s.violate("field-binding", "Sender returns the address of a key that never signed this content for this signer ("+o.origin+" transaction, "+sd.class()+" signer)", detail)
				return false
			}
		}
	}

	// (f) independent reference, both directions
	if ref.ok != got.ok || (ref.ok && ref.addr != got.addr) {
		what := "product " + got.class() + ", reference " + map[bool]string{true: "accepted", false: "rejected"}[ref.ok]
		if ref.ok && got.ok {
			what = "product and reference recover different addresses"
		}
		s.violate("reference", fmt.Sprintf("sender recovery disagrees with the reference: %s (%s transaction, %s signer, reference reason %q)", what, o.origin, sd.class(), ref.reason), detail)
		return false
	}

	if via == 1 && got.ok {
		f := o.m.f
		bad := ""
		switch {
		case msg.Nonce() != f.nonce:
			bad = "nonce"
		case msg.Gas() != f.gas:
			bad = "gas"
		case msg.GasPrice() == nil || msg.GasPrice().Cmp(f.price) != 0:
			bad = "gas price"
		case msg.Value() == nil || msg.Value().Cmp(f.value) != 0:
			bad = "value"
		case (msg.To() == nil) != (f.to == nil) || (f.to != nil && !bytes.Equal(msg.To()[:], f.to)):
			bad = "recipient"
		case !bytes.Equal(msg.Data(), f.data):
			bad = "data"
		}
		if bad != "" {
			s.violate("message-content", "AsMessage yields a "+bad+" different from the signed transaction's", detail)
			return false
		}
	}
	if got.ok && via != 2 {
		c := sd
		o.cached = &c
	}
	return true
}

// attach builds an object with content m through a tape-chosen route: the public API
// (constructor + WithSignature with the 65-byte signature) when m is expressible that
// way, or the product's RLP decoder on the reference encoding.
func (s *sim) attach(m txm, origin string) (*object, string, bool) {
	mode, ch, recid := apparent(m.v)
	var via *sdesc
	if m.r.BitLen() <= 256 && m.s.BitLen() <= 256 {
		if mode == 0 {
			via = &sdesc{kind: kHomestead}
		} else if mode == 1 && ch.Sign() != 0 {
			via = &sdesc{kind: kChain, id: ch}
		}
	}
	if via != nil && s.t.Chance(1, 2) {
		if mode == 0 && s.t.Chance(1, 3) {
			via = &sdesc{kind: kFrontier}
		}
		inst, _, ok := s.makeSigner(*via)
		if !ok {
			return nil, "", false
		}
		sig := append(append(pad32(m.r), pad32(m.s)...), recid)
		var tx *types.Transaction
		var err error
		p := guard(func() { tx, err = newUnsigned(m.f).WithSignature(inst, sig) })
		if p != "" {
			s.violate("panic", "panic in WithSignature with a 65-byte signature: "+firstLine(p), p)
			return nil, "", false
		}
		if err != nil {
			// refusing to attach is a legitimate way of rejecting; nothing to evaluate
			return nil, "api-refused", true
		}
		am := txm{f: m.f}
		am.v, am.r, am.s = rawOf(tx)
		if !am.sameSig(m) {
			s.violate("reference-sign", "WithSignature stores signature values other than the signer's encoding of the given 65-byte signature",
				fmt.Sprintf("signer %s given r=%v s=%v recid=%d expected v=%v; stored v=%v r=%v s=%v", via, m.r, m.s, recid, m.v, am.v, am.r, am.s))
			return nil, "", false
		}
		return &object{tx: tx, m: m, origin: origin}, "api", true
	}
	tx := s.fresh(m)
	if tx == nil {
		return nil, "", false
	}
	return &object{tx: tx, m: m, origin: origin}, "rlp", true
}

func (s *sim) bumpU64(old uint64) uint64 {
	var n uint64
	switch s.t.Draw(5) {
	case 0:
		n = old + 1
	case 1:
		n = old - 1
	case 2:
		n = 0
	case 3:
		n = old ^ (1 << uint(s.t.Draw(64)))
	default:
		n = s.t.Uint64()
	}
	if n == old {
		n = old + 1
	}
	return n
}

func (s *sim) bumpBig(old *big.Int) *big.Int {
	var n *big.Int
	switch s.t.Draw(5) {
	case 0:
		n = new(big.Int).Add(old, big.NewInt(1))
	case 1:
		n = new(big.Int).Sub(old, big.NewInt(1))
	case 2:
		n = new(big.Int)
	case 3:
		n = new(big.Int).Lsh(old, 8)
	default:
		n = s.drawBig()
	}
	if n.Sign() < 0 || n.Cmp(old) == 0 {
		n = new(big.Int).Add(old, big.NewInt(1))
	}
	return n
}

// opMutate: one field (or the chain id folded into v) changed, signature kept.
func (s *sim) opMutate(idx int) bool {
	src := s.objs[idx]
	m := txm{f: src.m.f.clone(), v: new(big.Int).Set(src.m.v), r: new(big.Int).Set(src.m.r), s: new(big.Int).Set(src.m.s)}
	kind := []string{"nonce", "price", "gas", "to", "value", "data", "chainid-v"}[s.t.Draw(7)]
	if kind == "chainid-v" {
		mode, ch, recid := apparent(m.v)
		if mode == -1 {
			kind = "nonce"
		} else {
			// candidates: unprotected form, or bound to another palette id
			var cands []*big.Int // nil = unprotected
			if mode == 1 {
				cands = append(cands, nil)
			}
			for _, id := range chainIDs {
				if mode == 0 || id.Cmp(ch) != 0 {
					cands = append(cands, id)
				}
			}
			c := cands[s.t.Draw(len(cands))]
			if c == nil {
				m.v = vFor(0, nil, recid)
				kind = "chainid-v:strip"
			} else {
				m.v = vFor(1, c, recid)
				if mode == 0 {
					kind = "chainid-v:add"
				} else {
					kind = "chainid-v:swap"
				}
			}
		}
	}
	switch kind {
	case "nonce":
		m.f.nonce = s.bumpU64(m.f.nonce)
	case "gas":
		m.f.gas = s.bumpU64(m.f.gas)
	case "price":
		m.f.price = s.bumpBig(m.f.price)
	case "value":
		m.f.value = s.bumpBig(m.f.value)
	case "to":
		old := m.f.to
		switch {
		case old == nil:
			m.f.to = s.drawTo()
			if m.f.to == nil {
				m.f.to = make([]byte, 20)
			}
		case s.t.Chance(1, 3):
			m.f.to = nil
		default:
			m.f.to = append([]byte{}, old...)
			m.f.to[s.t.Draw(20)] ^= byte(1 << uint(s.t.Draw(8)))
		}
	case "data":
		old := m.f.data
		switch c := s.t.Draw(4); {
		case len(old) == 0:
			m.f.data = []byte{byte(s.t.Draw(256))}
		case c == 0:
			m.f.data = append(append([]byte{}, old...), byte(s.t.Draw(256)))
		case c == 1:
			m.f.data = append([]byte{}, old[:len(old)-1]...)
		case c == 2:
			m.f.data = append([]byte{}, old...)
			m.f.data[s.t.Draw(len(old))] ^= byte(1 << uint(s.t.Draw(8)))
		default:
			m.f.data = append([]byte{byte(s.t.Draw(256))}, old...)
		}
	}
	o, route, ok := s.attach(m, "mutated:"+kind)
	if !ok {
		return false
	}
	s.ah.Add("mutate", kind, route)
	if o == nil {
		s.step("mutate o%d %s -> attach refused", idx, kind)
		return true
	}
	i := s.put(o)
	s.res.Fault("mutate:" + kind)
	s.step("mutate o%d %s via %s -> o%d %s v=%s", idx, kind, route, i, m.f, short(m.v))
	return true
}

// opSplice: the signature of one object on the content of another.
func (s *sim) opSplice(a, b int) bool {
	sa, sb := s.objs[a], s.objs[b]
	f := sb.m.f.clone()
	if a == b || sa.m.f.key() == f.key() {
		f = s.drawFields()
		if sa.m.f.key() == f.key() {
			f.nonce++
		}
	}
	m := txm{f: f, v: new(big.Int).Set(sa.m.v), r: new(big.Int).Set(sa.m.r), s: new(big.Int).Set(sa.m.s)}
	o, route, ok := s.attach(m, "spliced")
	if !ok {
		return false
	}
	s.ah.Add("splice", route)
	if o == nil {
		s.step("splice sig(o%d) on content(o%d) -> attach refused", a, b)
		return true
	}
	i := s.put(o)
	s.res.Fault("splice-signature")
	s.step("splice sig(o%d) on content(o%d) via %s -> o%d %s", a, b, route, i, f)
	return true
}

// opTwin: (r, N-s) with the recovery parity flipped -- same key, same content, other bytes.
func (s *sim) opTwin(idx int) bool {
	src := s.objs[idx]
	if src.m.s.Sign() <= 0 || src.m.s.Cmp(curveN) >= 0 {
		s.ah.Add("twin-skip")
		s.step("twin o%d skipped (s out of range)", idx)
		return true
	}
	m := txm{f: src.m.f.clone(), r: new(big.Int).Set(src.m.r), s: new(big.Int).Sub(curveN, src.m.s)}
	flip := !s.t.Chance(1, 6) // mostly the true twin; sometimes s alone
	mode, ch, recid := apparent(src.m.v)
	if mode == -1 || !flip {
		m.v = new(big.Int).Set(src.m.v)
	} else {
		m.v = vFor(mode, ch, recid^1)
	}
	high := m.s.Cmp(halfN) > 0
	origin := "twin-high-s"
	if !high {
		origin = "twin-back-to-low-s"
	}
	if !flip {
		origin += "-v-kept"
	}
	o, route, ok := s.attach(m, origin)
	if !ok {
		return false
	}
	s.ah.Add("twin", origin, route)
	if o == nil {
		s.step("twin o%d -> attach refused", idx)
		return true
	}
	i := s.put(o)
	if high {
		s.res.Fault("high-s-twin")
		// is it a real twin? without the low-s rule the reference recovers the same address
		for _, sd := range palette {
			a, b := refSender(sd, src.m, false), refSender(sd, m, false)
			if flip && a.ok && b.ok && a.addr == b.addr {
				s.res.Probe("high-s-twin-recovers-like-its-source-when-low-s-rule-is-ignored")
				break
			}
		}
	}
	s.step("twin o%d via %s -> o%d %s v=%s s=%x..", idx, route, i, origin, short(m.v), pad32(m.s)[:4])
	return true
}

var malformedKinds = []string{"r=0", "s=0", "r=N", "s=N", "r+N", "s+N", "r=2^256-1", "v=recid", "v+256", "v+2^64", "v=26", "v=29", "v=34", "v=0", "v+2", "v-2", "v=2^255", "unsigned", "r-s-swapped", "s+1"}

func (s *sim) opMalformed(idx int) bool {
	src := s.objs[idx]
	m := txm{f: src.m.f.clone(), v: new(big.Int).Set(src.m.v), r: new(big.Int).Set(src.m.r), s: new(big.Int).Set(src.m.s)}
	kind := malformedKinds[s.t.Draw(len(malformedKinds))]
	_, _, recid := apparent(m.v)
	switch kind {
	case "r=0":
		m.r = new(big.Int)
	case "s=0":
		m.s = new(big.Int)
	case "r=N":
		m.r = new(big.Int).Set(curveN)
	case "s=N":
		m.s = new(big.Int).Set(curveN)
	case "r+N":
		m.r = new(big.Int).Add(m.r, curveN)
	case "s+N":
		m.s = new(big.Int).Add(m.s, curveN)
	case "r=2^256-1":
		m.r = new(big.Int).Sub(two256, big.NewInt(1))
	case "v=recid":
		m.v = big.NewInt(int64(recid))
	case "v+256":
		m.v = new(big.Int).Add(m.v, big.NewInt(256*int64(s.t.Range(1, 3))))
	case "v+2^64":
		m.v = new(big.Int).Add(m.v, two64)
	case "v=26":
		m.v = big.NewInt(26)
	case "v=29":
		m.v = big.NewInt(29 + int64(s.t.Draw(2)))
	case "v=34":
		m.v = big.NewInt(34 - int64(s.t.Draw(4)))
	case "v=0":
		m.v = new(big.Int)
	case "v+2":
		m.v = new(big.Int).Add(m.v, big.NewInt(2))
	case "v-2":
		m.v = new(big.Int).Sub(m.v, big.NewInt(2))
		if m.v.Sign() < 0 {
			m.v = new(big.Int)
		}
	case "v=2^255":
		m.v = new(big.Int).Lsh(big.NewInt(1), 255)
		m.v.Add(m.v, big.NewInt(int64(recid)))
	case "unsigned":
		m.v, m.r, m.s = new(big.Int), new(big.Int), new(big.Int)
	case "r-s-swapped":
		m.r, m.s = m.s, m.r
	case "s+1":
		m.s = new(big.Int).Add(m.s, big.NewInt(1))
	}
	var o *object
	route := "rlp"
	if kind == "unsigned" && s.t.Chance(1, 2) {
		route = "api-unsigned"
		var tx *types.Transaction
		if p := guard(func() { tx = newUnsigned(m.f) }); p != "" {
			s.violate("panic", "panic in the transaction constructor: "+firstLine(p), p)
			return false
		}
		o = &object{tx: tx, m: m, origin: "malformed:" + kind}
	} else {
		var ok bool
		o, route, ok = s.attach(m, "malformed:"+kind)
		if !ok {
			return false
		}
	}
	s.ah.Add("malformed", kind, route)
	if o == nil {
		s.step("malformed o%d %s -> attach refused", idx, kind)
		return true
	}
	i := s.put(o)
	s.res.Fault("malformed:" + kind)
	s.step("malformed o%d %s via %s -> o%d v=%s r=%s s=%s", idx, kind, route, i, short(m.v), short(m.r), short(m.s))
	return true
}

// opCopy: product encoder, product decoder; the copy starts with empty caches.
func (s *sim) opCopy(idx int) bool {
	src := s.objs[idx]
	var enc []byte
	var err error
	how := s.t.Draw(2)
	p := guard(func() {
		if how == 0 {
			enc, err = rlp.EncodeToBytes(src.tx)
		} else {
			enc, err = src.tx.MarshalBinary()
		}
	})
	s.ah.Add("copy", fmt.Sprint(how), fmt.Sprint(src.cached != nil))
	if p != "" {
		s.violate("panic", "panic while encoding a transaction: "+firstLine(p), p)
		return false
	}
	if err != nil {
		s.violate("rlp-copy", "encoding a transaction object failed", err.Error())
		return false
	}
	tx := new(types.Transaction)
	p = guard(func() { err = rlp.DecodeBytes(enc, tx) })
	if p != "" {
		s.violate("panic", "panic while decoding the product's own encoding of a transaction: "+firstLine(p), p)
		return false
	}
	if err != nil {
		s.violate("rlp-copy", "the product's own encoding of a transaction is rejected by its decoder", fmt.Sprintf("%x: %v", enc, err))
		return false
	}
	if !bytes.Equal(enc, src.m.encode()) {
		s.violate("rlp-copy", "encoding of a transaction object differs from the canonical encoding of its nine fields",
			fmt.Sprintf("origin %s content %s v=%v r=%v s=%v\nproduct   %x\nreference %x", src.origin, src.m.f, src.m.v, src.m.r, src.m.s, enc, src.m.encode()))
		return false
	}
	o := &object{tx: tx, m: src.m, origin: src.origin}
	i := s.put(o)
	if src.cached != nil {
		s.res.Probe("copy-of-object-with-cached-sender")
	}
	s.step("copy o%d -> o%d (%d bytes)", idx, i, len(enc))
	return true
}

func (engine) Run(t *testing.T, tape *core.Tape, opt core.Options) *core.RunResult {
	setupOnce.Do(setup)
	res := core.NewResult()
	if setupErr != "" {
		res.Infra = setupErr
		return res
	}
	s := &sim{t: tape, res: res, h: core.NewHasher(), ah: core.NewHasher(), byAdr: map[[20]byte]int{}}
	for i, k := range keys {
		s.byAdr[k.addr] = i
	}
	defer func() {
		res.TraceHash = s.h.Sum()
		res.AbstractHash = s.ah.Sum()
		res.Sample = map[string]interface{}{"ops": s.ops}
	}()

	nOps := tape.Range(4, opt.Int("steps", 30))
	for step := 0; step < nOps; step++ {
		res.Steps++
		op := 1
		if len(s.objs) > 0 {
			op = tape.Weighted(14, 3, 2, 4, 1, 3, 1, 1)
		}
		ok := true
		switch op {
		case 0: // query
			idx := tape.Draw(len(s.objs))
			o := s.objs[idx]
			var sd sdesc
			switch tape.Weighted(4, 4, 2) {
			case 0: // the signer the object asks for (by its v, parsed by the model) or its last one
				mode, ch, _ := apparent(o.m.v)
				switch {
				case mode == 1:
					sd = sdesc{kind: kChain, id: ch}
				default:
					sd = sdesc{kind: kHomestead}
				}
			case 1:
				sd = palette[tape.Draw(len(palette))]
			default:
				if o.cached != nil {
					sd = *o.cached
				} else {
					sd = palette[tape.Draw(len(palette))]
				}
			}
			ok = s.opSender(idx, sd, tape.Weighted(6, 3, 1))
		case 1:
			ok = s.opCreate(tape.Chance(1, 24), nil)
		case 2:
			ok = s.opCopy(tape.Draw(len(s.objs)))
		case 3:
			ok = s.opMutate(tape.Draw(len(s.objs)))
		case 4:
			ok = s.opTwin(tape.Draw(len(s.objs)))
		case 5:
			ok = s.opMalformed(tape.Draw(len(s.objs)))
		case 6:
			ok = s.opSplice(tape.Draw(len(s.objs)), tape.Draw(len(s.objs)))
		case 7:
			ok = s.opCreate(false, s.objs[tape.Draw(len(s.objs))])
		}
		if !ok || res.Failed() || res.Infra != "" {
			return res
		}
	}
	res.NonTrivial = len(res.Faults) > 0 && s.advEvaluated+res.Faults["query:other-chain-id-signer"]+res.Faults["query:protected-under-legacy-signer"] > 0 &&
		s.honestOK > 0 && s.cachedCalls > 0
	if s.honestOK > 0 {
		res.Probe("runs-with-sign-then-recover")
	}
	return res
}

func TestSim(t *testing.T) { core.Main(t, engine{}) }
