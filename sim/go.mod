module verif/sim

go 1.26

require (
	github.com/VictoriaMetrics/fastcache v1.5.7
	github.com/Workiva/go-datastructures v1.0.52
	github.com/aristanetworks/goarista v0.0.0-20190712234253-ed1100a1c015
	github.com/btcsuite/btcd v0.21.0-beta
	github.com/cespare/cp v1.1.1
	github.com/davecgh/go-spew v1.1.1
	github.com/deckarep/golang-set v1.7.1
	github.com/ebuchman/fail-test v0.0.0-20170303061230-95f809107225
	github.com/ethereum/go-ethereum v1.9.15
	github.com/fortytw2/leaktest v1.3.0
	github.com/go-kit/kit v0.10.0
	github.com/go-stack/stack v1.8.0
	github.com/gogo/protobuf v1.3.2
	github.com/golang/protobuf v1.4.3
	github.com/google/cel-go v0.3.2
	github.com/google/uuid v1.0.0
	github.com/gorilla/mux v1.8.0
	github.com/gorilla/websocket v1.4.2
	github.com/gtank/merlin v0.1.1
	github.com/hashicorp/golang-lru v0.5.4
	github.com/holiman/uint256 v1.1.1
	github.com/influxdata/influxdb v1.2.3-0.20180221223340-01288bdb0883
	github.com/influxdata/influxdb-client-go/v2 v2.12.2
	github.com/libp2p/go-buffer-pool v0.0.2
	github.com/minio/highwayhash v1.0.1
	github.com/pebbe/zmq4 v1.0.0
	github.com/pkg/errors v0.9.1
	github.com/prometheus/client_golang v1.8.0
	github.com/prometheus/tsdb v0.10.0
	github.com/rjeczalik/notify v0.9.2
	github.com/rs/cors v1.7.0
	github.com/sasha-s/go-deadlock v0.2.0
	github.com/shirou/gopsutil v2.20.5+incompatible
	github.com/stretchr/testify v1.8.2
	github.com/syndtr/goleveldb v1.0.1-0.20200815110645-5c35d600f0ca
	golang.org/x/crypto v0.0.0-20210921155107-089bfa567519
	golang.org/x/exp v0.0.0-20230626212559-97b1e661b5df
	golang.org/x/net v0.3.0
	golang.org/x/sys v0.3.0
	golang.org/x/tools v0.4.0
	google.golang.org/genproto v0.0.0-20201111145450-ac7456db90a6
	gopkg.in/olebedev/go-duktape.v3 v3.0.0-20200603215123-a4a8cb9d2cbc
	gopkg.in/urfave/cli.v1 v1.20.0
	gopkg.in/yaml.v2 v2.3.0
)

require (
	github.com/cpuguy83/go-md2man/v2 v2.0.2 // indirect
	github.com/mitchellh/mapstructure v1.4.1 // indirect
	github.com/mitchellh/pointerstructure v1.2.1 // indirect
	github.com/naoina/go-stringutil v0.1.0 // indirect
	github.com/russross/blackfriday/v2 v2.1.0 // indirect
	github.com/xrash/smetrics v0.0.0-20201216005158-039620a65673 // indirect
	gopkg.in/check.v1 v1.0.0-20200902074654-038fdea0a05b // indirect
)

require (
	github.com/StackExchange/wmi v0.0.0-20180116203802-5d049714c4a6 // indirect
	github.com/allegro/bigcache v1.2.1 // indirect
	github.com/antlr/antlr4 v0.0.0-20190819145818-b43a4c3a8015 // indirect
	github.com/beorn7/perks v1.0.1 // indirect
	github.com/cespare/xxhash/v2 v2.1.1 // indirect
	github.com/deepmap/oapi-codegen v1.8.2 // indirect
	github.com/docker/docker v17.12.0-ce-rc1.0.20200531234253-77e06fda0c94+incompatible // indirect
	github.com/edsrzf/mmap-go v1.0.0 // indirect
	github.com/fjl/memsize v0.0.0-20190710130421-bcb5799ab5e5
	github.com/gballet/go-libpcsclite v0.0.0-20190607065134-2772fd86a8ff // indirect
	github.com/go-ole/go-ole v1.2.1 // indirect
	github.com/golang/snappy v0.0.1 // indirect
	github.com/hashicorp/go-bexpr v0.1.12
	github.com/holiman/bloomfilter/v2 v2.0.3
	github.com/huin/goupnp v1.0.0 // indirect
	github.com/influxdata/line-protocol v0.0.0-20200327222509-2487e7298839 // indirect
	github.com/jackpal/go-nat-pmp v1.0.2-0.20160603034137-1fa385a6f458 // indirect
	github.com/karalabe/usb v0.0.0-20190919080040-51dc0efba356 // indirect
	github.com/mattn/go-colorable v0.1.8
	github.com/mattn/go-isatty v0.0.12
	github.com/mattn/go-runewidth v0.0.4 // indirect
	github.com/matttproud/golang_protobuf_extensions v1.0.1 // indirect
	github.com/mimoo/StrobeGo v0.0.0-20181016162300-f8f6d4d2b643 // indirect
	github.com/naoina/toml v0.1.2-0.20170918210437-9fafd6967416
	github.com/niemeyer/pretty v0.0.0-20200227124842-a10e7caefd8e // indirect
	github.com/olekukonko/tablewriter v0.0.2-0.20190409134802-7e037d187b0c // indirect
	github.com/pborman/uuid v1.2.0 // indirect
	github.com/peterh/liner v1.1.1-0.20190123174540-a2c9a5303de7 // indirect
	github.com/petermattis/goid v0.0.0-20180202154549-b0b1615b78e5 // indirect
	github.com/pmezard/go-difflib v1.0.0 // indirect
	github.com/prometheus/client_model v0.2.0 // indirect
	github.com/prometheus/common v0.14.0 // indirect
	github.com/prometheus/procfs v0.2.0 // indirect
	github.com/status-im/keycard-go v0.0.0-20190424133014-d95853db0f48 // indirect
	github.com/steakknife/bloomfilter v0.0.0-20180922174646-6819c0d2a570 // indirect
	github.com/steakknife/hamming v0.0.0-20180906055917-c99c65617cd3 // indirect
	github.com/stretchr/objx v0.5.0 // indirect
	github.com/tyler-smith/go-bip39 v1.0.2 // indirect
	github.com/urfave/cli/v2 v2.25.6
	github.com/wsddn/go-ecdh v0.0.0-20161211032359-48726bab9208 // indirect
	golang.org/x/mod v0.11.0 // indirect
	golang.org/x/text v0.5.0 // indirect
	golang.org/x/time v0.0.0-20210220033141-f8bda1e9f3ba // indirect
	google.golang.org/protobuf v1.24.0 // indirect
	gopkg.in/natefinch/lumberjack.v2 v2.2.1
	gopkg.in/natefinch/npipe.v2 v2.0.0-20160621034901-c1b8fa8bdcce // indirect
	gopkg.in/yaml.v3 v3.0.1 // indirect
)

require github.com/kardiachain/go-kardia v0.0.0
replace github.com/kardiachain/go-kardia => /repo
